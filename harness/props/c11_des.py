"""C11, DES and the bcrypt core (see c11.py)."""
from __future__ import annotations

import json

from .. import tlc
from ..common import VERIF


def run(chk, quick, rnd):
    part_des(chk, quick, rnd)
    part_blowfish(chk, quick, rnd)
    part_bcrypt(chk, quick, rnd)


def part_des(chk, quick, rnd):
    from passlib.crypto import des as pd
    from passlib.utils.binary import h64, h64big
    import legacycrypt
    cases = []

    def add(**k):
        cases.append(k)
        return len(cases)

    def rb(n):
        return [rnd.randrange(256) for _ in range(n)]
    unit = [[(1 << (7 - (b % 8))) if b // 8 == j else 0 for j in range(8)] for b in range(64)]
    # plain DES: unit-vector keys and blocks, random ones
    # related keys used back to back (keys differing in a single key bit / only in a parity bit): each must get its own schedule
    for j in range(8):
        base = rb(8)
        for bit in (0x02, 0x04, 0x80, 0x01):
            k2 = list(base)
            k2[j] ^= bit
            blk = rb(8)
            add(kind="block", key=list(base), input=blk, salt=0, rounds=1)
            add(kind="block", key=k2, input=blk, salt=0, rounds=1)
    for u in (unit[::3] if quick else unit):
        add(kind="block", key=u, input=rb(8), salt=0, rounds=1)
        add(kind="block", key=rb(8), input=u, salt=0, rounds=1)
    for _ in range(10 if quick else 100):
        add(kind="block", key=rb(8), input=rb(8), salt=0, rounds=1)
    add(kind="block", key=[0] * 8, input=[0] * 8, salt=0, rounds=1)
    add(kind="block", key=[255] * 8, input=[255] * 8, salt=0, rounds=1)
    # salted, iterated
    # the product space of "salted or not" and "iterated or not" - unsalted iteration included
    for rounds in (2, 3, 5, 25):
        add(kind="block", key=rb(8), input=rb(8), salt=0, rounds=rounds)
    salts = [1 << b for b in range(24)] + [4095, 0xFFFFFF, 0xFFF000, 0x555555] + [rnd.randrange(1 << 24) for _ in range(6 if quick else 60)]
    for s in (salts[::3] if quick else salts):
        add(kind="block", key=rb(8), input=rb(8), salt=s, rounds=rnd.choice([1, 2, 3]))
    for rounds in ([1, 2, 5, 24, 25, 26] if quick else list(range(1, 31)) + [64, 100]):
        add(kind="block", key=rb(8), input=rb(8) if rounds % 2 else [0] * 8, salt=rnd.randrange(1 << 24), rounds=rounds)
    # independent provider for the transcription itself: libxcrypt's des_crypt and bsdi_crypt
    H64 = "./0123456789ABCDEFGHIJKLMNOPQRSTUVWXYZabcdefghijklmnopqrstuvwxyz"
    xc = []
    for _ in range(4 if quick else 30):
        pw = "".join(rnd.choice("abcXYZ019 !~") for _ in range(rnd.randrange(1, 9)))
        salt = rnd.choice(H64) + rnd.choice(H64)
        ref = legacycrypt.crypt(pw, salt)
        if ref and len(ref) == 13:
            i = add(kind="block", key=[(c & 0x7F) << 1 for c in pw.encode().ljust(8, b"\0")], input=[0] * 8, salt=h64.decode_int12(salt.encode()), rounds=25)
            xc.append((i, ref[2:], f"des_crypt({pw!r}, {salt!r})"))
        r_ = rnd.choice([1, 3, 25, 27, 101])
        s24 = rnd.randrange(1 << 24)
        cfg = "_" + h64.encode_int24(r_).decode() + h64.encode_int24(s24).decode()
        ref = legacycrypt.crypt(pw, cfg)
        if ref and len(ref) == 20:
            i = add(kind="block", key=[(c & 0x7F) << 1 for c in pw.encode().ljust(8, b"\0")], input=[0] * 8, salt=s24, rounds=r_)
            xc.append((i, ref[9:], f"bsdi_crypt({pw!r}, {cfg!r})"))
    # key expansion
    for _ in range(5 if quick else 50):
        add(kind="expand", key=rb(7))
        add(kind="shrink", key=rb(8))
    for b in range(0, 56, 5 if quick else 1):
        add(kind="expand", key=[(1 << (7 - (b % 8))) if b // 8 == j else 0 for j in range(7)])
    wd = tlc.WORK / "C11_des_in"
    wd.mkdir(parents=True, exist_ok=True)
    (wd / "cases.json").write_text(json.dumps(cases))
    res = tlc.run("MC_Des", "INIT Init\nNEXT Next\nINVARIANT InvExpand\n", name="C11_des", workers=16, env={"TRACE_FILE": str(wd / "cases.json")}, coverage=False, timeout=3000)
    chk.add_tlc("MC_Des: FIPS 46-3 with crypt(3)'s salt and iteration, key expansion (evaluated by TLC)", res)
    outs = {e["case"]: bytes(e["out"]) for e in res.emits}
    if len(outs) != len(cases):
        raise tlc.MachineryError(f"MC_Des decided {len(outs)} of {len(cases)} cases")
    for i, tail, what in xc:
        if h64big.encode_int64(int.from_bytes(outs[i], "big")).decode() != tail:
            raise tlc.MachineryError(f"Des.tla disagrees with libxcrypt on {what}: the transcription is wrong")
    chk.extra["des_spec_validated_against_libxcrypt"] = len(xc)
    for i, c in enumerate(cases, 1):
        key = bytes(c["key"])
        if c["kind"] == "block":
            inp = bytes(c["input"])
            chk.count(("des", c["salt"] != 0, c["rounds"], sum(c["key"]) in (1, 2, 4, 8, 16, 32, 64, 128), sum(c["input"]) in (1, 2, 4, 8, 16, 32, 64, 128)))
            chk.action("des.block")
            got = pd.des_encrypt_block(key, inp, c["salt"], c["rounds"])
            got2 = pd.des_encrypt_int_block(int.from_bytes(key, "big"), int.from_bytes(inp, "big"), c["salt"], c["rounds"]).to_bytes(8, "big")
            # parity positions are ignored
            key_p = bytes(b ^ 1 if rnd.random() < .5 else b for b in key)
            got3 = pd.des_encrypt_block(key_p, inp, c["salt"], c["rounds"])
            if not (got == got2 == got3 == outs[i]):
                chk.violation(f"des:block:salt={'yes' if c['salt'] else 'no'}:rounds={c['rounds']}",
                              f"des_encrypt_block(key={key.hex()}, {inp.hex()}, salt={c['salt']}, rounds={c['rounds']}) = {got.hex()} / int {got2.hex()} / parity-flipped {got3.hex()}; FIPS 46-3: {outs[i].hex()}",
                              {"key": key.hex(), "input": inp.hex(), "salt": c["salt"], "rounds": c["rounds"]})
        elif c["kind"] == "expand":
            chk.count(("des-expand", sum(c["key"]) in (1, 2, 4, 8, 16, 32, 64, 128)))
            chk.action("des.expand")
            got = pd.expand_des_key(key)
            back = pd.shrink_des_key(got)
            gi = pd.expand_des_key(int.from_bytes(key, "big"))
            # the 7-byte key and its expansion encrypt alike
            blk = bytes(rnd.randrange(256) for _ in range(8))
            same = pd.des_encrypt_block(key, blk) == pd.des_encrypt_block(got, blk)
            if got != outs[i] or back != key or gi != int.from_bytes(outs[i], "big") or not same:
                chk.violation("des:expand", f"expand_des_key({key.hex()}) = {got.hex()}, spec {outs[i].hex()}; shrink gives {back.hex()}", {"key": key.hex()})
        else:
            chk.count(("des-shrink",))
            chk.action("des.shrink")
            got = pd.shrink_des_key(key)
            if got != outs[i]:
                chk.violation("des:shrink", f"shrink_des_key({key.hex()}) = {got.hex()}, spec {outs[i].hex()}", {"key": key.hex()})
    chk.traces += len(cases)


def pi_words(nwords):
    """the first nwords 32-bit words of the fractional part of pi (Machin's formula on big integers) - Blowfish's initial tables"""
    bits = 32 * nwords + 64
    one = 1 << bits

    def arctan_inv(x):
        total = term = one // x
        x2 = x * x
        n = 1
        while term:
            term //= x2
            n += 2
            total += (term // n) * (-1 if (n // 2) % 2 else 1)
        return total
    frac = 4 * (4 * arctan_inv(5) - arctan_inv(239)) - 3 * one
    return [(frac >> (bits - 32 * (k + 1))) & 0xFFFFFFFF for k in range(nwords)]


BC64 = "./ABCDEFGHIJKLMNOPQRSTUVWXYZabcdefghijklmnopqrstuvwxyz0123456789"


def bc64enc(b):
    out, v, bits = [], 0, 0
    for x in b:
        v = (v << 8) | x
        bits += 8
        while bits >= 6:
            bits -= 6
            out.append(BC64[(v >> bits) & 63])
    if bits:
        out.append(BC64[(v << (6 - bits)) & 63])
    return "".join(out)


def bc64dec(s):
    v, bits, out = 0, 0, bytearray()
    for ch in s:
        v = (v << 6) | BC64.index(ch)
        bits += 6
        if bits >= 8:
            bits -= 8
            out.append((v >> bits) & 0xFF)
    return bytes(out)


def part_blowfish(chk, quick, rnd):
    """Blowfish.tla evaluated by TLC: plain Blowfish blocks and whole bcrypt cores (the tables come from pi itself)"""
    from passlib.crypto._blowfish import raw_bcrypt
    from passlib.crypto._blowfish.base import BlowfishEngine
    import bcrypt as cbcrypt
    ws = pi_words(18 + 1024)
    cases = [dict(kind="encipher", key=[0] * 8, block=[0] * 8), dict(kind="encipher", key=[255] * 8, block=[255] * 8)]
    for _ in range(2 if quick else 12):
        cases.append(dict(kind="encipher", key=[rnd.randrange(256) for _ in range(rnd.choice([1, 8, 16, 56, 72]))], block=[rnd.randrange(256) for _ in range(8)]))
    shapes = [(4, 0), (4, 72)] if quick else [(4, 0), (4, 1), (4, 8), (4, 55), (4, 71), (4, 72), (4, 73), (4, 100), (5, 17), (5, 72), (6, 9)]
    meta = {}
    for cost, ln in shapes:
        pw = bytes(rnd.randrange(1, 256) for _ in range(ln))
        salt = "".join(rnd.choice(BC64) for _ in range(21)) + rnd.choice(".Oeu")
        cases.append(dict(kind="bcrypt", cost=cost, salt=list(bc64dec(salt)[:16]), pw=list(pw)))
        meta[len(cases)] = (cost, pw, salt)
    wd = tlc.WORK / "C11_blowfish_in"
    wd.mkdir(parents=True, exist_ok=True)
    (wd / "input.json").write_text(json.dumps(dict(P=[[w >> 16, w & 0xFFFF] for w in ws[:18]], S=[[w >> 16, w & 0xFFFF] for w in ws[18:]], cases=cases)))
    r = tlc.run("MC_Blowfish", "INIT Init\nNEXT Next\n", name="C11_blowfish", workers=16, env={"TRACE_FILE": str(wd / "input.json")}, coverage=False, timeout=5000)
    chk.add_tlc(f"MC_Blowfish: {len(cases)} Blowfish blocks / bcrypt cores evaluated by TLC from the pi tables", r)
    outs = {e["case"]: bytes(e["out"]) for e in r.emits}
    if len(outs) != len(cases):
        raise tlc.MachineryError(f"MC_Blowfish decided {len(outs)} of {len(cases)}")
    if outs[1].hex() != "4ef997456198dd78":
        raise tlc.MachineryError("Blowfish.tla fails Schneier's all-zero test vector")
    for i, c in enumerate(cases, 1):
        if c["kind"] == "encipher":
            eng = BlowfishEngine()
            eng.expand(eng.key_to_words(bytes(c["key"])))
            l, r_ = eng.encipher(int.from_bytes(bytes(c["block"][:4]), "big"), int.from_bytes(bytes(c["block"][4:]), "big"))
            got = l.to_bytes(4, "big") + r_.to_bytes(4, "big")
            chk.count(("blowfish", len(c["key"])))
            chk.action("blowfish.encipher")
            if got != outs[i]:
                chk.violation("blowfish:encipher", f"BlowfishEngine encrypts {bytes(c['block']).hex()} under key {bytes(c['key']).hex()[:32]} to {got.hex()}, Blowfish gives {outs[i].hex()}", {"key": bytes(c["key"]).hex()})
        else:
            cost, pw, salt = meta[i]
            want = bc64enc(outs[i])
            ref = cbcrypt.hashpw(pw[:72], f"$2b${cost:02d}${salt}".encode()).decode()[29:]
            if ref != want:
                raise tlc.MachineryError(f"Blowfish.tla disagrees with the bcrypt C library for cost={cost} len={len(pw)}")
            chk.count(("bcrypt-tlc", cost, len(pw)))
            chk.action("bcrypt.core")
            for ident in ("2a", "2b", "2y"):
                got = raw_bcrypt(pw, ident, salt.encode(), cost).decode()
                if got != want:
                    chk.violation(f"bcrypt-core:{ident}:tlc", f"raw_bcrypt({ident}, cost={cost}, {len(pw)}-byte password) = {got}, EksBlowfish evaluated by TLC gives {want}",
                                  {"ident": ident, "cost": cost, "password": pw.hex(), "salt": salt})
    chk.traces += len(cases)


def part_bcrypt(chk, quick, rnd):
    """bcrypt core: TLC does not define Blowfish; the function is bound by two independent providers"""
    from passlib.crypto._blowfish import raw_bcrypt
    import bcrypt as cbcrypt
    import legacycrypt
    B64 = "./ABCDEFGHIJKLMNOPQRSTUVWXYZabcdefghijklmnopqrstuvwxyz0123456789"
    evs = []
    lens = [0, 1, 2, 7, 8, 17, 35, 36, 55, 56, 70, 71, 72] if quick else list(range(0, 73))
    n = 0
    for ln in lens:
        for cost in ([4] if quick and ln % 3 else [4, 5] if quick else [4, 5, 6]):
            pw = bytes(rnd.choice([rnd.randrange(1, 128), rnd.randrange(128, 256)]) if rnd.random() < .5 else rnd.randrange(97, 123) for _ in range(ln))
            salt = "".join(rnd.choice(B64) for _ in range(21)) + rnd.choice(".Oeu")
            k = f"cost={cost} salt={salt} pw={pw.hex()}"
            for ident in ("2a", "2b", "2y"):
                try:
                    v = raw_bcrypt(pw, ident, salt.encode(), cost).decode()
                except Exception as ex:
                    v = "raised " + type(ex).__name__
                evs.append(dict(f="bcrypt-core", k=k, v=v, src=f"passlib/{ident}"))
            # "2": no NUL terminator - bound to the others by  raw("2", pw + NUL) = raw("2a", pw)
            try:
                v = raw_bcrypt(pw + b"\0", "2", salt.encode(), cost).decode()
            except Exception as ex:
                v = "raised " + type(ex).__name__
            evs.append(dict(f="bcrypt-core", k=k, v=v, src="passlib/2+NUL"))
            ref = cbcrypt.hashpw(pw, f"$2b${cost:02d}${salt}".encode()).decode()
            evs.append(dict(f="bcrypt-core", k=k, v=ref[29:], src="bcrypt-C"))
            try:
                text = pw.decode("utf-8")
                ref2 = legacycrypt.crypt(text, f"$2b${cost:02d}${salt}")
                if ref2 and ref2.startswith("$2b$"):
                    evs.append(dict(f="bcrypt-core", k=k, v=ref2[29:], src="libxcrypt"))
            except UnicodeDecodeError:
                pass
            chk.count(("bcrypt-core", ln, cost))
            chk.action("bcrypt.core")
            n += 1
    # beyond 72 bytes only the first 72 count
    for ln in (73, 80, 144) if quick else (73, 74, 80, 100, 144, 255):
        pw = bytes(rnd.randrange(1, 256) for _ in range(ln))
        salt = "".join(rnd.choice(B64) for _ in range(21)) + "."
        k = f"cost=4 salt={salt} pw={pw[:72].hex()}"
        evs.append(dict(f="bcrypt-core", k=k, v=raw_bcrypt(pw, "2b", salt.encode(), 4).decode(), src="passlib/long"))
        evs.append(dict(f="bcrypt-core", k=k, v=cbcrypt.hashpw(pw[:72], f"$2b$04${salt}".encode()).decode()[29:], src="bcrypt-C"))
        chk.count(("bcrypt-core", ln, 4))
    wd = tlc.WORK / "C11_bcrypt_in"
    wd.mkdir(parents=True, exist_ok=True)
    (wd / "events.json").write_text(json.dumps(evs))
    r = tlc.run("Trace_Func", "INIT Init\nNEXT Next\nINVARIANT SingleValued\n", name="C11_bcrypt", workers=1, env={"TRACE_FILE": str(wd / "events.json")}, coverage=False, timeout=1800)
    chk.add_tlc("Trace_Func: bcrypt core single-valued across passlib's engine, the bcrypt C library and libxcrypt", r)
    if r.distinct != len(evs) + 1:
        raise tlc.MachineryError(f"bcrypt trace not fully consumed: {r.distinct} vs {len(evs)}")
    for b in r.emits:
        chk.violation(f"bcrypt-core:{b['src']}-vs-{b['firstsrc']}", f"bcrypt core: {b['src']} gives {b['v']}, {b['firstsrc']} gave {b['first']} for {b['k'][:80]}", b)
    chk.traces += len(evs)
