"""C02, formats evaluated completely by TLC (spec/algo/TlcFormats.tla over prim/Des.tla, prim/Md4.tla, Word32)."""
from __future__ import annotations

import hashlib
import json

from .. import tlc
from ..common import VERIF

H64 = "./0123456789ABCDEFGHIJKLMNOPQRSTUVWXYZabcdefghijklmnopqrstuvwxyz"
COVERED = ["hex_md4", "ldap_des_crypt", "ldap_bsdi_crypt", "django_des_crypt", "des_crypt", "bsdi_crypt", "bigcrypt", "crypt16", "lmhash", "oracle10", "nthash", "bsd_nthash", "msdcc", "msdcc2", "mysql323"]
VECTORS = [  # published test vectors: self-test of the transcription
    (dict(fmt="lmhash", pw=list(b"PASSWORD".ljust(14, b"\0"))), "e52cac67419a9a224a3b108f3fa6cb6d"),
    (dict(fmt="oracle10", pw=list("SCOTTTIGER".encode("utf-16-be")) + [0] * 4), "f894844c34402b67"),
    (dict(fmt="mysql323", pw=list(b"mypass")), "6f8c114b58f2ce9e"),
    (dict(fmt="nthash", pw=list("password".encode("utf-16-le"))), "8846f7eaee8fb117ad06bdd830b7586c"),
]


def run(chk, quick, rnd):
    from .c02 import content, near_miss, PLENS
    from passlib import registry
    import legacycrypt
    cases, meta = [], []

    def add(case, **m):
        cases.append(case)
        meta.append(m)
    for v, _ in VECTORS:
        add(v, kind="vector")
    plens = [0, 1, 7, 8, 9, 15, 16, 17, 24, 25, 55, 56, 64, 72, 127, 128, 129] if quick else PLENS
    xcheck = []
    for k, plen in enumerate(plens):
        kinds = ["ascii", "bytes", "utf8"]
        pw = content(kinds[k % 3], plen, rnd)
        s2 = rnd.choice(H64) + rnd.choice(H64)
        v12 = H64.index(s2[0]) + 64 * H64.index(s2[1])
        add(dict(fmt="des_crypt", pw=list(pw), salt=v12), kind="des_crypt", pw=pw, salt=s2)
        add(dict(fmt="bigcrypt", pw=list(pw), salt=v12), kind="bigcrypt", pw=pw, salt=s2)
        add(dict(fmt="crypt16", pw=list(pw), salt=v12), kind="crypt16", pw=pw, salt=s2)
        s4 = "".join(rnd.choice(H64) for _ in range(4))
        v24 = sum(H64.index(c) << (6 * i) for i, c in enumerate(s4))
        rounds = [1, 3, 5, 25, 101, 4095][k % 6]
        add(dict(fmt="bsdi_crypt", pw=list(pw), rounds=rounds, salt=v24), kind="bsdi_crypt", pw=pw, salt=s4, rounds=rounds)
        if plen <= 8 and kinds[k % 3] != "bytes":
            xcheck.append((len(cases) - 3, len(cases), pw, s2, s4, rounds))
        text = content(["ascii", "utf8"][k % 2], plen, rnd).decode()
        add(dict(fmt="nthash", pw=list(text.encode("utf-16-le"))), kind="nthash", pw=text)
        # user names: ASCII, and names whose lower-case form is not their case-folded form (sharp s, final sigma, ligatures, dotted I)
        user = [content("ascii", [1, 5, 20][k % 3], rnd).decode(), "Strau\xdf", "\u039f\u0394\u03a5\u03a3\u03a3\u0395\u038e\u03a3", "\ufb01ona", "Administrator"][k % 5]
        add(dict(fmt="msdcc", pw=list(text.encode("utf-16-le")), user=list(user.lower().encode("utf-16-le"))), kind="msdcc", pw=text, user=user)
        add(dict(fmt="mysql323", pw=list(pw)), kind="mysql323", pw=pw)
        add(dict(fmt="nthash", pw=list(pw)), kind="hex_md4", pw=pw)
        if plen <= 64:
            ascii_pw = content("ascii", plen, rnd).decode()
            data = (user + ascii_pw).upper().encode("utf-16-be")
            data += b"\0" * (-len(data) % 8)
            add(dict(fmt="oracle10", pw=list(data)), kind="oracle10", pw=ascii_pw, user=user)
        if plen <= 20:
            lm = content("ascii", plen, rnd).decode()
            add(dict(fmt="lmhash", pw=list(lm.upper().encode("cp437")[:14].ljust(14, b"\0"))), kind="lmhash", pw=lm)
    # mysql323 leaves out blanks and tabs - and nothing else: every other white-space-like byte is part of the password
    for pw in (b"a b\tc", b" lead", b"a\nb", b"a\rb", b"a\x0bb", b"a\x0cb", b"a\x1cb", b"a\x85b", b"a\xa0b", b"\n", b"ab\r\n"):
        add(dict(fmt="mysql323", pw=list(pw)), kind="mysql323", pw=pw)
    wd = tlc.WORK / "C02_tlcfmt_in"
    wd.mkdir(parents=True, exist_ok=True)
    (wd / "cases.json").write_text(json.dumps(cases))
    r = tlc.run("MC_TlcFormats", "INIT Init\nNEXT Next\n", name="C02_tlcfmt", workers=16, env={"TRACE_FILE": str(wd / "cases.json")}, coverage=False, timeout=3000)
    chk.add_tlc(f"MC_TlcFormats: {len(cases)} des/bsdi/bigcrypt/crypt16/lmhash/oracle10/nthash/msdcc/mysql323 computations by TLC", r)
    outs = {e["case"]: e["out"] for e in r.emits}
    if len(outs) != len(cases):
        raise tlc.MachineryError(f"MC_TlcFormats decided {len(outs)} of {len(cases)}")
    for i, (v, want) in enumerate(VECTORS, 1):
        if bytes(outs[i]).hex() != want:
            raise tlc.MachineryError(f"TlcFormats.tla fails the published vector for {v['fmt']}")
    # transcription against libxcrypt (short text passwords)
    nx = 0
    for i_des, i_bsdi, pw, s2, s4, rounds in xcheck:
        try:
            t = pw.decode()
        except UnicodeDecodeError:
            continue
        ref = legacycrypt.crypt(t, s2)
        if ref and s2 + "".join(H64[d] for d in outs[i_des]) != ref:
            raise tlc.MachineryError(f"TlcFormats.tla des_crypt disagrees with libxcrypt for {t!r} {s2}")
        nx += 1
    chk.extra["tlc_formats_validated_against_libxcrypt"] = nx
    H = {n: registry.get_crypt_handler(n) for n in COVERED}
    H["hex_md4"] = registry.get_crypt_handler("hex_md4")
    restore = []
    for n in ("des_crypt", "bsdi_crypt", "bigcrypt", "crypt16"):
        h = H[n]
        if hasattr(h, "set_backend") and "builtin" in getattr(h, "backends", ()):
            old = h.get_backend()
            h.set_backend("builtin")
            restore.append((h, old))
    for i, (c, m) in enumerate(zip(cases, meta), 1):
        kind = m["kind"]
        if kind == "vector":
            continue
        out = outs[i]
        pw = m["pw"]
        ctx = {}
        sig = None
        try:
            if kind in ("des_crypt", "bigcrypt", "crypt16"):
                want = m["salt"] + "".join(H64[d] for d in out)
                got = H[kind].using(salt=m["salt"]).hash(pw)
                sig = 8 if kind == "des_crypt" else 16 if kind == "crypt16" else 128
                if kind == "des_crypt":
                    for wn, pre in (("ldap_des_crypt", "{CRYPT}"), ("django_des_crypt", "crypt$" + m["salt"] + "$")):   # (Django writes the salt twice)
                        wh = registry.get_crypt_handler(wn)
                        g2 = wh.using(salt=m["salt"]).hash(pw)
                        if g2 != pre + want or wh.verify(pw, pre + want) is not True or (wn == "django_des_crypt" and wh.verify(pw, "crypt$$" + want) is not True):
                            chk.violation(f"{wn}:hash-differs", f"{wn} gives {g2}, expected {pre + want}", {"password": pw.hex()})
            elif kind == "bsdi_crypt":
                enc = "".join(H64[(m["rounds"] >> (6 * j)) & 63] for j in range(4))
                want = "_" + enc + m["salt"] + "".join(H64[d] for d in out)
                got = H[kind](salt=m["salt"], rounds=m["rounds"], use_defaults=True)
                got.checksum = got._calc_checksum(pw)
                got = got.to_string()
                wh = registry.get_crypt_handler("ldap_bsdi_crypt")
                if wh.verify(pw, "{CRYPT}" + want) is not True:
                    chk.violation("ldap_bsdi_crypt:verify", f"ldap_bsdi_crypt does not verify {{CRYPT}}{want}", {"password": pw.hex()})
            elif kind == "hex_md4":
                want = bytes(out).hex()
                got = registry.get_crypt_handler("hex_md4").hash(pw)
                H["hex_md4"] = registry.get_crypt_handler("hex_md4")
            elif kind == "nthash":
                want = bytes(out).hex()
                got = H["nthash"].hash(pw)
                g2 = H["bsd_nthash"].hash(pw)
                if g2 != "$3$$" + want:
                    chk.violation("bsd_nthash:hash-differs", f"bsd_nthash gives {g2}, MD4(UTF-16-LE) gives $3$${want}", {"password": pw})
            elif kind == "msdcc":
                want = bytes(out).hex()
                got = H["msdcc"].hash(pw, user=m["user"])
                ctx = dict(user=m["user"])
                w2 = hashlib.pbkdf2_hmac("sha1", bytes(out), m["user"].lower().encode("utf-16-le"), 10240, 16).hex()
                g2 = H["msdcc2"].hash(pw, user=m["user"])
                if g2 != w2 or not H["msdcc2"].verify(pw, w2, user=m["user"]):
                    chk.violation("msdcc2:hash-differs", f"msdcc2 gives {g2}, PBKDF2-SHA1 over the DCC1 digest gives {w2}", {"password": pw, "user": m["user"]})
            elif kind == "mysql323":
                want = bytes(out).hex()
                got = H["mysql323"].hash(pw)
            elif kind == "oracle10":
                want = bytes(out).hex().upper()
                got = H["oracle10"].hash(pw, user=m["user"])
                ctx = dict(user=m["user"])
            else:
                want = bytes(out).hex()
                got = H["lmhash"].hash(pw)
                sig = 14
        except Exception as ex:
            chk.violation(f"{kind}:hash:{type(ex).__name__}", f"{kind}: hash() raised {type(ex).__name__}: {ex}", {"password": repr(pw)[:200]})
            continue
        n = len(pw)
        chk.count((kind, min(n, 130), m.get("rounds")))
        chk.action(kind)
        if got != want:
            chk.violation(f"{kind}:hash-differs", f"{kind}: hash() = {got}, published algorithm (evaluated by TLC) gives {want}",
                          {"password": pw.hex() if isinstance(pw, bytes) else pw, "library": got, "reference": want, **{k: v for k, v in m.items() if k in ("salt", "rounds", "user")}})
            continue
        # verify the reference, reject a near miss
        if isinstance(pw, bytes):
            nm = near_miss(pw, sig)
            if kind == "mysql323" and nm.replace(b" ", b"").replace(b"\t", b"") == pw.replace(b" ", b"").replace(b"\t", b""):
                nm = pw + b"x"
        else:
            nm = (pw[:-1] + ("y" if pw[-1:] != "y" else "z")) if pw else "x"
            if kind == "lmhash":
                nm = (pw[: min(len(pw), 14) - 1] + ("1" if pw[min(len(pw), 14) - 1: min(len(pw), 14)] != "1" else "2") + pw[min(len(pw), 14):]) if pw else "x"
        try:
            ok = H[kind].verify(pw, want, **ctx)
            bad = H[kind].verify(nm, want, **ctx)
        except Exception as ex:
            chk.violation(f"{kind}:verify:{type(ex).__name__}", f"{kind}: verify raised {type(ex).__name__}: {ex}", {"reference": want})
            continue
        chk.evaluations += 2
        if ok is not True or bad is not False:
            chk.violation(f"{kind}:verify:{ok}/{bad}", f"{kind}: reference {want} verifies right/near-miss as {ok}/{bad}", {"password": repr(pw)[:200], "near_miss": repr(nm)[:200]})
    chk.traces += len(cases)
    for h, old in restore:
        try:
            h.set_backend(old)
        except Exception:
            pass
