"""Extension beyond the listed properties: passlib.crypto.digest.lookup_hash / norm_hash_name against spec/HashNames.tla
(run as part of the C11 check: HMAC, PBKDF1 and PBKDF2 are reached through these names; evidence lists it under `extensions`).
S->I: every Lookup transition TLC explores over the generated spellings is executed once (names), and simulated histories of
lookups with and without `required`, in several spellings, and clear_cache() are replayed with the record identities compared."""
from __future__ import annotations

import hashlib
import itertools
import logging
import warnings

from .. import tlc

SEPS = ["", "-", "_", " ", "/"]


def spellings():
    out = []
    for fam in ("sha", "md", "ripemd", "whirlpool", "foo", "sm", "blake"):
        for rev in ("", "1", "2", "3", "4", "5"):
            for size in ("", "160", "224", "256", "384", "512", "1024"):
                if len(size) == 4 and not rev:
                    continue
                for s1 in (SEPS if rev else [""]):
                    for s2 in (SEPS if size else [""]):
                        out.append(dict(fam=fam, rev=rev, size=size, s1=s1, s2=s2, letters=True))
    for fam, sizes in (("blake2b", [""]), ("blake2s", [""]), ("sha512", ["", "224", "256"]), ("foo2bar", [""]), ("blake-2b", [""]), ("blake-2s", [""])):
        for size in sizes:
            for s2 in (SEPS if size else [""]):
                out.append(dict(fam=fam, rev="", size=size, s1="", s2=s2, letters=False))
    return out


def render(sp, rnd):
    fam = sp["fam"]
    if fam in ("blake-2b", "blake-2s"):       # the stand-in IANA spelling of an opaque name: its own separator may be written any way too
        fam = fam.replace("-", rnd.choice(["-", "_", " ", "/"]))
    core = fam + sp["s1"] + sp["rev"] + sp["s2"] + sp["size"]
    deco = rnd.randrange(6)
    if deco == 1:
        core = "scram-" + core
    elif deco == 2:
        core = "SCRAM_" + core + "-PLUS"
    elif deco == 3:
        core = "  " + core + "\t"
    core = rnd.choice([core, core.upper(), core.title(), core])
    return core if rnd.random() < .85 else core.encode()


def tla_sp(sp):
    return ('[fam |-> "%s", rev |-> "%s", size |-> "%s", s1 |-> "%s", s2 |-> "%s", letters |-> %s]'
            % (sp["fam"].replace("blake-2", "blake-2"), sp["rev"], sp["size"], sp["s1"], sp["s2"], "TRUE" if sp["letters"] else "FALSE"))


def run(chk, quick, rnd):
    warnings.simplefilter("ignore")
    logging.disable(logging.WARNING)
    try:
        from passlib.crypto.digest import lookup_hash
        from passlib import exc
    except Exception as ex:
        chk.uncovered.append(f"crypto.digest.lookup_hash: {type(ex).__name__}: {ex}"[:120])
        return
    allsp = spellings()
    avail = set(hashlib.algorithms_available) | {"md4"}
    avail = {a for a in avail if a.replace("_", "").replace("-", "").isalnum()}
    R = tlc.Raw
    # 1. names: every spelling once (required or not)
    consts = dict(Spellings=R("{" + ", ".join(tla_sp(s) for s in allsp) + "}"), Available=avail, MaxOps=0, DoEmit=False, Sticky=True)
    r = tlc.run_instance("HashNames", consts, name="C11_hashnames_names", invariants=["EmitNames"], workers=1, coverage=False, timeout=1200)
    chk.add_tlc(f"HashNames, part Names: <<hashlib name, IANA name>> of {len(allsp)} token spellings", r)
    key = lambda e: (e["sp"]["fam"], e["sp"]["rev"], e["sp"]["size"], e["sp"]["s1"], e["sp"]["s2"])
    byk = {key(dict(sp=s)): s for s in allsp}
    n_names = 0
    if len([e for e in r.emits if e.get("op") == "name"]) != len(allsp):
        raise tlc.MachineryError(f"HashNames: TLC named {len(r.emits)} of {len(allsp)} spellings")
    for e in r.emits:
        if e.get("op") != "name":
            continue
        sp = byk[key(e)]
        for required in (True, False):
            text = render(sp, rnd)
            lookup_hash.clear_cache()
            try:
                info = lookup_hash(text, required=required)
                got = (info.name, info.iana_name)
            except exc.UnknownHashError:
                info, got = None, "UnknownHashError"
            except Exception as ex:
                info, got = None, f"{type(ex).__name__}: {ex}"[:100]
            want = "UnknownHashError" if (e["refused"] and required) else (e["name"], e["iana"])
            n_names += 1
            chk.evaluations += 1
            chk.count(("hashname", e["name"], sp["s1"], sp["s2"], required, e["refused"]))
            chk.action("hashnames.lookup")
            if got != want:
                chk.violation(f"hashnames:name:{e['name']}", f"lookup_hash({text!r}, required={required}) gave {got}, HashNames.tla says {want}",
                              {"spelling": sp, "text": repr(text), "required": required, "got": got, "expected": want})
            elif info is not None and not e["refused"] and hasattr(hashlib, e["name"]):
                ref = getattr(hashlib, e["name"])()
                shape = (info.digest_size, info.block_size, info.supported)
                if shape != (ref.digest_size, ref.block_size, True) and not e["name"].startswith("shake"):
                    chk.violation(f"hashnames:shape:{e['name']}", f"lookup_hash({text!r}) reports {shape}, hashlib.{e['name']} has ({ref.digest_size}, {ref.block_size})",
                                  {"text": repr(text), "got": shape})
    # 2. histories: record identity across spellings, refusals, dummies and clear_cache()
    hot = [s for s in allsp if (s["fam"], s["rev"], s["size"]) in {("sha", "", "256"), ("sha", "2", "256"), ("sha", "3", "256"), ("md", "5", ""), ("md", "2", ""),
                                                                  ("foo", "", ""), ("foo", "1", ""), ("ripemd", "", ""), ("ripemd", "", "160"), ("sha512", "", "256"),
                                                                  ("blake2b", "", ""), ("blake-2b", "", ""), ("sha", "1", "")}]
    consts = dict(Spellings=R("{" + ", ".join(tla_sp(s) for s in hot) + "}"), Available=avail, MaxOps=3, DoEmit=False, Sticky=True)
    small = [s for s in hot if (s["fam"], s["rev"], s["size"]) in {("sha", "", "256"), ("foo", "", ""), ("md", "2", "")} and s["s2"] in ("", "-")]
    r = tlc.run_instance("HashNames", dict(consts, Spellings=R("{" + ", ".join(tla_sp(s) for s in small) + "}"), MaxOps=4), name="C11_hashnames_mc",
                         invariants=["InvOnePerFunction", "InvDummy", "InvNamesAgree"], properties=["SameRecord", "RefusalForgets"], coverage=False, timeout=1200)
    chk.add_tlc("HashNames exhaustive (known / unknown / unavailable function, 4 operations): one record per function, refusals leave nothing", r)
    nb = 400 if quick else 6000
    r = tlc.run_instance("HashNames", dict(consts, MaxOps=10, DoEmit=True), name="C11_hashnames_sim", action_constraint="Emit", next="SimNext",
                         simulate=f"num={nb}", depth=10, seed=chk.seed + 23, workers=1, coverage=False, timeout=1200)
    chk.add_tlc(f"HashNames simulation ({nb} histories of 10 operations)", r)
    behs, cur = [], None
    for e in r.emits:
        if e["n"] == 0:
            cur = []
            behs.append(cur)
        cur.append(e)
    byk = {key(dict(sp=s)): s for s in hot}
    variety = set()
    for b in behs:
        lookup_hash.clear_cache()
        ids, rev_ids, keep, hist = {}, {}, [], []
        for e in b:
            if e["op"] == "clear":
                lookup_hash.clear_cache()
                hist.append("clear")
                continue
            sp = byk[key(e)]
            text = render(sp, rnd)
            try:
                info = lookup_hash(text, required=e["required"])
                keep.append(info)
                got = id(info)
            except exc.UnknownHashError:
                info, got = None, -1
            except Exception as ex:
                info, got = None, f"{type(ex).__name__}: {ex}"[:100]
            hist.append({"text": repr(text), "required": e["required"], "spec_record": e["res"], "got": "refused" if got == -1 else ("record" if info is not None else got)})
            variety.add((e["name"], e["required"], e["res"] == -1))
            chk.evaluations += 1
            chk.action("hashnames.history")
            prob = None
            if e["res"] == -1:
                if got != -1:
                    prob = f"returned {'a record' if info is not None else got} where the specification refuses (UnknownHashError)"
            elif info is None:
                prob = f"{'raised UnknownHashError' if got == -1 else got} where the specification returns record #{e['res']}"
            else:
                if ids.setdefault(e["res"], got) != got or rev_ids.setdefault(got, e["res"]) != e["res"]:
                    prob = f"record identity differs: the specification returns record #{e['res']}, the library " + \
                           ("a different object than before for it" if ids[e["res"]] != got else f"the object it returned as record #{rev_ids[got]}")
                elif (info.name, info.iana_name) != (e["name"], e["iana"]):
                    prob = f"names {(info.name, info.iana_name)}, specification {(e['name'], e['iana'])}"
                elif e["name"] in avail and hasattr(hashlib, e["name"]) and rnd.random() < .3:
                    # the constructor is another way to ask for the same function
                    try:
                        if lookup_hash(getattr(hashlib, e["name"])) is not info:
                            prob = f"lookup_hash(hashlib.{e['name']}) is another record than lookup_hash({text!r})"
                    except Exception as ex:
                        prob = f"lookup_hash(hashlib.{e['name']}) raised {type(ex).__name__}: {ex}"[:120]
            if prob:
                chk.violation(f"hashnames:history:{e['name']}:{'refuse' if e['res'] == -1 else 'record'}", f"lookup_hash({text!r}, required={e['required']}): {prob}",
                              {"history": hist, "problem": prob})
                break
    chk.traces += len(behs)
    lookup_hash.clear_cache()
    if len(variety) < 12:
        raise tlc.MachineryError(f"vacuity: HashNames histories exercised only {len(variety)} (function, required, refused) classes")
    chk.extra.setdefault("extensions", []).append(f"HashNames.tla: lookup_hash / norm_hash_name names and record cache ({n_names} spellings, {len(behs)} histories; beyond the listed properties)")
