"""C14 - token matching honours the window and never accepts a code twice.

spec/Totp.tla (MatchResult) + MC_TotpMatch.tla (histories with feedback) + Trace_TotpMatch.tla.
 1. TLC: exhaustive over periods/windows/skews/times/last counters/collision patterns,
    histories of bounded length: accepted counters strictly increase; classification.
 2. S->I: transitions explored by TLC (exhaustive small instance + random behaviours) are executed
    on the real TOTP.match through the refinement map below (offset refinement: real counter =
    T0 + model counter, real seconds = K * model seconds + jitter, real period = K * p).
    Code collisions prescribed by the model are realised with real keys/counters found by an
    stdlib-hmac search (data/totp_collisions.json, re-verified here).
 3. I->S: realistic sequences of match() calls on real objects are recorded and re-computed by
    Trace_TotpMatch (code table computed with stdlib hmac).
"""
from __future__ import annotations

import datetime as dt
import hashlib
import hmac
import json
import random
import struct

from .. import tlc
from ..common import VERIF

NONE_TOK, SHORT, LONG, NONDIGIT, EMPTY = 1000, 1001, 1002, 1003, 1004
INVS = ["InvStrictlyIncreasing", "InvLastIsNewest"]


def hotp_ref(key: bytes, alg: str, counter: int, digits: int) -> str:
    """Independent reference (stdlib hmac, RFC 4226) - used for the code table only."""
    d = hmac.new(key, struct.pack(">Q", counter), getattr(hashlib, alg)).digest()
    o = d[-1] & 15
    v = int.from_bytes(d[o:o + 4], "big") & 0x7FFFFFFF
    return str(v % 10 ** digits).zfill(digits) if digits < 10 else str(v).zfill(10)


class Gamma:
    """Refinement map from model transitions to real match() calls."""

    def __init__(self, cmin, cmax):
        self.cmin, self.cmax = cmin, cmax
        self.coll = json.loads((VERIF / "data" / "totp_collisions.json").read_text())
        self.cache = {}

    def setting(self, p, coll, base, K, variant):
        """Pick key / alg / T0 realising the model's collision pattern; returns dict or None."""
        k = (p, tuple(coll), base, K, variant)
        if k in self.cache:
            return self.cache[k]
        algs = ["sha1", "sha256", "sha512"]
        alg = algs[variant % 3]
        key = bytes.fromhex(self.coll[alg]["key_hex"])
        P = p * K
        if base == "zero":
            if tuple(coll) != (0, 0):
                self.cache[k] = None
                return None
            T0 = 0
        elif tuple(coll) == (0, 0):
            # far from zero: straddle 2^31 or sit just below 2^40 seconds
            # far from zero: straddle 2^31, sit just below 2^40 seconds, or far beyond 2^53 (integer arithmetic must stay exact)
            T0 = [(2 ** 31) // P - 2, (2 ** 40) // P - self.cmax - 2, 47320757, (2 ** 62) // P - self.cmax - 2,
                  (2 ** 31) // P - 2, 2 ** 56 + 12345][variant % 6]
        else:
            a, b = coll
            cands = self.coll[alg]["pairs"].get(str(b - a), [])
            if not cands:
                self.cache[k] = None
                return None
            T0 = cands[variant % len(cands)] - a
        codes = {c: hotp_ref(key, alg, T0 + c, 6) for c in range(self.cmin - 1, self.cmax + 2) if T0 + c >= 0}
        # check the real code function restricted to the model's counters has exactly the prescribed pattern
        inv = {}
        for c, tokn in sorted(codes.items()):
            inv.setdefault(tokn, []).append(c)
        groups = sorted(tuple(v) for v in inv.values() if len(v) > 1)
        want = [] if tuple(coll) == (0, 0) else [tuple(coll)]
        if groups != want:
            self.cache[k] = None      # accidental extra collision: pattern not realised, skip
            return None
        none_tok = next(t for t in (f"{x:06d}" for x in range(1000, 2000)) if t not in inv)
        s = dict(key=key, alg=alg, T0=T0, P=P, K=K, codes=codes, none_tok=none_tok)
        self.cache[k] = s
        return s


def lookalikes(token):
    """texts that are NOT a code (a sign, a digit separator, a radix prefix, an exponent) although a lenient number parser
    would read the value of `token` from them; same number of characters where possible"""
    out = ["+" + token, token[:-1] + "_", token[:3] + "_" + token[3:], token[:2] + "." + token[3:], "0x" + token[2:], token[:-2] + "e0"]
    if token[0] == "0":
        out += ["+" + token[1:]] * 3
    for i in range(1, len(token) - 1):
        if token[i] == "0":
            out += [token[:i] + "_" + token[i + 1:]] * 2
    return out


def real_token(s, tok, form, near=None, rnd=None):
    if tok == NONDIGIT and near is not None and rnd.random() < .6:
        return rnd.choice(lookalikes(near))
    if tok == NONE_TOK:
        t = s["none_tok"]
    elif tok == SHORT:
        return "12345"
    elif tok == LONG:
        return "1234567"
    elif tok == NONDIGIT:
        return "12a456"
    elif tok == EMPTY:
        return ""
    elif s["T0"] + tok < 0:
        t = s["none_tok"]      # code of a counter before the epoch: never in reach (search is clamped at 0)
    else:
        t = s["codes"][tok]
    if form == "int":
        return int(t)
    if form == "bytes":
        return t.encode()
    if form == "spaced":
        return t[:3] + " " + t[3:]
    if form == "dashed":
        return " " + t[:2] + "-" + t[2:4] + "-" + t[4:] + "\n"
    return t


def real_time(secs, form):
    if form == "float" and abs(secs) < 2 ** 50:      # (a float cannot carry larger times exactly: those are given as integers)
        return float(secs) + 0.25 if secs >= 0 else float(secs)
    if form == "naive" and 0 <= secs < 2 ** 37:
        return dt.datetime(1970, 1, 1) + dt.timedelta(seconds=secs, microseconds=300000)
    if form == "aware" and 0 <= secs < 2 ** 37:
        tz = dt.timezone(dt.timedelta(hours=-7, minutes=30))
        return dt.datetime.fromtimestamp(secs, tz=tz)
    return secs


def classify(fn):
    from passlib import exc
    try:
        m = fn()
    except exc.MalformedTokenError:
        return ("Malformed",)
    except exc.UsedTokenError as e:
        return ("Used", e.expire_time)
    except exc.InvalidTokenError:
        return ("Invalid",)
    except Exception as e:
        return ("Exception", type(e).__name__, str(e)[:80])
    return ("Accept", m.counter, m.skipped, m.expire_time, m.cache_time, m.cache_seconds, m.time, tuple(m))


def replay_transition(chk, G: Gamma, ev, rnd):
    from passlib.totp import TOTP
    K = rnd.choice([1, 10, 30])
    variant = rnd.randrange(6)
    s = G.setting(ev["p"], ev["coll"], ev["base"], K, variant)
    if s is None:
        chk.extra["unrealised_patterns"] = chk.extra.get("unrealised_patterns", 0) + 1
        return
    T0, P = s["T0"], s["P"]
    jitter = rnd.randrange(K)
    t_real = (T0 * ev["p"] + ev["t"]) * K + jitter
    w_real = ev["w"] * K
    skew_real = ev["skew"] * K
    if ev["last"] == -1000:
        last_real = None if (T0 > 0 or rnd.random() < .7) else -1
    else:
        last_real = T0 + ev["last"]
        if last_real < 0:
            return
    tform = rnd.choice(["str", "str", "int", "bytes", "spaced", "dashed"])
    tmform = rnd.choice(["int", "int", "float", "naive", "aware"])
    token = real_token(s, ev["tok"], tform, s["codes"].get((ev["t"] + ev["skew"]) // ev["p"]), rnd)
    totp = TOTP(key=s["key"], format="raw", alg=s["alg"], digits=6, period=P)
    tm = real_time(t_real, tmform)
    if rnd.random() < .3:
        # the one-call front end: TOTP.verify(token, serialised source, ...) must decide exactly as match() on the loaded object
        src = rnd.choice([totp.to_json, totp.to_dict, lambda: totp])()
        got = classify(lambda: TOTP.verify(token, src, time=tm, window=w_real, skew=skew_real, last_counter=last_real))
    else:
        got = classify(lambda: totp.match(token, time=tm, window=w_real, skew=skew_real, last_counter=last_real))
    r = ev["res"]
    if r[0] == "Accept":
        c = T0 + r[1]
        exp = ("Accept", c, r[2], (c + 1) * P, (c + 1) * P + w_real, P + w_real, t_real, (c, t_real))
    elif r[0] == "Used":
        exp = ("Used", (last_real + 1) * P)
    else:
        exp = (r[0],)
    chk.count((ev["p"], tuple(ev["coll"]), ev["base"], ev["last"], ev["tok"] if ev["tok"] >= 1000 else ev["tok"] - ev["t"] // ev["p"],
               ev["w"], ev["skew"], r[0]))
    chk.action("Attempt->" + r[0])
    call = dict(key=s["key"].hex(), alg=s["alg"], period=P, token=repr(token), time=repr(tm), window=w_real, skew=skew_real,
                last_counter=last_real)
    if len(chk.samples) < 4 and r[0] in ("Used", "Accept"):
        chk.sample({"model_transition": ev, "real_call": call, "result": list(map(str, got))})
    if got != exp:
        chk.violation(f"match:{r[0]}->{got[0]}", f"TOTP.match returned {got[0]} where Totp.tla says {r[0]}",
                      {"model_transition": ev, "real_call": call, "expected": exp, "got": got})


def consts(tier, emit, sim=False):
    R = tlc.Raw
    if sim:
        return dict(Periods={1, 2, 3, 5}, Windows=set(range(0, 8)), Skews=set(range(-4, 5)), Times=set(range(-2, 21)),
                    Lasts=set(range(-2, 9)), CMin=-14, CMax=32,
                    CollPairs=R("{<<0,0>>} \\cup {<<a, b>> \\in (0..7) \\X (1..8) : a < b /\\ b - a <= 8}"),
                    Bases={"zero", "far"}, MaxAttempts=6, DoEmit=emit)
    if tier == "quick":
        return dict(Periods={1, 2, 3}, Windows={0, 1, 2, 3}, Skews={-2, -1, 0, 1}, Times=set(range(0, 7)),
                    Lasts={-1, 0, 1, 2, 3}, CMin=-5, CMax=10,
                    CollPairs=R("{<<0,0>>,<<1,2>>,<<1,3>>,<<2,5>>,<<0,4>>}"),
                    Bases={"zero", "far"}, MaxAttempts=2, DoEmit=emit)
    return dict(Periods={1, 2, 3, 5}, Windows={0, 1, 2, 3, 4, 5}, Skews={-3, -2, -1, 0, 1, 2}, Times=set(range(-1, 10)),
                Lasts={-1, 0, 1, 2, 3, 4}, CMin=-9, CMax=17,
                CollPairs=R("{<<0,0>>,<<1,2>>,<<1,3>>,<<2,5>>,<<0,4>>,<<3,4>>,<<0,1>>}"),
                Bases={"zero", "far"}, MaxAttempts=2, DoEmit=emit)


def record_sequences(rnd, ntraces, nsteps):
    """I->S: realistic match() sequences on real TOTP objects; returns list of traces."""
    from passlib.totp import TOTP
    traces = []
    for ti in range(ntraces):
        alg = rnd.choice(["sha1", "sha256", "sha512"])
        key = bytes(rnd.randrange(256) for _ in range(rnd.choice([10, 16, 20, 32, 64])))
        P = rnd.choice([30, 30, 60, 17, 1, 300])
        digits = rnd.choice([6, 6, 7, 8])
        T0 = rnd.choice([0, 3, rnd.randrange(10 ** 6, 10 ** 8), (2 ** 31) // P - 5, (2 ** 40) // P - 500, (2 ** 62) // P - 500, 2 ** 56 + 54321])
        span = 120          # counters T0-span .. T0+span get a code
        base = -T0 if T0 < span else -span - 1
        codes = {c: int(hotp_ref(key, alg, T0 + c, digits)) for c in range(max(-span, -T0), span + 1)}
        totp = TOTP(key=key, format="raw", alg=alg, digits=digits, period=P)
        last = None
        now = rnd.randrange(0, 40) * P // 2
        evs = []
        used = []
        rekey_at = rnd.choice([None, None, 3, 6])
        for k in range(nsteps):
            if k == rekey_at and evs:
                # history: the object gets another key after it has matched codes; from then on only the new key's codes count
                cmin = min(codes)
                traces.append({"id": len(traces), "p": P, "digits": digits, "base": base, "cmin": cmin, "codes": [codes[c] for c in range(cmin, span + 1)],
                               "events": evs, "_meta": dict(key=key.hex(), alg=alg, T0=T0)})
                key = bytes(rnd.randrange(256) for _ in range(len(key)))
                totp.key = key
                codes = {c: int(hotp_ref(key, alg, T0 + c, digits)) for c in range(max(-span, -T0), span + 1)}
                evs, used, last = [], [], None
            now += rnd.choice([0, 1, P // 2, P, 2 * P + 1, 5 * P])
            if now // P > span - 30:
                break
            w = rnd.choice([0, 0, P // 2, P, P, 2 * P + 3, 10 * P])
            skew = rnd.choice([0, 0, 0, -P, P // 3, -2 * P - 1, 3 * P])
            lo_c = max(min((now + skew - w) // P - 1, span - 1), max(-span, -T0))
            hi_c = min((now + skew + w) // P + 1, span)
            kind = rnd.random()
            if kind < .55 and lo_c <= hi_c:
                c = rnd.randint(lo_c, hi_c)
                tokv = codes[c]
            elif kind < .75 and used:
                tokv = rnd.choice(used)
            elif kind < .9:
                tokv = rnd.randrange(10 ** digits)
            else:
                tokv = None
            if tokv is None:
                token = rnd.choice(["", "12", "1" * (digits + 1), "12a45" + "6" * (digits - 5), "-" * 3])
                txt = [ord(ch) for ch in token]
            else:
                token = str(tokv).zfill(digits)
                txt = [ord(ch) for ch in token]
                if rnd.random() < .3:
                    token = token[:3] + rnd.choice([" ", "-"]) + token[3:]
                    txt = [ord(ch) for ch in token]
                elif rnd.random() < .25:
                    token = rnd.choice(lookalikes(token))          # not a code, whatever value a number parser reads from it
                    txt = [ord(ch) for ch in token]
                elif rnd.random() < .3:
                    token = int(token)
            t_real = T0 * P + now
            last_real = None if last is None else T0 + last
            if rnd.random() < .3:
                src = rnd.choice([totp.to_json, totp.to_dict])()
                got = classify(lambda: type(totp).verify(token, src, time=t_real, window=w, skew=skew, last_counter=last_real))
            else:
                got = classify(lambda: totp.match(token, time=t_real, window=w, skew=skew, last_counter=last_real))
            if got[0] == "Accept":
                res = ["Accept", got[1] - T0, got[2], got[3] - T0 * P, got[4] - T0 * P, got[5]]
                if rnd.random() < .85:            # the application feeds the counter back
                    last = got[1] - T0
                    used.append(tokv)
            elif got[0] == "Used":
                res = ["Used", got[1] - T0 * P]
            else:
                res = [got[0]]
            evs.append({"tok": txt, "t": now, "w": w, "skew": skew,
                        "last": base - 1 if last_real is None else last_real - T0, "res": res})
        cmin = min(codes)
        traces.append({"id": len(traces), "p": P, "digits": digits, "base": base, "cmin": cmin,
                       "codes": [codes[c] for c in range(cmin, span + 1)], "events": evs,
                       "_meta": dict(key=key.hex(), alg=alg, T0=T0)})
    return traces


def run(chk):
    quick = chk.tier == "quick"
    rnd = random.Random(chk.seed)
    chk.rule = ("S->I: each Attempt transition explored by TLC is executed as one real TOTP.match call through the offset "
                "refinement; I->S: recorded realistic match() sequences re-computed by Trace_TotpMatch. non-trivial = distinct "
                "(period, collision pattern, base, last, token offset, window, skew, result class) / recorded events not 'Invalid'")
    # 1. exhaustive model check
    r = tlc.run_instance("MC_TotpMatch", consts(chk.tier, False), name="C14_mc", invariants=INVS,
                         properties=["AcceptAdvances"], action_constraint="Emit", view="View", timeout=3000)
    chk.add_tlc("MC_TotpMatch exhaustive", r)
    # 2. emitting runs: small exhaustive slice + random behaviours over the wide constants
    G = None
    emits = []
    c = consts("quick", True)
    c.update(Periods={2}, Windows={0, 1, 3}, Skews={-1, 0, 1}, Times={0, 1, 3, 4, 6}, MaxAttempts=1)
    r = tlc.run_instance("MC_TotpMatch", c, name="C14_emit_ex", invariants=INVS, action_constraint="Emit", view="View", workers=1, coverage=False)
    chk.add_tlc("MC_TotpMatch emitting slice (p=2, 1 attempt, all lasts/tokens/collision patterns)", r)
    emits += [("slice", e) for e in r.emits]
    cs = consts(chk.tier, True, sim=True)
    nsim = 1500 if quick else 25000
    r = tlc.run_instance("MC_TotpMatch", cs, name="C14_emit_sim", invariants=INVS, action_constraint="Emit", view="View", workers=1,
                         simulate=f"num={nsim}", depth=6, next="SimNext", seed=chk.seed + 1, coverage=False, timeout=3000)
    chk.add_tlc(f"MC_TotpMatch simulation ({nsim} behaviours of 6 attempts)", r)
    emits += [("sim", e) for e in r.emits]
    G = Gamma(cs["CMin"], cs["CMax"])
    classes = {}
    for src, ev in emits:
        replay_transition(chk, G, ev, rnd)
        classes[ev["res"][0]] = classes.get(ev["res"][0], 0) + 1
    chk.traces += len(emits)
    for need in ("Accept", "Used", "Invalid", "Malformed"):
        if not classes.get(need):
            raise tlc.MachineryError(f"vacuity: no {need} result among the emitted transitions")
    chk.extra["emitted_result_classes"] = classes
    # 3. I->S
    traces = record_sequences(rnd, 40 if quick else 600, 14)
    wd = tlc.WORK / "C14_trace_in"
    wd.mkdir(parents=True, exist_ok=True)
    tf = wd / "traces.json"
    tf.write_text(json.dumps([{k: v for k, v in t.items() if k != "_meta"} for t in traces]))
    r = tlc.run("Trace_TotpMatch", "INIT Init\nNEXT Next\nPOSTCONDITION Done\n", name="C14_trace", workers=1,
                env={"TRACE_FILE": str(tf)}, coverage=False, timeout=3000)
    chk.add_tlc("Trace_TotpMatch over recorded sequences", r)
    chk.traces += len(traces)
    nev = 0
    for t in traces:
        for e in t["events"]:
            nev += 1
            chk.count(("trace", t["p"], e["res"][0], e["w"] // max(t["p"], 1), e["skew"] // max(t["p"], 1), e["last"] >= t["base"])
                      if e["res"][0] != "Invalid" else None)
            chk.action("trace." + e["res"][0])
    chk.sample({"recorded_trace_head": {k: (v[:3] if k in ("events", "codes") else v) for k, v in traces[0].items()}})
    for b in r.emits:
        t = traces[b["tid"] - 1]
        e = t["events"][b["ev"] - 1]
        chk.violation(f"trace:{b['clause']}", "recorded TOTP.match call is not a step of Totp.tla",
                      {"trace_meta": t["_meta"], "period": t["p"], "event": e, "spec_expected": b["expected"], "clause": b["clause"]})
    chk.extra["recorded_events"] = nev
    chk.assumptions += ["stdlib hmac/hashlib provide the code table (HOTP reference) - the HMAC itself is C13's subject",
                        "the application feeds back exactly the counter returned by an accepted match (as the property states)"]


def replay(chk, path):
    v = json.loads(open(path).read())
    d = v["detail"]
    if "real_call" in d:
        from passlib.totp import TOTP
        c = d["real_call"]
        totp = TOTP(key=bytes.fromhex(c["key"]), format="raw", alg=c["alg"], digits=6, period=c["period"])
        got = classify(lambda: totp.match(eval(c["token"]), time=eval(c["time"], {"datetime": dt}), window=c["window"],
                                          skew=c["skew"], last_counter=c["last_counter"]))
        print("call:", c)
        print("expected:", d["expected"], "\ngot:     ", list(got))
        return 0 if json.loads(json.dumps(got)) == d["expected"] else 1
    print(json.dumps(d, indent=1))
    return 1
