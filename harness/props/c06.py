"""C06 - generated salts, keys and passwords are uniform over their declared space.

spec/Rand.tla + MC_Rand.tla + Trace_Rand.tla.
 1. TLC: the radix-generic extraction formulas are bijections (balanced) with pairwise independent positions at
    reduced radix; the shortest-length rule carries the requested entropy; bcrypt's salt repair stays balanced.
 2. I->S: passlib's shared random source (and `secrets.choice` for libpass) is replaced by a scripted source that records
    every request and returns chosen values - exhaustively for small spaces, boundary patterns and random values for
    sizes up to 64 - while the helpers and every consumer (salts of all salted hashers parsed back from hash(), TOTP.new
    keys, django_disabled suffix, generate_secret, genword/genphrase, cisco_type7, libpass generate_salt) run;
    Trace_Rand checks that the request is exactly the model's and the output is the model's function of the returned value.
 3. A CryptContext refuses any configuration that pins a salt (every salted scheme).
"""
from __future__ import annotations

import json
import string
import math
import random
import warnings

from .. import tlc
from ..common import VERIF
from .c13 import limbs


class Script:
    """scripted replacement for passlib.utils.rng's methods"""

    def __init__(self, chooser):
        self.chooser = chooser          # (kind, bound) -> value
        self.requests = []

    def install(self):
        import passlib.utils as pu
        self.rng = pu.rng
        s = self

        def getrandbits(k):
            v = s.chooser("bits", k)
            s.requests.append(("getrandbits", k, v))
            return v

        def randrange(a, b=None):
            lo, hi = (0, a) if b is None else (a, b)
            v = lo + s.chooser("range", hi - lo)
            s.requests.append(("randrange", hi - lo, v - lo))
            return v

        def randint(a, b):
            v = a + s.chooser("range", b - a + 1)
            s.requests.append(("randint", (a, b), v))
            return v

        def choice(seq):
            i = s.chooser("range", len(seq))
            s.requests.append(("choice", len(seq), i))
            return seq[i]
        self.rng.getrandbits, self.rng.randrange, self.rng.randint, self.rng.choice = getrandbits, randrange, randint, choice
        return self

    def remove(self):
        for n in ("getrandbits", "randrange", "randint", "choice"):
            try:
                delattr(self.rng, n)
            except AttributeError:
                pass

    def __enter__(self):
        return self.install()

    def __exit__(self, *a):
        self.remove()


def digits_of(v, base, n):
    out = []
    for _ in range(n):
        out.append(v % base)
        v //= base
    return out


def shape(reqs, base, n):
    """how the recorded requests cover the n output symbols: -> (digits, [{"fn", "k"}]) where request i supplies k_i symbols
    (getrandbits(8k) for bytes, a range of base^k otherwise) and digits are the symbols its value stands for, least
    significant first; requests beyond the n-th symbol are not the generator's.  Any partition of the n symbols over
    several requests is a legitimate way to draw them."""
    digits, shp, got = [], [], 0
    for fn, arg, val in reqs:
        if got >= n:
            break
        if fn == "getrandbits":
            k = arg // 8 if base == 256 and arg % 8 == 0 else -1
        else:
            rng_ = (arg[1] - arg[0] + 1) if isinstance(arg, (tuple, list)) else arg
            if isinstance(arg, (tuple, list)):
                val = val - arg[0]
            k, t = 0, 1
            while t < rng_:
                t *= base
                k += 1
            if t != rng_:
                k = -1
        shp.append({"fn": fn, "k": k})
        if k < 1:
            break
        digits += digits_of(val, base, k)
        got += k
    return digits, shp


def patterns(space_log_base, n, base, rnd, k_random):
    """values of the source to script: 0, max, every single digit at its maximum, random ones"""
    top = base ** n
    vals = {0, top - 1}
    for i in range(n):
        vals.add((base - 1) * base ** i)
        vals.add(top - 1 - (base - 1) * base ** i)
    vals.add(int("0102030405060708090a0b0c0d0e0f"[: 2 * min(n, 15)] or "0", 16) % top if base == 256 else (top // 3))
    for _ in range(k_random):
        vals.add(rnd.randrange(top))
    return sorted(vals)


def run(chk):
    warnings.simplefilter("ignore")
    quick = chk.tier == "quick"
    rnd = random.Random(chk.seed)
    import passlib.utils as pu
    from passlib.utils import getrandbytes, getrandstr
    chk.rule = ("one case = one call of a helper/consumer under a scripted random source with a chosen source value; TLC re-computes request and "
                "output. non-trivial = distinct (consumer, size, alphabet size, value pattern class)")
    r = tlc.run_instance("MC_Rand", dict(Ws={1, 2, 3} if quick else {1, 2, 3, 4}, Ls={2, 3, 5} if quick else {2, 3, 4, 5, 7}, MaxN=4), name="C06_mc",
                         invariants=["InvBalanced", "InvIndependent", "InvMinLen", "InvBcryptRepair"], coverage=False, timeout=900)
    chk.add_tlc("MC_Rand: balancedness and independence at reduced radix", r)
    evs = []

    def ev(op, consumer, **kw):
        e = {"op": op, "consumer": consumer}
        e.update(kw)
        evs.append(e)
        return e

    def reqs_json(reqs):
        out = []
        for fn, arg, v in reqs:
            out.append({"fn": fn, "arg": limbs(arg) if fn == "randrange" else arg})
        return out

    # --- helpers directly ---------------------------------------------------------------
    class R:
        """stand-in random source for direct helper calls: answers every kind of request from the value v, recording it"""

        def __init__(self, v, reqs):
            self.v, self.reqs = v, reqs

        def getrandbits(self, k):
            self.reqs.append(("getrandbits", k, self.v))
            return self.v % (1 << k)

        def randrange(self, a, b=None):
            lo, hi = (0, a) if b is None else (a, b)
            self.reqs.append(("randrange", hi - lo, self.v))
            return lo + self.v % (hi - lo)

        def randint(self, a, b):
            self.reqs.append(("randint", [a, b], self.v))
            return a + self.v % (b - a + 1)

        def choice(self, seq):
            self.reqs.append(("choice", len(seq), self.v))
            return seq[self.v % len(seq)]

        def random(self):
            self.reqs.append(("random", 0, self.v))
            return 0.5
    for n in ([1, 2, 3, 4, 8, 16, 32, 64] if quick else list(range(1, 17)) + [20, 24, 31, 32, 33, 48, 64]):
        vals = range(256 ** n) if n == 1 else (range(0, 65536, 257 if quick else 7) if n == 2 else patterns(8, n, 256, rnd, 6 if quick else 60))
        for v in vals:
            reqs = []
            out = getrandbytes(R(v, reqs), n)
            dg, shp = shape(reqs, 256, n)
            ev("bytes", "getrandbytes", n=n, digits=dg, out=list(out), requests=shp)
    alphabets = ["ab", "abc", "0123456789", pu.HASH64_CHARS if hasattr(pu, "HASH64_CHARS") else "./0123456789ABCDEFGHIJKLMNOPQRSTUVWXYZabcdefghijklmnopqrstuvwxyz",
                 "".join(chr(c) for c in range(33, 127)), "x"]
    for abc in alphabets:
        L = len(abc)
        for n in ([0, 1, 2, 5, 16, 22, 64] if quick else [0, 1, 2, 3, 4, 5, 8, 11, 16, 22, 31, 32, 43, 64]):
            vals = [0] if L == 1 or n == 0 else (range(L ** n) if L ** n <= (2000 if quick else 70000) else patterns(0, n, L, rnd, 4 if quick else 40))
            for v in vals:
                for asbytes in ((False, True) if n in (2, 16) else (False,)):
                    reqs = []
                    cs = abc.encode() if asbytes else abc
                    out = getrandstr(R(v, reqs), cs, n)
                    if isinstance(out, bytes):
                        out = out.decode()
                    dg, shp = shape(reqs, L, n) if L > 1 else ([0] * n, [])
                    ev("str", "getrandstr", L=L, n=n, abc=[ord(c) for c in abc], digits=dg, out=[ord(c) for c in out], requests=shp)

    # --- consumers: salts parsed back from real hashes --------------------------------------
    from passlib import registry
    import passlib.utils.handlers as uh
    salted = []
    for name in sorted(registry.list_crypt_handlers()):
        try:
            h = registry.get_crypt_handler(name)
            w = getattr(h, "wrapped", h)
            if not (isinstance(w, type) and issubclass(w, uh.HasSalt)):
                continue
            if hasattr(h, "has_backend") and not h.has_backend():
                continue
            salted.append((name, h, w))
        except Exception:
            continue
    pinned_refused = 0
    from passlib.context import CryptContext
    for name, h, w in salted:
        raw = issubclass(w, uh.HasRawSalt)
        size = w.default_salt_size
        chars = None if raw else w.default_salt_chars
        kw = {}
        if "rounds" in h.setting_kwds:
            kw["rounds"] = max(w.min_rounds, 1) if w.rounds_cost == "log2" else max(w.min_rounds, min(w.max_rounds or 1000, 1000) if w.min_rounds <= 1000 else w.min_rounds)
            if name == "scrypt":
                kw["rounds"] = 1
        ctxkw = {k: "user" for k in ("user",) if k in h.context_kwds}
        base = 256 if raw else len(chars)
        allv = patterns(0, size, base, rnd, 3 if quick else 12)
        if quick:            # both ends, one-digit-at-maximum patterns and random values (every region of the alphabet gets used)
            allv = sorted(set(allv[:2] + allv[-2:] + [x for x in allv if x not in allv[:2] + allv[-2:]][:: max(1, len(allv) // 4)] + [rnd.randrange(base ** size) for _ in range(3)]))[:9]
        for v in allv[: (9 if quick else 40)]:
            with Script(lambda k, b, v=v: v % (b if k == "range" else (1 << b))) as sc:
                try:
                    text = h.using(**kw).hash("pw", **ctxkw)
                except Exception as e:
                    chk.uncovered.append(f"{name}: hash under scripted source failed: {type(e).__name__}: {e}"[:140])
                    break
            try:
                hh = text
                if hasattr(h, "wrapped"):
                    hh = h._unwrap_hash(text)
                salt = w.from_string(hh).salt
            except Exception as e:
                chk.uncovered.append(f"{name}: cannot parse salt back: {type(e).__name__}"[:120])
                break
            saltreqs = [q for q in sc.requests if q[0] in ("getrandbits", "randrange")]
            if raw:
                dg, shp = shape(saltreqs, 256, size)
                ev("bytes", name, n=size, digits=dg, out=list(salt), requests=shp)
            elif name in ("bcrypt", "bcrypt_sha256", "ldap_bcrypt", "django_bcrypt", "django_bcrypt_sha256"):
                ev("bcrypt-salt", name, abc=[ord(c) for c in chars], digits=digits_of(v, base, size), out=[ord(c) for c in salt])
            else:
                dg, shp = shape(saltreqs, base, size)
                ev("str", name, L=base, n=size, abc=[ord(c) for c in chars], digits=dg, out=[ord(c) for c in salt], requests=shp)
        # a context never lets a configuration pin a salt
        try:
            CryptContext(schemes=[name], **{f"{name}__salt": "abcdefgh"})
            chk.violation(f"context-pins-salt:{name}", f"CryptContext accepted {name}__salt", {"scheme": name})
        except KeyError:
            pinned_refused += 1
        except Exception as e:
            chk.violation(f"context-pins-salt:{name}:{type(e).__name__}", f"CryptContext({name}__salt=..) raised {type(e).__name__} instead of KeyError", {"scheme": name})
        chk.evaluations += 1
    policy(chk, [s[0] for s in salted], quick)
    chk.extra["salted_hashers"] = [s[0] for s in salted]
    chk.extra["salt_pinning_refused"] = pinned_refused

    # --- other consumers ------------------------------------------------------------------------
    from passlib.totp import TOTP, generate_secret
    from passlib import pwd
    for size in (10, 16, 20, 32):
        for v in patterns(0, size, 256, rnd, 2)[:6]:
            with Script(lambda k, b, v=v: v % (1 << b) if k == "bits" else v % b) as sc:
                try:
                    key = TOTP.using(alg="sha256").new(size=size).key if size > 20 else TOTP.new(size=size).key
                except Exception as ex:
                    chk.violation(f"TOTP.new:{type(ex).__name__}", f"TOTP{'.using(alg=sha256)' if size > 20 else ''}.new(size={size}) raised {type(ex).__name__}: {ex}", {"size": size})
                    continue
            dg, shp = shape(sc.requests, 256, size)
            ev("bytes", "TOTP.new", n=size, digits=dg, out=list(key), requests=shp)
    # cisco_type7: the generated offset is one uniform draw from the 16 documented values 0..15, and it is the offset of the hash
    import passlib.hash as _PH
    for v in range(16):
        with Script(lambda k, b, v=v: v % b if k == "range" else v % (1 << b)) as sc:
            hs = _PH.cisco_type7.hash("pw")
        chk.evaluations += 1
        chk.count(("cisco_type7-offset", v))
        sizes = [(r[1][1] - r[1][0] + 1) if r[0] == "randint" else ((1 << r[1]) if r[0] == "getrandbits" else r[1]) for r in sc.requests]
        if sizes != [16] or int(hs[:2]) != v:
            chk.violation("cisco_type7:offset", f"cisco_type7.hash(): requests of sizes {sizes} to the random source (expected one over 16 values); returned value {v}, offset in the hash {hs[:2]}",
                          {"hash": hs, "requests": [list(map(str, r)) for r in sc.requests]})
            break
    # custom word lists: every entry is a symbol of its own exactly as given (entries that differ only in white space or case are
    # different entries), each drawn with one uniform request over the whole list
    words = ["alpha\n", "beta\n", "gamma\n", "alpha", " alpha", "Alpha", "be ta"]
    for idx in ([0, 3, 4], [5, 6, 1], [3, 3, 0], [2, 4, 6]):
        it = iter(idx)
        with Script(lambda k, b, it=it: next(it) % b) as sc:
            try:
                phrase = pwd.genphrase(length=3, words=words, sep="|")
            except Exception as ex:
                phrase = f"{type(ex).__name__}: {ex}"
        chk.evaluations += 1
        chk.count(("genphrase-custom", tuple(idx)))
        if phrase != "|".join(words[i] for i in idx) or any((q[1] if q[0] != "randint" else q[1][1] - q[1][0] + 1) != len(words) for q in sc.requests) or len(sc.requests) != 3:
            chk.violation("genphrase:custom-words", f"genphrase over {words} with draws {idx} gave {phrase!r} using requests {[q[:2] for q in sc.requests]}",
                          {"words": words, "draws": idx, "phrase": phrase})
            break
    # without a size the new key has the digest size of the algorithm in force - set in the call or by the factory
    for alg, dsz in (("sha1", 20), ("sha256", 32), ("sha512", 64)):
        for how, mk in (("new(alg=)", lambda: TOTP.new(alg=alg)), ("using(alg=).new()", lambda: TOTP.using(alg=alg).new()), ("using(alg=)(new=True)", lambda: TOTP.using(alg=alg)(new=True))):
            chk.evaluations += 1
            chk.count(("totp-default-size", alg, how))
            try:
                with Script(lambda k, b: 0) as sc:
                    got = len(mk().key)
            except Exception as ex:
                got = f"{type(ex).__name__}: {ex}"[:80]
            if got != dsz:
                chk.violation(f"TOTP.new:default-size:{alg}", f"TOTP {how} with {alg}: key of {got} bytes, the digest has {dsz}", {"alg": alg, "how": how})
    abc62 = "ABCDEFGHIJKLMNOPQRSTUVWXYZabcdefghijklmnopqrstuvwxyz0123456789"
    for entropy in (1, 64, 128, 256):
        n = int(math.ceil(entropy * math.log(2, 62)))
        for v in patterns(0, n, 62, rnd, 1)[:4]:
            with Script(lambda k, b, v=v: v % b) as sc:
                s = generate_secret(entropy=entropy)
            dg, shp = shape(sc.requests, 62, len(s))
            ev("str", "generate_secret", L=62, n=len(s), abc=[ord(c) for c in abc62], digits=dg, out=[ord(c) for c in s], requests=shp)
            ev("minlen", "generate_secret", L=62, n=len(s), entropy=entropy)
    # generate_secret over alphabets of every kind of size (the length must carry the requested entropy - MinLenOk - for any alphabet)
    import string
    for cs in (string.digits, "abc", "ab", "abcde", string.ascii_lowercase, string.hexdigits[:16], "".join(chr(c) for c in range(33, 127))):
        for entropy in (1, 24, 64, 128, 256):
            with Script(lambda k, b: 0) as sc:
                s_ = generate_secret(entropy=entropy, charset=cs)
            ev("minlen", f"generate_secret/{len(cs)}", L=len(cs), n=len(s_), entropy=entropy)
            dg, shp = shape(sc.requests, len(cs), len(s_))
            ev("str", f"generate_secret/{len(cs)}", L=len(cs), n=len(s_), abc=[ord(c) for c in cs], digits=dg, out=[ord(c) for c in s_], requests=shp)
    for charset in ("ascii_62", "ascii_50", "ascii_72", "hex"):
        chars = pwd.default_charsets[charset]
        for entropy in (28, 36, 48, 56, 60, 128):
            for v in [0, len(chars) ** 3 - 1, rnd.randrange(2 ** 200)]:
                with Script(lambda k, b, v=v: v % b) as sc:
                    s = pwd.genword(entropy=entropy, charset=charset)
                dg, shp = shape(sc.requests, len(chars), len(s))
                ev("str", f"genword/{charset}", L=len(chars), n=len(s), abc=[ord(c) for c in chars], digits=dg, out=[ord(c) for c in s], requests=shp)
            ev("minlen", f"genword/{charset}", L=len(chars), n=len(s), entropy=entropy)
    # lengths for a requested entropy where the exact quotient entropy / log2(L) lies just above or just below a whole number
    # (any rounding of the quotient before taking the ceiling, and any float error, shows exactly there), plus random pairs
    risky = []
    for L in range(2, 95):
        if L & (L - 1) == 0:
            continue
        per = math.log2(L)
        near = sorted(range(1, 257), key=lambda e: min((e / per) % 1, 1 - (e / per) % 1))
        risky += [(L, e) for e in near[:3]] + [(L, rnd.randrange(1, 257))]
    if quick:
        risky = rnd.sample(risky, 140)
    for L, entropy in risky:
        cs = "".join(chr(33 + i) for i in range(L))
        with Script(lambda k, b: 0):
            w = pwd.genword(entropy=entropy, chars=cs)
        ev("minlen", f"genword/chars{L}", L=L, n=len(w), entropy=entropy)
    for wordset in ("eff_long", "eff_short", "bip39"):
        words = pwd.default_wordsets[wordset]
        for entropy in (28, 48, 56):
            idx = [0, len(words) - 1, rnd.randrange(len(words)), 1, 2, 3, 4, 5, 6]
            it = iter(idx)
            with Script(lambda k, b, it=it: next(it) % b) as sc:
                phrase = pwd.genphrase(entropy=entropy, wordset=wordset, sep=" ")
            got = phrase.split(" ")
            want = [words[i % len(words)] for i in idx[:len(got)]]
            chk.evaluations += 1
            if got != want or any(q[0] != "choice" or q[1] != len(words) for q in sc.requests):
                chk.violation(f"genphrase:{wordset}", "genphrase does not draw one uniform word per position", {"got": got, "want": want})
            ev("minlen", f"genphrase/{wordset}", L=len(words) if len(words) < 32768 else 32767, n=len(got), entropy=entropy) if len(words) < 32768 else None
    # libpass salts: one uniform draw from the whole alphabet per character - through whichever entry point of the operating
    # system's generator the code uses (secrets.choice / randbelow, SystemRandom.choice / randrange / choices all end in
    # SystemRandom._randbelow(n) or SystemRandom.random())
    import random as _random
    import libpass._salt as ls
    picks = []
    o_below, o_float = _random.SystemRandom._randbelow, _random.SystemRandom.random

    def s_below(self, n):
        picks.append(("below", n, (7 * (len(picks) + 1)) % n))
        return picks[-1][2]

    def s_float(self):
        k = (7 * (len(picks) + 1)) % 62
        picks.append(("float", 62, k))
        return (k + 0.5) / 62
    try:
        _random.SystemRandom._randbelow, _random.SystemRandom.random = s_below, s_float
        s = ls.generate_salt(12)
        n1 = len(picks)
        s2 = ls.generate_salt_by_entropy(128)
    except Exception as ex:
        s, s2, n1 = f"{type(ex).__name__}: {ex}", "", 0
    finally:
        _random.SystemRandom._randbelow, _random.SystemRandom.random = o_below, o_float
    chk.evaluations += 2
    abc62 = string.ascii_letters + string.digits
    if len(s) != 12 or n1 != 12 or any(p[1] != 62 for p in picks) or s != "".join(abc62[p[2]] for p in picks[:12]) \
            or len(s2) * math.log2(62) < 128 or (len(s2) - 1) * math.log2(62) >= 128:
        chk.violation("libpass:generate_salt", "libpass salt generator does not draw one uniform symbol of the 62-symbol alphabet per position / wrong length",
                      {"s": s, "s2": s2, "requests": [list(p) for p in picks[:14]]})
    ev("minlen", "libpass.generate_salt_by_entropy", L=62, n=len(s2), entropy=128)
    # libpass sha-crypt hashers: 16 salt symbols, each one uniform pick from the format's 64-symbol alphabet
    try:
        import secrets as _secrets
        from libpass.hashers.sha_crypt import SHA256Hasher, SHA512Hasher
        from libpass.inspect.sha_crypt import inspect_sha_crypt, SHA256CryptInfo, SHA512CryptInfo
        H64ABC = "./0123456789ABCDEFGHIJKLMNOPQRSTUVWXYZabcdefghijklmnopqrstuvwxyz"
        for cls, info in ((SHA256Hasher, SHA256CryptInfo), (SHA512Hasher, SHA512CryptInfo)):
            for start in (0, 5, 63):
                picks2 = []

                def b2(self, n, picks2=picks2, start=start):
                    picks2.append((n, (start + 9 * len(picks2)) % n))
                    return picks2[-1][1]

                def f2(self, picks2=picks2, start=start):
                    k = (start + 9 * len(picks2)) % 64
                    picks2.append((64, k))
                    return (k + 0.5) / 64
                ob, of = _random.SystemRandom._randbelow, _random.SystemRandom.random
                _random.SystemRandom._randbelow, _random.SystemRandom.random = b2, f2
                try:
                    hs = cls(rounds=1000).hash("pw")
                finally:
                    _random.SystemRandom._randbelow, _random.SystemRandom.random = ob, of
                salt = inspect_sha_crypt(hs, info).salt
                chk.evaluations += 1
                chk.count(("libpass-sha-salt", cls.__name__, start))
                # 16 draws, each uniform on 64 values, each value standing for one symbol of the format's alphabet (one-to-one)
                m1, m2 = {}, {}
                consistent = len(salt) == 16 and len(picks2) >= 16 and all(m1.setdefault(p[1], c) == c and m2.setdefault(c, p[1]) == p[1] for p, c in zip(picks2[:16], salt))
                if not consistent or [p[0] for p in picks2[:16]] != [64] * 16 or set(salt) - set(H64ABC):
                    chk.violation(f"libpass:{cls.__name__}:salt", f"{cls.__name__}: salt {salt!r} is not 16 uniform picks from the 64-symbol sha-crypt alphabet (ranges asked: {sorted({p[0] for p in picks2})})",
                                  {"salt": salt, "picks": [list(map(str, p)) for p in picks2[:20]]})
    except ImportError as ex:
        chk.uncovered.append(f"libpass sha-crypt hashers: {ex}")
    # libpass hashers: the configured salt strength is the one used
    try:
        from libpass.hashers.pbkdf2 import PBKDF2SHA256Handler, PBKDF2SHA512Handler
        from libpass.inspect.pbkdf2 import inspect_pbkdf2_hash, PBKDF2SHA256CryptInfo, PBKDF2SHA512CryptInfo
        import base64 as _b64
        for cls, info in ((PBKDF2SHA256Handler, PBKDF2SHA256CryptInfo), (PBKDF2SHA512Handler, PBKDF2SHA512CryptInfo)):
            for bits in (64, 128, 256, 512):
                try:
                    hs = cls(rounds=1, salt_entropy_bits=bits).hash("pw")
                except Exception as ex:
                    chk.violation(f"libpass:{cls.__name__}:salt:{type(ex).__name__}", f"{cls.__name__}(salt_entropy_bits={bits}).hash() raised {type(ex).__name__}: {ex}", {"bits": bits})
                    continue
                inf = inspect_pbkdf2_hash(hs, info)
                raw = inf.salt if isinstance(inf.salt, (bytes, str)) else b""
                # the salt is stored base64-coded: decode it back to the generated text
                txt = hs.split("$")[3]
                salt_text = _b64.b64decode(txt.replace(".", "+") + "=" * (-len(txt) % 4))
                ev("minlen", f"libpass.{cls.__name__}", L=62, n=len(salt_text), entropy=bits)
    except ImportError as ex:
        chk.uncovered.append(f"libpass pbkdf2 hashers: {ex}")
    sticky_salts(chk)

    # --- TLC validates all events --------------------------------------------------------------------
    wd = tlc.WORK / "C06_trace_in"
    wd.mkdir(parents=True, exist_ok=True)
    for e in evs:
        e.setdefault("requests", [])
    (wd / "events.json").write_text(json.dumps([{k: v for k, v in e.items() if k != "consumer"} for e in evs]))
    r = tlc.run("Trace_Rand", "INIT Init\nNEXT Next\n", name="C06_trace", workers=1, env={"TRACE_FILE": str(wd / "events.json")}, coverage=False, timeout=3000)
    chk.add_tlc("Trace_Rand over recorded events", r)
    if r.distinct != len(evs) + 1:
        raise tlc.MachineryError(f"trace not fully consumed: {r.distinct} vs {len(evs)}")
    chk.traces += len(evs)
    for e in evs:
        cls = "zero" if not any(e.get("digits", [1])) else "max" if e.get("digits") and all(d == (e.get("L", 256) - 1) for d in e["digits"]) else "mixed"
        chk.count((e["consumer"], e["op"], e.get("n"), e.get("L", 256), cls))
        chk.action(e["op"])
    chk.sample({"event": next(e for e in evs if e["op"] == "str" and e["consumer"] != "getrandstr")})
    chk.sample({"event": next(e for e in evs if e["op"] == "bytes" and e["n"] == 4)})
    for b in r.emits:
        e = evs[b["ev"] - 1]
        chk.violation(f"{e['consumer']}:{e['op']}:{b['clause']}",
                      f"{e['consumer']}: {b['clause']} differs from Rand.tla for a source value with digits {e.get('digits', [])[:8]}...",
                      {"event": {k: (v if not isinstance(v, list) or len(v) < 70 else v[:70]) for k, v in e.items()}, "expected": b["expected"]})
    chk.assumptions += ["the random source itself (SystemRandom / secrets) is uniform; no statistics on live output are used",
                        "int <-> digit-vector conversion of the source value is done by the harness"]


def sticky_salts(chk):
    """a salt supplied for ONE call never sticks: the next call without a salt draws a fresh one from the random source
    (histories: pinned call, then automatic ones) - hashers through using(), and the Django hasher wrappers through encode()"""
    import passlib.hash as H

    def drawn(make_auto, parse_salt, pinned, label):
        outs = []
        for v in (3, 11):
            with Script(lambda k, b, v=v: (v * 2654435761) % (b if k == "range" else (1 << b))) as sc:
                hs = make_auto()
            outs.append((parse_salt(hs), len(sc.requests)))
        chk.evaluations += 2
        chk.count(("sticky", label))
        chk.action("sticky-salt")
        salts = [o[0] for o in outs]
        if pinned in salts or salts[0] == salts[1] or any(o[1] == 0 for o in outs):
            chk.violation(f"sticky-salt:{label}", f"{label}: after a call with the explicit salt {pinned!r}, calls without a salt produced salts {salts} using {[o[1] for o in outs]} random requests",
                          {"path": label, "pinned": repr(pinned), "salts": [repr(x) for x in salts]})
    # every salted hasher of the registry
    from passlib import registry
    import passlib.utils.handlers as uh
    for name in sorted(registry.list_crypt_handlers()):
        try:
            h = registry.get_crypt_handler(name)
            w = getattr(h, "wrapped", h)
            if "salt" not in h.setting_kwds or (hasattr(h, "has_backend") and not h.has_backend()):
                continue
            if name == "cisco_type7":
                pinned = 7
            elif name in ("bcrypt", "bcrypt_sha256", "ldap_bcrypt", "django_bcrypt", "django_bcrypt_sha256"):
                pinned = "abcdefghijklmnopqrstuu"
            else:
                size = w.default_salt_size or w.min_salt_size or 8
                pinned = bytes(65 + (i % 26) for i in range(size)) if issubclass(w, uh.HasRawSalt) else "".join(w.default_salt_chars[(i * 7 + 3) % len(w.default_salt_chars)] for i in range(size))
            kw = {}
            if "rounds" in h.setting_kwds:
                kw["rounds"] = 1 if name == "scrypt" else (w.min_rounds if w.rounds_cost == "log2" else max(w.min_rounds, 1))
            ctx = {k: k for k in ("user", "realm") if k in h.context_kwds}

            def salt_of(s_, h=h, w=w):
                return w.from_string(h._unwrap_hash(s_) if hasattr(h, "wrapped") else s_).salt
            first = h.using(salt=pinned, **kw).hash("pw", **ctx)
            if salt_of(first) != pinned:
                continue            # (explicit salts are C09's subject)
        except Exception as ex:
            chk.uncovered.append(f"sticky salt {name}: {type(ex).__name__}: {ex}"[:120])
            continue
        drawn(lambda: h.using(**kw).hash("pw", **ctx), salt_of, pinned, f"{name}.using(salt=..) then using()")
    try:
        from django.conf import settings
        if not settings.configured:
            settings.configure()
        import django
        django.setup()
        from passlib.ext.django.utils import DjangoTranslator
    except Exception as ex:
        chk.uncovered.append(f"Django wrapper salts: {type(ex).__name__}: {ex}"[:120])
        return
    for h, pinned, rounds in ((H.sha256_crypt, "abcdabcdabcdabcd", 1234), (H.pbkdf2_sha256, b"0123456789abcdef", 7)):
        hasher = DjangoTranslator().passlib_to_django(h.name)
        first = hasher.encode("secret", pinned, rounds=rounds)
        if h.from_string(first).salt != pinned:
            chk.violation(f"django-wrapper:{h.name}:explicit-salt", "the Django wrapper does not honour an explicit salt", {"hash": first})
        drawn(lambda: hasher.encode("other", rounds=rounds), lambda s, h=h: h.from_string(s).salt, pinned, f"django wrapper of {h.name}: encode(pw, salt) then encode(pw)")
        drawn(lambda: hasher.encode("other", hasher.salt(), rounds=rounds), lambda s, h=h: h.from_string(s).salt, pinned, f"django wrapper of {h.name}: encode(pw, salt) then encode(pw, hasher.salt())")


def policy(chk, salted, quick):
    """MC_RandPolicy: every spelling / way of pinning a salt is refused; duplicate alphabets are refused at every attempt"""
    from passlib.context import CryptContext
    from passlib import pwd
    r = tlc.run_instance("MC_RandPolicy", dict(Cats={"none", "admin"}, Holders={"scheme", "all"}, Vias={"ctor", "update", "load-dict", "load-ini", "copy"},
                                               Apis={"genword-chars", "genphrase-words", "WordGenerator", "PhraseGenerator"},
                                               Containers={"str", "tuple", "list"}, MaxAttempt=3),
                         name="C06_policy", invariants=["EmitInv"], workers=1, coverage=False)
    chk.add_tlc("MC_RandPolicy: spellings of a pinned salt x ways to configure; duplicate alphabets x attempts", r)
    dup_state = {}
    for e in sorted(r.emits, key=lambda e: (e["k"], e["x"], e["y"], e["z"], e["attempt"])):
        if e["k"] == "pin":
            for name in (salted if not quick else salted[::3]):
                holder = name if e["y"] == "scheme" else "all"
                key = ("" if e["x"] == "none" else "admin__") + holder + "__salt"
                base = dict(schemes=[name])
                try:
                    if e["z"] == "ctor":
                        c = CryptContext(**base, **{key: "abcdefgh"})
                    elif e["z"] == "update":
                        c = CryptContext(**base)
                        c.update(**{key: "abcdefgh"})
                    elif e["z"] == "copy":
                        c = CryptContext(**base).copy(**{key: "abcdefgh"})
                    elif e["z"] == "load-dict":
                        c = CryptContext()
                        c.load(dict(base, **{key: "abcdefgh"}))
                    else:
                        c = CryptContext.from_string(f"[passlib]\nschemes = {name}\n{key.replace('__', '.')} = abcdefgh\n")
                    # accepted: does it pin?
                    cat = None if e["x"] == "none" else "admin"
                    got = "accepted"
                    c.handler(name, category=cat)
                except KeyError:
                    got = "KeyError"
                except Exception as ex:
                    got = type(ex).__name__
                chk.evaluations += 1
                chk.count(("pin", e["x"], e["y"], e["z"], name))
                chk.action("pin-salt")
                if got != e["expected"]:
                    chk.violation(f"context-pins-salt:{e['x']}:{e['y']}:{e['z']}:{got}", f"CryptContext configured through {e['z']} with {key}=.. for {name}: {got}, spec {e['expected']}",
                                  {"scheme": name, "key": key, "via": e["z"]})
        else:
            # attempts are made in order on the SAME argument value (the cache is keyed by value)
            mk = {"str": lambda xs: "".join(xs), "tuple": tuple, "list": list}[e["y"]]
            words = e["x"] in ("genphrase-words", "PhraseGenerator")
            src = mk(["alpha", "beta", "gamma", "delta", "alpha", "eps"] if words else list("abcdefga" + e["x"][:1]))
            try:
                if e["x"] == "genword-chars":
                    pwd.genword(entropy=40, chars=src)
                elif e["x"] == "genphrase-words":
                    pwd.genphrase(entropy=40, words=src)
                elif e["x"] == "WordGenerator":
                    pwd.WordGenerator(entropy=40, chars=src)
                else:
                    pwd.PhraseGenerator(entropy=40, words=src)
                got = "accepted"
            except ValueError:
                got = "ValueError"
            except Exception as ex:
                got = type(ex).__name__
            chk.evaluations += 1
            chk.count(("dup", e["x"], e["y"], e["attempt"]))
            chk.action("dup-alphabet")
            if got != e["expected"]:
                chk.violation(f"dup-alphabet:{e['x']}:{e['y']}:attempt{e['attempt']}:{got}",
                              f"{e['x']} with a repeated element ({e['y']}) at attempt {e['attempt']}: {got}, spec {e['expected']}", {"source": list(src), "attempt": e["attempt"]})
    chk.traces += len(r.emits)


def replay(chk, path):
    v = json.loads(open(path).read())
    print(json.dumps(v["detail"], indent=1)[:3000])
    return 1
