"""C11 - the built-in cryptographic primitives equal their standards.

spec/prim/: Word32, Md4 (RFC 1320), Salsa (RFC 7914: Salsa20/8, BlockMix, ROMix), Terms + Hmac (RFC 2104, RFC 8018
PBKDF1/PBKDF2 as term programs over the plain hash), SaslPrep (RFC 4013 logic over character classes), Des (FIPS 46-3 with
crypt(3)'s salt and iteration), Blowfish/bcrypt (cross-provider).
 * the spec IS the oracle where TLC can evaluate the standard: MD4 digests and object histories, the scrypt core at every
   level (salsa20, bmix, smix, whole scrypt closed with hashlib's PBKDF2; the transcription itself is first validated
   against RFC vectors and OpenSSL's scrypt), HMAC/PBKDF programs evaluated with hashlib's plain constructors, SASLprep
   class logic with representatives from stringprep/unicodedata, DES evaluated by TLC from the FIPS tables.
 * single-valuedness by independent providers where TLC does not define the function: bcrypt core vs the bcrypt C
   library and libxcrypt; DES additionally vs libxcrypt.
"""
from __future__ import annotations

import hashlib
import hmac as std_hmac
import json
import random
import stringprep
import unicodedata
import warnings

from .. import tlc, terms
from ..common import VERIF


def md4_content(pat, n):
    return bytes({"a": 97, "ff": 255, "zero": 0}.get(pat, (k * 7 + 3) % 256) if pat != "inc" else (k * 7 + 3) % 256 for k in range(1, n + 1))


# ---------------------------------------------------------------------------------------------------------------
def part_md4(chk, quick, rnd):
    from passlib.crypto._md4 import md4 as real_md4
    from passlib.crypto.digest import lookup_hash
    lens = set(range(0, 131)) | {183, 184, 191, 192, 193, 255, 256, 257, 300} if quick else set(range(0, 301))
    r = tlc.run_instance("MC_Md4", dict(Mode="oneshot", Lens=lens, Pats={"a", "inc", "ff"} if quick else {"a", "inc", "ff", "zero"}, Chunks={0}, MaxOps=1, DoEmit=True),
                         name="C11_md4_one", action_constraint="Emit", coverage=False, timeout=1800)
    chk.add_tlc("MC_Md4 one-shot digests (RFC 1320 evaluated by TLC)", r)
    const = lookup_hash("md4").const
    for e in r.emits:
        n, pat = e["arg"][0], e["pat"]
        msg = md4_content(pat, n)
        want = bytes(e["res"])
        chk.count(("md4", "oneshot", n % 64, n // 64, pat))
        chk.action("md4.oneshot")
        got = real_md4(msg).digest()
        got2 = const(msg).digest()
        got3 = bytes.fromhex(real_md4(msg).hexdigest())
        if not (got == got2 == got3 == want):
            chk.violation(f"md4:oneshot:len%64={n % 64}", f"MD4 of a {n}-byte message ({pat}): library {got.hex()} / lookup_hash {got2.hex()}, RFC 1320 {want.hex()}",
                          {"length": n, "pattern": pat, "library": got.hex(), "spec": want.hex()})
    chk.traces += len(r.emits)
    # object histories
    nb = 400 if quick else 4000
    chunks = {0, 1, 55, 56, 63, 64, 65, 119, 120, 128} if quick else {0, 1, 2, 55, 56, 57, 63, 64, 65, 119, 120, 121, 127, 128, 129, 200}
    r = tlc.run_instance("MC_Md4", dict(Mode="objects", Lens={0}, Pats={"-"}, Chunks={0, 1, 63, 64}, MaxOps=3, DoEmit=False),
                         name="C11_md4_obj_mc", properties=["DigestPure", "Independent"], action_constraint="Emit", coverage=False, timeout=900)
    chk.add_tlc("MC_Md4 object histories, exhaustive (4 chunk sizes, 3 steps)", r)
    r = tlc.run_instance("MC_Md4", dict(Mode="objects", Lens={0}, Pats={"-"}, Chunks=chunks, MaxOps=7, DoEmit=True), name="C11_md4_obj",
                         action_constraint="Emit", next="SimNext", simulate=f"num={nb}", depth=7, workers=1, seed=chk.seed + 1, coverage=False, timeout=1800)
    chk.add_tlc(f"MC_Md4 object histories, simulation ({nb} histories)", r)
    behs, cur = [], None
    for e in r.emits:
        if e["n"] == 0:
            cur = []
            behs.append(cur)
        cur.append(e)
    for b in behs:
        objs = {}
        hist = []
        for st in b:
            op, o = st["op"], st["o"]
            hist.append({k: (st[k] if k != "arg" else len(st[k])) for k in ("op", "o", "arg")})
            chk.count(("md4", op, len(st["arg"]) % 64 if op in ("new", "update") else 0, len(hist)))
            chk.action("md4." + op)
            try:
                if op == "new":
                    data = bytes(st["arg"])
                    objs[o] = real_md4(data) if rnd.random() < .5 else real_md4()
                    if objs[o].digest() != real_md4(b"").digest() or not data:
                        pass
                    else:
                        objs[o].update(data)
                elif op == "update":
                    data = bytes(st["arg"])
                    if len(data) > 2 and rnd.random() < .3:          # the same bytes in two calls
                        k = rnd.randrange(len(data))
                        objs[o].update(data[:k])
                        objs[o].update(data[k:])
                    else:
                        objs[o].update(data)
                elif op == "copy":
                    objs[st["arg"][0]] = objs[o].copy()
                else:
                    want = bytes(st["res"])
                    got = objs[o].digest() if op == "digest" else bytes.fromhex(objs[o].hexdigest())
                    if got != want:
                        chk.violation(f"md4:object:{op}", f"MD4 object after {len(hist)} steps gives {got.hex()}, Md4 of everything written is {want.hex()}",
                                      {"history": hist})
                        break
            except Exception as ex:
                chk.violation(f"md4:object:{op}:{type(ex).__name__}", f"MD4 object raised {type(ex).__name__}: {ex}", {"history": hist})
                break
        chk.traces += 1


# ---------------------------------------------------------------------------------------------------------------
def part_scrypt(chk, quick, rnd):
    from passlib.crypto.scrypt._builtin import ScryptEngine
    from passlib.crypto.scrypt._salsa import salsa20
    from passlib.crypto import scrypt as ps
    import struct
    cases = []

    def add(kind, **k):
        cases.append(dict(kind=kind, **k))
        return len(cases)
    grid = [(2, 1, 1), (4, 1, 2), (8, 2, 1), (16, 1, 1), (16, 3, 1), (16, 8, 1), (32, 1, 4), (64, 2, 2), (256, 1, 1), (1024, 1, 1)]
    if not quick:
        grid += [(2, 8, 4), (4, 4, 3), (8, 5, 1), (16, 7, 2), (128, 3, 1), (512, 2, 1), (2048, 1, 1), (4096, 1, 1), (16, 6, 1), (16, 4, 4)]
    full = []
    for (n, r, p) in grid:
        pw = bytes(rnd.randrange(256) for _ in range(rnd.choice([0, 1, 8, 63, 64, 65, 100])))
        salt = bytes(rnd.randrange(256) for _ in range(rnd.choice([0, 1, 16, 32])))
        B = hashlib.pbkdf2_hmac("sha256", pw, salt, 1, p * 128 * r)
        ids = [add("smix", n=n, r=r, p=p, input=list(B[k * 128 * r:(k + 1) * 128 * r])) for k in range(p)]
        full.append((n, r, p, pw, salt, ids))
    for _ in range(6 if quick else 40):
        add("salsa", input=[rnd.randrange(256) for _ in range(64)])
    add("salsa", input=[0] * 64)
    add("salsa", input=[255] * 64)
    for r in (1, 2, 3, 8):
        add("bmix", r=r, input=[rnd.randrange(256) for _ in range(128 * r)])
    valid_grid = [(n, r, p) for n in (0, 1, 2, 3, 4, 6, 16, 1000, 1024, 65536, 2 ** 20) for r in (0, 1, 8, 2 ** 15, 2 ** 29) for p in (0, 1, 2, 2 ** 15, 2 ** 29)
                  if r == 0 or p == 0 or r * p < 2 ** 31]
    for (n, r, p) in valid_grid:
        add("valid", n=n, r=r, p=p)
    wd = tlc.WORK / "C11_scrypt_in"
    wd.mkdir(parents=True, exist_ok=True)
    (wd / "cases.json").write_text(json.dumps(cases))
    res = tlc.run("MC_Scrypt", "INIT Init\nNEXT Next\n", name="C11_scrypt", workers=16, env={"TRACE_FILE": str(wd / "cases.json")}, coverage=False, timeout=3000)
    chk.add_tlc("MC_Scrypt: Salsa20/8, BlockMix, ROMix, parameter validity (RFC 7914 evaluated by TLC)", res)
    outs = {e["case"]: e["out"] for e in res.emits}
    if len(outs) != len(cases):
        raise tlc.MachineryError(f"MC_Scrypt decided {len(outs)} of {len(cases)} cases")
    # spec self-test against OpenSSL, then the library's engine against the spec
    for (n, r, p, pw, salt, ids) in full:
        Bp = b"".join(bytes(outs[i]) for i in ids)
        for keylen in ([1, 32, 65] if quick else [1, 31, 32, 33, 64, 65, 130]):
            want = hashlib.pbkdf2_hmac("sha256", pw, Bp, 1, keylen)
            ref = hashlib.scrypt(pw, salt=salt, n=n, r=r, p=p, dklen=keylen, maxmem=2 ** 30)
            if want != ref:
                raise tlc.MachineryError(f"Salsa.tla disagrees with OpenSSL scrypt for n={n} r={r} p={p}: the transcription is wrong")
            got = ScryptEngine.execute(pw, salt, n, r, p, keylen)
            chk.count(("scrypt", n, r, p, keylen))
            chk.action("scrypt.run")
            if got != want:
                chk.violation(f"scrypt:run:n={n},r={r},p={p}", f"built-in scrypt(n={n}, r={r}, p={p}, keylen={keylen}) = {got.hex()[:32]}.., RFC 7914 gives {want.hex()[:32]}..",
                              {"n": n, "r": r, "p": p, "keylen": keylen, "password": pw.hex(), "salt": salt.hex()})
            ps._set_backend("builtin")
            try:
                got2 = ps.scrypt(pw, salt, n, r, p, keylen)
            finally:
                ps._set_backend("default") if hasattr(ps, "_set_backend") else None
            if got2 != want:
                chk.violation(f"scrypt:frontend:n={n},r={r},p={p}", "scrypt() front end with the built-in backend differs from RFC 7914",
                              {"n": n, "r": r, "p": p, "keylen": keylen})
        eng = ScryptEngine(n, r, p)
        for i in ids:
            got = eng.smix(bytes(cases[i - 1]["input"]))
            chk.action("scrypt.smix")
            if got != bytes(outs[i]):
                chk.violation(f"scrypt:smix:n={n},r={r}", f"smix(n={n}, r={r}) differs from ROMix of RFC 7914", {"n": n, "r": r, "input": bytes(cases[i - 1]["input"]).hex()})
    for i, c in enumerate(cases, 1):
        if c["kind"] == "salsa":
            words = struct.unpack("<16I", bytes(c["input"]))
            got = struct.pack("<16I", *salsa20(words))
            chk.count(("salsa", i))
            chk.action("scrypt.salsa20")
            if got != bytes(outs[i]):
                chk.violation("scrypt:salsa20", "salsa20() differs from the Salsa20/8 core of RFC 7914", {"input": bytes(c["input"]).hex(), "library": got.hex(), "spec": bytes(outs[i]).hex()})
        elif c["kind"] == "bmix":
            r = c["r"]
            eng = ScryptEngine(16, r, 1)
            src = list(struct.unpack(f"<{32 * r}I", bytes(c["input"])))
            tgt = [0] * (32 * r)
            eng.bmix(src, tgt)
            got = struct.pack(f"<{32 * r}I", *tgt)
            chk.count(("bmix", r))
            chk.action("scrypt.bmix")
            if got != bytes(outs[i]):
                chk.violation(f"scrypt:bmix:r={r}", "bmix() differs from scryptBlockMix of RFC 7914", {"r": r, "input": bytes(c["input"]).hex()})
        elif c["kind"] == "valid":
            try:
                ps.validate(c["n"], c["r"], c["p"])
                got = 1
            except ValueError:
                got = 0
            chk.count(("valid", c["n"] > 1 and c["n"] & (c["n"] - 1) == 0, c["r"] > 0, c["p"] > 0, got))
            chk.action("scrypt.validate")
            if [got] != outs[i]:
                chk.violation(f"scrypt:validate:{'accepts' if got else 'refuses'}", f"validate(n={c['n']}, r={c['r']}, p={c['p']}) {'accepts' if got else 'refuses'}; RFC 7914: {'valid' if outs[i][0] else 'invalid'}",
                              {"n": c["n"], "r": c["r"], "p": c["p"]})
    chk.traces += len(cases)


# ---------------------------------------------------------------------------------------------------------------
def part_hmac(chk, quick, rnd):
    from passlib.crypto.digest import compile_hmac, pbkdf1, pbkdf2_hmac, lookup_hash
    names = ["md5", "sha1", "sha224", "sha256", "sha384", "sha512", "sha3_256", "sha3_512", "blake2b", "blake2s", "ripemd160", "sm3", "sha512_256", "sha3_224", "sha3_384"]
    digs = []
    for n in names:
        try:
            h = hashlib.new(n)
            info = lookup_hash(n)
            if info.name != n and info.name.replace("-", "_") != n:
                continue
            digs.append((info.name, h.block_size, h.digest_size))
        except Exception:
            chk.uncovered.append(f"digest {n}: not available from hashlib on this host")
    if quick:
        digs = [d for d in digs if d[0] in ("md5", "sha1", "sha256", "sha512", "sha3_256", "blake2b", "sha384")]
    R = tlc.Raw
    dexpr = R("{" + ", ".join(f'<<"{a}", {b}, {c}>>' for a, b, c in digs) + "}")
    # lengths relative to block / digest size: <<multiplier, offset+1>>
    pwl = R("{<<0, 1>>, <<0, 2>>, <<1, 0>>, <<1, 1>>, <<1, 2>>, <<2, 1>>}")
    dkl = R("{<<0, 2>>, <<1, 0>>, <<1, 1>>, <<1, 2>>, <<2, 2>>}")
    r = tlc.run_instance("MC_Hmac", dict(Digests=dexpr, Rounds={1, 2, 3} if quick else {1, 2, 3, 10, 1000}, DkLens=dkl, PwLens=pwl), name="C11_hmac",
                         invariants=["InvCount"], coverage=False, timeout=3000, workers=8)
    chk.add_tlc("MC_Hmac: HMAC / PBKDF1 / PBKDF2 programs per shape", r)
    for e in r.emits:
        alg, kind = e["alg"], e["kind"]
        klen = e["klen"]
        key = bytes(rnd.randrange(256) for _ in range(klen))
        salt = bytes(rnd.randrange(256) for _ in range(rnd.choice([0, 1, 8, 16, 70])))
        msg = bytes(rnd.randrange(256) for _ in range(rnd.choice([0, 1, 63, 64, 65, 200])))
        chk.count((kind, alg, klen - e["B"], e["rounds"], e["dklen"] - e["hlen"]))
        chk.action(kind)
        try:
            if kind == "hmac":
                want = terms.run_program(e["prog"], {"key": key, "message": msg})
                if want != std_hmac.new(key, msg, alg).digest():
                    raise tlc.MachineryError(f"Hmac.tla disagrees with the stdlib for {alg} klen={klen}")
                got = compile_hmac(alg, key)(msg)
                upd, fin = compile_hmac(alg, key, multipart=True)()
                k = rnd.randrange(len(msg) + 1)
                upd(msg[:k])
                mid = fin()
                upd(msg[k:])
                got2 = fin()
                mid_want = std_hmac.new(key, msg[:k], alg).digest()
                if got != want or got2 != want or mid != mid_want:
                    chk.violation(f"hmac:{alg}:klen-B={klen - e['B']}", f"compile_hmac({alg}) with a {klen}-byte key: {got.hex()[:24]} / multipart {got2.hex()[:24]}, RFC 2104 {want.hex()[:24]}",
                                  {"digest": alg, "key": key.hex(), "message": msg.hex(), "split": k})
            elif kind == "pbkdf2":
                want = terms.run_program(e["prog"], {"password": key, "salt": salt})
                got = pbkdf2_hmac(alg, key, salt, e["rounds"], e["dklen"])
                if got != want:
                    chk.violation(f"pbkdf2:{alg}:dklen-h={e['dklen'] - e['hlen']}", f"pbkdf2_hmac({alg}, rounds={e['rounds']}, keylen={e['dklen']}) differs from RFC 8018",
                                  {"digest": alg, "password": key.hex(), "salt": salt.hex(), "rounds": e["rounds"], "keylen": e["dklen"], "library": got.hex(), "spec": want.hex()})
                if e["dklen"] == e["hlen"] and pbkdf2_hmac(alg, key, salt, e["rounds"]) != want:
                    chk.violation(f"pbkdf2:{alg}:default-keylen", "pbkdf2_hmac without keylen is not the digest size", {"digest": alg})
            else:
                want = terms.run_program(e["prog"], {"password": key, "salt": salt})
                try:
                    got = pbkdf1(alg, key, salt, e["rounds"], e["dklen"])
                except ValueError:
                    got = ("error", "ValueError")
                if got != want:
                    chk.violation(f"pbkdf1:{alg}:dklen-h={e['dklen'] - e['hlen']}", f"pbkdf1({alg}, rounds={e['rounds']}, keylen={e['dklen']}) differs from RFC 8018",
                                  {"digest": alg, "password": key.hex(), "salt": salt.hex(), "rounds": e["rounds"], "keylen": e["dklen"], "library": repr(got), "spec": repr(want)})
        except terms.EvalError as ex:
            raise tlc.MachineryError(f"term evaluation failed: {ex}")
    chk.traces += len(r.emits)


# ---------------------------------------------------------------------------------------------------------------
PROHIBITED = [("A1", stringprep.in_table_a1), ("C21", stringprep.in_table_c21), ("C22", stringprep.in_table_c22), ("C3", stringprep.in_table_c3),
              ("C4", stringprep.in_table_c4), ("C5", stringprep.in_table_c5), ("C6", stringprep.in_table_c6), ("C7", stringprep.in_table_c7),
              ("C8", stringprep.in_table_c8), ("C9", stringprep.in_table_c9)]


def classify(ch):
    """class of one character per RFC 3454 tables (first matching prohibited table wins; the verdict is the same for all)"""
    if stringprep.in_table_b1(ch):
        return "B1"
    if stringprep.in_table_c12(ch):
        return "C12"
    if ch == " ":
        return "SP"
    for name, fn in PROHIBITED:
        if fn(ch):
            return name
    if stringprep.in_table_d1(ch):
        return "RAL"
    if stringprep.in_table_d2(ch):
        return "L"
    return "N"


def part_saslprep(chk, quick, rnd):
    from passlib.utils import saslprep
    # representatives: NFKC-stable characters of each class
    reps = {c: [] for c in ("B1", "C12", "SP", "L", "RAL", "N", "A1", "C21", "C22", "C3", "C4", "C5", "C6", "C7", "C8", "C9")}
    cps = list(range(0, 0x3000)) + list(range(0xD7F0, 0xE010)) + list(range(0xFDD0, 0xFE00)) + list(range(0xFFF0, 0x10010)) + list(range(0xE0000, 0xE0080)) + [0x10FFFF, 0x1D173, 0x2FFFE]
    for cp in cps:
        ch = chr(cp)
        c = classify(ch)
        if len(reps[c]) >= 12:
            continue
        if c in ("L", "RAL", "N", "SP") and unicodedata.normalize("NFKC", ch) != ch:
            continue
        if c in PROHIBITED and unicodedata.normalize("NFKC", ch) != ch:
            continue
        reps[c].append(ch)
    reps = {c: v for c, v in reps.items()}
    missing = [c for c, v in reps.items() if not v]
    if missing:
        raise tlc.MachineryError(f"no representative for classes {missing}")
    r = tlc.run_instance("MC_SaslPrep", dict(Mode="enum", MaxLen=3 if quick else 4), name="C11_saslprep", invariants=["InvClean", "InvIdem"], coverage=False, timeout=3000,
                         env={"TRACE_FILE": str(VERIF / "data" / "empty_list.json")})
    chk.add_tlc(f"MC_SaslPrep: all class strings up to length {3 if quick else 4}", r)
    emits = r.emits
    if not quick and len(emits) > 60000:
        emits = rnd.sample(emits, 60000)
    for e in emits:
        s = e["s"] if isinstance(e["s"], list) else []
        out = e["out"] if isinstance(e["out"], list) else []
        text = "".join(rnd.choice(reps[c]) for c in s)
        # an NFKC-unstable combination (composition across characters) is outside the abstraction: skip it
        mapped = "".join(" " if stringprep.in_table_c12(ch) else ch for ch in text if not stringprep.in_table_b1(ch))
        if unicodedata.normalize("NFKC", mapped) != mapped:
            continue
        chk.count(("saslprep", tuple(s)))
        chk.action("saslprep")
        try:
            got = ["ok", saslprep(text)]
        except ValueError:
            got = ["ValueError", None]
        except Exception as ex:
            got = [type(ex).__name__, None]
        want = [e["res"], mapped if e["res"] == "ok" else None]
        if got != want:
            chk.violation(f"saslprep:{'-'.join(s)}", f"saslprep of a string of classes {s} gave {got}, RFC 4013 {want}", {"classes": s, "text": [hex(ord(c)) for c in text]})
    chk.traces += len(emits)
    # strings in which the MAPPING step enables a composition (a letter, an ignorable character, a combining mark): map, then NFKC
    # (trusted unicodedata), then the spec's checks on the class string of the normalised text
    tricky = ["e\u00ad\u0301", "a\u200b\u0308b", "o\u2060\u0302", "\u05d0\u200d\u05b7", "x\u00a0\u0301", "\u1680a\u00ad\u030a", "A\ufe00\u030a", "n\u180b\u0303o",
              "\u0627\u00ad\u0653\u0628", "e\u0301\u00ad", "\u00ade\u0301", "c\u200c\u0327\u0301"]
    tg = {}
    for text in tricky:
        mapped = "".join(" " if stringprep.in_table_c12(c) else c for c in text if not stringprep.in_table_b1(c))
        norm = unicodedata.normalize("NFKC", mapped)
        tg[text] = (tuple(classify(c) for c in norm), norm)
    wdt = tlc.WORK / "C11_sasl_tricky_in"
    wdt.mkdir(parents=True, exist_ok=True)
    tkeys = sorted({k for k, _ in tg.values() if k})
    (wdt / "groups.json").write_text(json.dumps([list(k) for k in tkeys]))
    rt = tlc.run_instance("MC_SaslPrep", dict(Mode="groups", MaxLen=0), name="C11_saslprep_tricky", coverage=False, timeout=3000, env={"TRACE_FILE": str(wdt / "groups.json")})
    chk.add_tlc("MC_SaslPrep: verdicts for strings whose mapping enables a composition", rt)
    tv = {tuple(e["s"]): e["res"] for e in rt.emits}
    tv[()] = "ok"
    for text, (key, norm) in tg.items():
        chk.count(("saslprep-tricky", key))
        chk.action("saslprep")
        try:
            got = ["ok", saslprep(text)]
        except ValueError:
            got = ["ValueError", None]
        except Exception as ex:
            got = [type(ex).__name__, None]
        want = [tv[key], norm if tv[key] == "ok" else None]
        if got != want:
            chk.violation("saslprep:map-then-normalise", f"saslprep of {[hex(ord(c)) for c in text]} gave {got}, RFC 4013 (map, then NFKC) gives {want}", {"text": [hex(ord(c)) for c in text]})
    # every code point singly (thorough: all; quick: a stride) - grouped by the class string of the mapped+normalised text
    groups = {}
    step = 1 if not quick else 7
    for cp in list(range(0, 0x110000, step)) + [0x00AD, 0x1806, 0x200B, 0x2060, 0xFEFF, 0x00A0, 0x1680, 0x2000, 0x3000, 0x0340, 0x0341, 0x200E, 0x200F, 0x202A, 0x206A, 0xFFF9, 0xE0001]:
        ch = chr(cp)
        mapped = "".join(" " if stringprep.in_table_c12(c) else c for c in ch if not stringprep.in_table_b1(c))
        norm = unicodedata.normalize("NFKC", mapped)
        key = tuple(classify(c) for c in norm)
        groups.setdefault(key, []).append((cp, norm))
    keys = sorted(groups)
    wd = tlc.WORK / "C11_sasl_in"
    wd.mkdir(parents=True, exist_ok=True)
    (wd / "groups.json").write_text(json.dumps([list(k) for k in keys if k]))
    r = tlc.run_instance("MC_SaslPrep", dict(Mode="groups", MaxLen=0), name="C11_saslprep_cp", coverage=False, timeout=3000, env={"TRACE_FILE": str(wd / "groups.json")})
    chk.add_tlc(f"MC_SaslPrep: verdicts for the {len(keys)} class strings that single code points normalise to", r)
    verdict = {tuple(e["s"]): e["res"] for e in r.emits}
    verdict[()] = "ok"
    n = 0
    for key in keys:
        for cp, norm in groups[key]:
            n += 1
            try:
                got = ["ok", saslprep(chr(cp))]
            except ValueError:
                got = ["ValueError", None]
            except Exception as ex:
                got = [type(ex).__name__, None]
            want = [verdict[key], norm if verdict[key] == "ok" else None]
            if got != want:
                chk.violation(f"saslprep:codepoint:{'-'.join(key)}:{got[0]}", f"saslprep(U+{cp:04X}) gave {got}, RFC 4013 {want} (normalises to classes {list(key)})", {"codepoint": cp})
        chk.count(("saslprep-cp", key))
    chk.evaluations += n
    chk.extra["saslprep_codepoints"] = n


# ---------------------------------------------------------------------------------------------------------------
def run(chk):
    warnings.simplefilter("ignore")
    quick = chk.tier == "quick"
    rnd = random.Random(chk.seed)
    chk.rule = ("one case = one evaluation of a primitive on chosen input compared with the value TLC computed from the standard's text (MD4, scrypt core, SASLprep) "
                "or with the standard's program evaluated over hashlib's plain hash (HMAC, PBKDF); object histories count one case per step. "
                "non-trivial = distinct (primitive, size class / parameters / class string)")
    part_md4(chk, quick, rnd)
    part_scrypt(chk, quick, rnd)
    part_hmac(chk, quick, rnd)
    part_saslprep(chk, quick, rnd)
    from . import c11_des
    c11_des.run(chk, quick, rnd)
    from . import x_hashnames
    x_hashnames.run(chk, quick, rnd)
    chk.assumptions += ["hashlib's plain hash constructors, hashlib.pbkdf2_hmac, hashlib.scrypt (OpenSSL) and the stdlib hmac are trusted; Python's stringprep/unicodedata tables are trusted",
                        "Md4.tla is self-tested against the RFC 1320 vectors, Salsa.tla against the RFC 7914 vector and OpenSSL scrypt before it is used as an oracle"]


def replay(chk, path):
    v = json.loads(open(path).read())
    print(json.dumps(v["detail"], indent=1)[:3000])
    return 1
