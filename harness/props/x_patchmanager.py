"""Extension beyond the listed properties: passlib.ext.django's _PatchManager against spec/PatchManager.tla
(run as part of the C17 check: the Django-extension presets are C17's subject; evidence lists it under `extensions`)."""
from __future__ import annotations

import types
import warnings

from .. import tlc


def run(chk, quick, rnd):
    try:
        from passlib.ext.django.utils import _PatchManager
    except Exception as ex:
        chk.uncovered.append(f"ext.django _PatchManager: {type(ex).__name__}: {ex}"[:120])
        return
    consts = dict(Paths={"a", "b"}, Values={"v1", "v2"}, MaxOps=4 if quick else 5, DoEmit=False)
    r = tlc.run_instance("PatchManager", consts, name="C17_patchmgr_mc", properties=["RestoreExact", "KeepForeign", "OriginalKept"], action_constraint="Emit", coverage=False, timeout=900)
    chk.add_tlc("PatchManager exhaustive (2 resources, 2 values): restore exact, foreign values kept, original captured once", r)
    nb = 300 if quick else 3000
    r = tlc.run_instance("PatchManager", dict(consts, MaxOps=8, DoEmit=True), name="C17_patchmgr_sim", action_constraint="Emit", next="SimNext",
                         simulate=f"num={nb}", depth=8, seed=chk.seed + 11, workers=1, coverage=False, timeout=900)
    chk.add_tlc(f"PatchManager simulation ({nb} histories)", r)
    behs, cur = [], None
    for e in r.emits:
        if e["n"] == 0:
            cur = []
            behs.append(cur)
        cur.append(e)
    import sys
    vals = {"orig": lambda: "orig", "v1": lambda: "v1", "v2": lambda: "v2"}       # callables, as the manager patches functions
    for b in behs:
        mod = types.ModuleType("verif_patch_target")
        sys.modules["verif_patch_target"] = mod
        for p, v in b[0]["init"].items():
            if v != "unset":
                setattr(mod, p, vals[v])
        mgr = _PatchManager()
        hist = []
        for st in b:
            op, p, v, c = st["op"], st["p"], st["v"], st["c"]
            path = f"verif_patch_target:{p}"
            with warnings.catch_warnings(record=True) as ws:
                warnings.simplefilter("always")
                try:
                    if op == "patch":
                        mgr.patch(path, vals[v])
                    elif op == "external":
                        setattr(mod, p, vals[v])
                    elif op == "unpatch":
                        mgr.unpatch(path, unpatch_conflicts=c)
                    else:
                        mgr.unpatch_all(unpatch_conflicts=c)
                    err = None
                except Exception as ex:
                    err = f"{type(ex).__name__}: {ex}"
            hist.append({k: st[k] for k in ("op", "p", "v", "c")})
            chk.count(("patchmgr", op, st["conflict"], c))
            chk.action("patchmgr." + op)
            have = {q: (getattr(mod, q)() if hasattr(mod, q) else "unset") for q in st["slot"]}
            warned = any("patched" in str(w.message) for w in ws)
            if err or have != st["slot"] or bool(mgr.isactive()) != st["active"] or (st["conflict"] and not warned):
                chk.violation(f"ext-django-patchmanager:{op}", f"_PatchManager after {op}: slots {have} (spec {st['slot']}), active {mgr.isactive()} (spec {st['active']}), "
                              f"conflict warning {warned} (spec {st['conflict']}), error {err}", {"history": hist})
                break
        chk.traces += 1
    sys.modules.pop("verif_patch_target", None)
