"""C07 - hash strings parse and re-render without loss.

spec/HashFormat.tla + MC_HashFormat.tla.
 1. TLC: per grammar family (facts extracted from the hasher: idents, cost range and elided default, salt, hex-case
    normalisation, padding-bit repair) and every structured value x (ident x cost incl. implicit/explicit default x salt
    class x digest present/absent x spelling): Parse(Render(x)) reports the settings used, Render(Parse(s)) is the
    canonical spelling, canonical texts are fixed points.
 2. S->I: every enumerated x is concretised on the real hasher (real salt of the class's size, real digest obtained
    by hashing with exactly those settings), spelled as the form says (hex case swapped, padding bits set, default cost
    written out) and fed as str and ASCII bytes to from_string().to_string(), parsehash() and verify(); the prefix-wrapped
    LDAP/Django hashers go through the same path; libpass inspect_* / PHC records are round-tripped on the same strings.
"""
from __future__ import annotations

import json
import random
import warnings

from .. import tlc

INVS = ["InvCanonIdempotent", "InvSettings", "InvFixedPoint", "InvElision"]
IMPLICIT, NOCOST = -1, -2
HEX = set("0123456789abcdefABCDEF")
ELIDED = {"sha256_crypt": 5000, "sha512_crypt": 5000, "ldap_sha256_crypt": 5000, "ldap_sha512_crypt": 5000, "dlitz_pbkdf2_sha1": 400}
HEXNORM = {"hex_md4", "hex_md5", "hex_sha1", "hex_sha256", "hex_sha512", "ldap_hex_md5", "ldap_hex_sha1", "lmhash", "nthash", "msdcc", "msdcc2", "mysql323",
           "mysql41", "mssql2000", "mssql2005", "oracle10", "bsd_nthash", "cisco_type7", "grub_pbkdf2_sha512"}
PADREPAIR = {"bcrypt", "ldap_bcrypt", "django_bcrypt"}
#: hashers that wrap bcrypt and so inherit its padding-bit repair (position differs: a separator precedes the digest)
PADREPAIR_WRAPPED = {"bcrypt_sha256": 32, "django_bcrypt_sha256": 31}
PW = "p\xe4ss"


def family(name, h):
    w = getattr(h, "wrapped", h)
    has_rounds = "rounds" in h.setting_kwds
    rounds = set()
    if has_rounds:
        mn = w.min_rounds
        cheap = {mn, mn + 1} if w.rounds_cost == "log2" else {max(mn, 1), max(mn, 1) + 1, max(mn, 10), max(mn, 16)}
        if name == "scrypt":
            cheap = {1, 2}
        if name in ELIDED:
            cheap |= {ELIDED[name], ELIDED[name] - 1, ELIDED[name] + 1}
        rounds = {r for r in cheap if r >= mn and (not w.max_rounds or r <= w.max_rounds)}
    idents = tuple(getattr(w, "ident_values", None) or ("",))
    if name == "bcrypt_sha256":
        idents = tuple(i for i in idents if i in ("$2a$", "$2b$"))
    return dict(name=name, idents=set(idents), hasRounds=has_rounds, elided=ELIDED.get(name, NOCOST), hasSalt="salt" in h.setting_kwds and name not in ("cisco_type7",),
                hexnorm=name in HEXNORM, padrepair=name in PADREPAIR, altb64=name in ALTB64, rounds=rounds)


#: hashers whose salt and digest fields are "adapted base64" (documented to read the standard '+' as well as '.')
ALTB64 = {"pbkdf2_sha1", "pbkdf2_sha256", "pbkdf2_sha512", "ldap_pbkdf2_sha1", "ldap_pbkdf2_sha256", "ldap_pbkdf2_sha512"}


def fam_expr(f):
    return ('[name |-> "%s", idents |-> %s, hasRounds |-> %s, elided |-> %s, hasSalt |-> %s, hexnorm |-> %s, padrepair |-> %s, altb64 |-> %s, rounds |-> %s]'
            % (f["name"], tlc.tla_val(f["idents"]), str(f["hasRounds"]).upper(), "NoCost" if f["elided"] == NOCOST else f["elided"],
               str(f["hasSalt"]).upper(), str(f["hexnorm"]).upper(), str(f["padrepair"]).upper(), str(f["altb64"]).upper(),
               "{" + ", ".join(map(str, sorted(f["rounds"]))) + "}"))


def swapcase_hex(s, prefix_len=0):
    body = s[prefix_len:]
    out = "".join((c.upper() if c.islower() else c.lower()) if c in HEX and c.isalpha() else c for c in body)
    return s[:prefix_len] + out


def concretise(name, h, f, x, rnd, jitter=False):
    """-> (text as spelled by x.form, canonical text, settings used) or None when the value cannot be made on this hasher"""
    w = getattr(h, "wrapped", h)
    kw = {}
    ctx = {}
    if "user" in h.context_kwds:
        ctx["user"] = "user"
    if "realm" in h.context_kwds:
        ctx["realm"] = "realm"
    eff = None
    if f["hasRounds"]:
        eff = f["elided"] if x["rounds"] == IMPLICIT else x["rounds"]
        if jitter and x["rounds"] != IMPLICIT and eff != f["elided"] and w.rounds_cost == "linear" and name not in ("scrypt",):
            # thorough tier: other explicit costs of the same class (not the elided default)
            lo = max(w.min_rounds, 1)
            eff = rnd.choice([c for c in (lo + rnd.randrange(0, 3000), lo + rnd.randrange(0, 50), lo + 9, lo + 99, lo + 999) if c != f["elided"] and (not w.max_rounds or c <= w.max_rounds)] or [eff])
        kw["rounds"] = eff
    if f["hasSalt"] and getattr(w, "max_salt_size", 1) != 0:
        mn, mx = w.min_salt_size, w.max_salt_size
        size = {"min": mn, "mid": w.default_salt_size, "max": mx if mx and mx <= 64 else max(w.default_salt_size, 16)}[x["salt"]]
        if "salt_size" in h.setting_kwds:
            kw["salt_size"] = size
        elif x["salt"] != "mid":
            return None
    if x["ident"]:
        kw["ident"] = x["ident"]
    if x["chk"] == "none":
        return None                      # config-only strings are exercised through genconfig below
    try:
        s = h.using(**kw).hash(PW, **ctx)
    except Exception:
        return None
    used = dict(kw)
    used["eff_rounds"] = (eff | 1) if name.endswith("bsdi_crypt") else eff          # bsdi forces generated costs odd
    canon = s
    form = x["form"]
    text = s
    if form == "explicit":
        if name.endswith("sha256_crypt") or name.endswith("sha512_crypt"):
            pre = s.index("$", 1) + 3 if False else None
            # $5$salt$chk -> $5$rounds=5000$salt$chk
            i = s.index("$5$") + 3 if "$5$" in s else s.index("$6$") + 3
            if "rounds=" in s:
                return None
            text = s[:i] + f"rounds={eff}$" + s[i:]
        elif name == "dlitz_pbkdf2_sha1":
            if not s.startswith("$p5k2$$"):
                return None
            text = "$p5k2$%x$" % eff + s[len("$p5k2$$"):]
        else:
            return None
        canon = text                      # a distinct valid spelling: kept as it is
    elif form == "altb64":
        parts = s.split("$")
        if len(parts) < 3 or "." not in parts[-1] + parts[-2]:
            return None
        parts[-1], parts[-2] = parts[-1].replace(".", "+"), parts[-2].replace(".", "+")
        text = "$".join(parts)
    elif form == "uphex":
        plen = 0
        for pre in ("0x0100", "{MD5}", "{SHA}", "md5", "*", "$3$$", "S:"):
            if s.startswith(pre):
                plen = len(pre)
        if name == "grub_pbkdf2_sha512":
            plen = len(s) - len(".".join(s.split(".")[4:]))
        text = swapcase_hex(s, plen)
        if text == s:
            return None
    elif form == "dirtypad":
        body = s[len(s) - 53:] if not hasattr(h, "wrapped") else s[len(s) - 53:]
        salt_last = len(s) - 31 - 1
        from passlib.utils.binary import bcrypt64
        c = s[salt_last]
        idx = bcrypt64.charmap.index(c)
        if idx & 15:
            return None
        text = s[:salt_last] + bcrypt64.charmap[idx | rnd.choice([1, 5, 15])] + s[salt_last + 1:]
        # the digest (31 digits for 184 bits) ends in two unused bits as well: documented as repaired in the same way
        didx = bcrypt64.charmap.index(s[-1])
        if didx & 3 == 0 and rnd.random() < .5:
            text = s[:-1] + bcrypt64.charmap[didx | rnd.choice([1, 2, 3])]
    elif x["rounds"] == IMPLICIT and "rounds=" in s:
        return ("generated-not-elided", s, used)
    return text, canon, used, ctx, s


#: formats whose configuration string is "the hash up to and including the separator before the digest" (crypt(3) style "$id$salt$")
CONFIG_TRAILING_SEP = {"md5_crypt", "apr_md5_crypt", "sha256_crypt", "sha512_crypt", "ldap_md5_crypt", "ldap_sha256_crypt", "ldap_sha512_crypt", "django_salted_sha1",
                       "django_salted_md5", "sun_md5_crypt", "sha1_crypt"}


def config_of(name, h, text):
    if name not in CONFIG_TRAILING_SEP or "$" not in text:
        return None
    return text[: text.rindex("$") + 1]


def run(chk):
    warnings.simplefilter("ignore")
    quick = chk.tier == "quick"
    rnd = random.Random(chk.seed)
    from passlib import registry
    chk.rule = ("one case = one structured value TLC enumerated for a hasher's family, concretised and passed through from_string/to_string, "
                "parsehash and verify as str and bytes; non-trivial = distinct (hasher, ident, cost class, salt class, spelling)")
    fams = {}
    for name in sorted(registry.list_crypt_handlers()):
        try:
            h = registry.get_crypt_handler(name)
            if hasattr(h, "has_backend") and not h.has_backend():
                chk.uncovered.append(f"{name}: no backend")
                continue
            if name in ("unix_disabled", "django_disabled", "plaintext", "ldap_plaintext", "roundup_plaintext"):
                continue
            fams[name] = (h, family(name, h))
        except Exception as e:
            chk.uncovered.append(f"{name}: {type(e).__name__}")
    expr = tlc.Raw("{" + ", ".join(fam_expr(f) for _, f in fams.values()) + "}")
    r = tlc.run_instance("MC_HashFormat", dict(Fams=expr, DoEmit=True), name="C07_mc", invariants=INVS, action_constraint="Emit", workers=1,
                         coverage=False, timeout=1800)
    chk.add_tlc(f"MC_HashFormat exhaustive over {len(fams)} extracted families", r)
    emits = r.emits
    if quick:
        rnd.shuffle(emits)
        per = {}
        sel = []
        for e in emits:
            k = (e["fam"], e["x"]["form"])
            if per.get(k, 0) < 30:
                per[k] = per.get(k, 0) + 1
                sel.append(e)
        emits = sel
    done = 0
    if not quick:
        emits = [dict(e, _rep=k) for e in emits for k in range(5)]
    for e in emits:
        name = e["fam"]
        h, f = fams[name]
        x = e["x"]
        c = concretise(name, h, f, x, rnd, jitter=e.get("_rep", 0) > 0)
        if c is None:
            continue
        if c[0] == "generated-not-elided":
            chk.violation(f"{name}:generated-default-not-elided", f"{name}: a hash made with the default cost spells the cost out: {c[1]}", {"hash": c[1]})
            continue
        text, canon, used, ctx, generated = c
        done += 1
        chk.count((name, x["ident"], "implicit" if x["rounds"] == IMPLICIT else ("elided-explicit" if x["form"] == "explicit" else "cost"), x["salt"], x["form"]))
        chk.action(x["form"])
        w = getattr(h, "wrapped", h)
        detail = {"hasher": name, "abstract": x, "text": text, "canonical": canon, "settings": {k: v for k, v in used.items()}}
        for as_bytes in (False, True):
            src = text.encode("ascii") if as_bytes else text
            tag = "bytes" if as_bytes else "str"
            try:
                if hasattr(h, "wrapped"):
                    back = h._wrap_hash(w.from_string(h._unwrap_hash(text)).to_string()) if not as_bytes else None
                elif not hasattr(h, "from_string"):
                    back = None
                else:
                    back = h.from_string(src).to_string()
            except Exception as ex:
                chk.violation(f"{name}:from_string:{x['form']}:{type(ex).__name__}", f"{name}.from_string({tag}) of a {x['form']} spelling raised {type(ex).__name__}: {ex}", detail)
                break
            if back is not None and back not in (canon, text, generated):        # equal to the original, or to its canonical form
                chk.violation(f"{name}:rerender:{x['form']}", f"{name}: re-rendered text differs from the canonical spelling: {back!r}", detail)
                break
            try:
                # (the prefix wrappers do not expose the experimental parsehash(); the wrapped hasher is asked instead)
                ph = (h.parsehash(src) if hasattr(h, "parsehash") else {}) if not hasattr(h, "wrapped") else w.parsehash(h._unwrap_hash(text))
            except Exception as ex:
                chk.violation(f"{name}:parsehash:{type(ex).__name__}", f"{name}.parsehash({tag}) raised {type(ex).__name__}: {ex}", detail)
                break
            if f["hasRounds"] and ph.get("rounds") != used["eff_rounds"]:
                chk.violation(f"{name}:parsehash:rounds", f"{name}.parsehash reports rounds={ph.get('rounds')}, hash was made with {used['eff_rounds']}", detail)
                break
            import passlib.utils.handlers as _uh
            if "salt_size" in used and ph.get("salt") is not None and not issubclass(w, _uh.HasRawSalt) and name != "scrypt" and len(ph["salt"]) != used["salt_size"]:
                chk.violation(f"{name}:parsehash:salt", f"{name}.parsehash reports a salt of {len(ph['salt'])}, hash was made with salt_size={used['salt_size']}", detail)
                break
            if x["ident"] and "ident" in ph and ph["ident"] != x["ident"]:
                chk.violation(f"{name}:parsehash:ident", f"{name}.parsehash reports ident {ph['ident']!r}, used {x['ident']!r}", detail)
                break
            try:
                ok = h.verify(PW, src, **ctx) is True and h.verify(PW + "x", src, **ctx) is False
            except Exception as ex:
                ok = f"{type(ex).__name__}: {ex}"
            if ok is not True:
                chk.violation(f"{name}:verify:{x['form']}", f"{name}: the {x['form']} spelling does not verify exactly its password ({ok})", detail)
                break
            if not as_bytes and hasattr(h, "genhash"):
                # history: another password is tried against the string with genhash(); the string itself must read as before
                try:
                    other = h.genhash(PW + "x", text, **ctx)
                    again = h.verify(PW, text, **ctx) is True and h.verify(PW + "x", text, **ctx) is False
                    back2 = None if (hasattr(h, "wrapped") or not hasattr(h, "from_string")) else h.from_string(text).to_string()
                except Exception as ex:
                    chk.violation(f"{name}:genhash-then-parse:{type(ex).__name__}", f"{name}: genhash(other password, hash) / re-parsing raised {type(ex).__name__}: {ex}", detail)
                    break
                if not again or (back2 is not None and back2 not in (canon, text, generated)) or other == text:
                    chk.violation(f"{name}:genhash-then-parse", f"{name}: after genhash(other password, hash) the same string verifies / re-renders differently ({again}, {back2!r})", detail)
                    break
                # the configuration part alone (the hash without its digest) reproduces the hash
                cfg = config_of(name, h, text)
                if cfg is not None:
                    try:
                        redo = h.genhash(PW, cfg, **ctx)
                    except Exception as ex:
                        redo = f"{type(ex).__name__}: {ex}"
                    if redo not in (text, canon, generated):
                        chk.violation(f"{name}:config-string", f"{name}: genhash(password, {cfg!r}) - the hash without its digest - gives {str(redo)[:80]!r} instead of the hash", detail)
                        break
        chk.traces += 1
    # libpass inspection helpers and PHC records on real strings
    from libpass.inspect.sha_crypt import inspect_sha_crypt, SHA256CryptInfo, SHA512CryptInfo
    from libpass.inspect.pbkdf2 import inspect_pbkdf2_hash, PBKDF2SHA256CryptInfo, PBKDF2SHA512CryptInfo
    from libpass.inspect.bcrypt import inspect_bcrypt_hash
    from libpass.inspect.phc import inspect_phc
    from libpass.inspect.phc.defs import BcryptSHA256PHCV2
    import passlib.hash as H
    cases = []
    for rounds in (1000, 5000, 5001):
        for size in (1, 8, 16):
            cases.append(("inspect_sha_crypt/256", H.sha256_crypt.using(rounds=rounds, salt_size=size).hash(PW), lambda s: inspect_sha_crypt(s, SHA256CryptInfo)))
            cases.append(("inspect_sha_crypt/512", H.sha512_crypt.using(rounds=rounds, salt_size=size).hash(PW), lambda s: inspect_sha_crypt(s, SHA512CryptInfo)))
    for rounds in (1, 29000):
        for size in (1, 16, 40):
            cases.append(("inspect_pbkdf2/256", H.pbkdf2_sha256.using(rounds=rounds, salt_size=size).hash(PW) if rounds == 1 else
                          H.pbkdf2_sha256.using(rounds=2, salt_size=size).hash(PW), lambda s: inspect_pbkdf2_hash(s, PBKDF2SHA256CryptInfo)))
            cases.append(("inspect_pbkdf2/512", H.pbkdf2_sha512.using(rounds=2, salt_size=size).hash(PW), lambda s: inspect_pbkdf2_hash(s, PBKDF2SHA512CryptInfo)))
    # both spellings of the default cost are valid and must be kept as written
    for size in (1, 16):
        for hh, cls, lab in ((H.sha256_crypt, SHA256CryptInfo, "256"), (H.sha512_crypt, SHA512CryptInfo, "512")):
            s0 = hh.using(rounds=5000, salt_size=size).hash(PW)
            i0 = 3
            cases.append((f"inspect_sha_crypt/{lab}/explicit-default", s0[:i0] + "rounds=5000$" + s0[i0:], lambda s, cls=cls: inspect_sha_crypt(s, cls)))
    for ident in ("2a", "2b", "2y"):
        for rounds in (4, 5):
            cases.append(("inspect_bcrypt", H.bcrypt.using(rounds=rounds, ident=ident).hash(PW), inspect_bcrypt_hash))
    for rounds in (4, 5):
        cases.append(("inspect_phc/bcrypt-sha256", H.bcrypt_sha256.using(rounds=rounds).hash(PW), lambda s: inspect_phc(s, BcryptSHA256PHCV2)))
    try:
        import bcrypt as _bc
        from libpass.hashers.bcrypt import BcryptSHA256Hasher, BcryptHasher
        for hs_cost, salt_cost in ((5, 4), (4, 5), (5, 5)):
            for cls, insp in ((BcryptSHA256Hasher, lambda s: inspect_phc(s, BcryptSHA256PHCV2)), (BcryptHasher, inspect_bcrypt_hash)):
                hsr = cls(rounds=hs_cost)
                made = hsr.hash(PW, salt=_bc.gensalt(salt_cost))
                info = insp(made)
                chk.count(("libpass-explicit-salt", cls.__name__, hs_cost, salt_cost))
                chk.action("libpass-inspect")
                used = getattr(info, "rounds", None)
                ok = hsr.verify(made, PW) and not hsr.verify(made, PW + "x") and (H.bcrypt_sha256 if cls is BcryptSHA256Hasher else H.bcrypt).verify(PW, made)
                if used != salt_cost or not ok or info.as_str() != made:
                    chk.violation(f"libpass:{cls.__name__}:explicit-salt", f"{cls.__name__}(rounds={hs_cost}).hash(pw, salt of cost {salt_cost}) made {made}: inspection reports cost {used}, verifies: {ok}",
                                  {"hash": made, "hasher_rounds": hs_cost, "salt_cost": salt_cost})
    except ImportError as ex:
        chk.uncovered.append(f"libpass bcrypt hashers: {ex}")
    for label, s, fn in cases:
        chk.count(("libpass", label, len(s)))
        chk.action("libpass-inspect")
        try:
            info = fn(s)
            back = info.as_str() if info is not None else None
        except Exception as ex:
            back = f"{type(ex).__name__}: {ex}"
        if back != s:
            chk.violation(f"libpass:{label}:roundtrip", f"libpass {label}: as_str() of the inspected hash gives {back!r} instead of the original", {"hash": s, "back": back})
    extra_variants(chk, rnd)
    chk.extra["values_concretised"] = done
    chk.assumptions += ["grammar facts (idents, cost range, elided default) are extracted from the hasher; which families normalise hex case / repair padding bits comes from the documentation",
                        "config-only (digest-less) strings are not concretised"]


def extra_variants(chk, rnd):
    """format-specific settings outside HashFormat.tla's common value space: every combination is generated / constructed, parsed and rendered"""
    import passlib.hash as H
    # sun_md5_crypt: bare-salt flag x explicit rounds
    for bare in (False, True):
        for rounds in (0, 1, 77):
            for size in (1, 8):
                chk.count(("sun_md5_crypt", bare, rounds, size))
                chk.action("roundtrip")
                try:
                    salt = "abcdefgh"[:size]
                    cfg = ("$md5$" if rounds == 0 else f"$md5,rounds={rounds}$") + salt + ("" if bare else "$")
                    o = H.sun_md5_crypt.from_string(cfg)
                    o.checksum = o._calc_checksum(PW)
                    s = o.to_string()
                    if not s.startswith(cfg):
                        raise ValueError(f"configuration {cfg} is rendered as {s}")
                    o = H.sun_md5_crypt.from_string(s)
                    back = o.to_string()
                    facts = (o.bare_salt, o.rounds, len(o.salt))
                    ok = H.sun_md5_crypt.verify(PW, s) and H.sun_md5_crypt.verify(PW, s.encode()) and not H.sun_md5_crypt.verify("X" + PW, s)
                except Exception as ex:
                    chk.violation(f"sun_md5_crypt:variant:{type(ex).__name__}", f"sun_md5_crypt(bare_salt={bare}, rounds={rounds}) raised {type(ex).__name__}: {ex}", {"bare_salt": bare, "rounds": rounds})
                    continue
                if back != s or facts != (bare, rounds, size) or not ok:
                    chk.violation("sun_md5_crypt:variant:roundtrip", f"sun_md5_crypt(bare_salt={bare}, rounds={rounds}, salt_size={size}) made {s}; re-rendered {back}; parsed (bare, rounds, salt size) = {facts}; verifies: {ok}",
                                  {"hash": s, "rendered": back, "parsed": list(facts)})
    # fshp: the variant given to using() - as a number, a digit string or an algorithm name - is the one a hash carries
    for v, num in ((0, 0), (1, 1), (2, 2), (3, 3), ("0", 0), ("3", 3), ("sha1", 0), ("sha256", 1), ("sha384", 2), ("sha512", 3)):
        chk.count(("fshp-variant", str(v)))
        chk.action("roundtrip")
        try:
            s = H.fshp.using(variant=v, rounds=1).hash(PW)
            ph = H.fshp.parsehash(s)
            ok = s.startswith("{FSHP%d|" % num) and H.fshp.from_string(s).variant == num and H.fshp.from_string(s).to_string() == s and H.fshp.verify(PW, s)
        except Exception as ex:
            chk.violation(f"fshp:variant:{type(ex).__name__}", f"fshp.using(variant={v!r}) raised {type(ex).__name__}: {ex}", {"variant": v})
            continue
        if not ok:
            chk.violation("fshp:variant:not-carried", f"fshp.using(variant={v!r}).hash() gives {s[:20]}.., which does not carry variant {num}", {"variant": v, "hash": s, "parsehash": str(ph)})
    # libpass PHC records at the size limits of the format (salt 11..64 characters, hash 16..86 characters): inspect, render, compare
    try:
        import base64 as _b64
        from libpass.inspect.phc import inspect_phc
        from libpass.inspect.phc.defs import Argon2PHC, BcryptSHA256PHCV2
        def b64n(n):
            return _b64.b64encode(bytes(range(n))).decode().rstrip("=")
        for k, (sl, hl) in enumerate(((8, 12), (9, 13), (16, 32), (47, 63), (48, 64), (8, 64), (48, 12), (33, 48), (16, 32), (16, 32))):
            aid = ("argon2id", "argon2i", "argon2d")[k % 3]          # every identifier the record definition lists
            text = f"${aid}$v=19$m=65536,t=3,p=4${b64n(sl)}${b64n(hl)}"
            chk.count(("phc", sl, hl, aid))
            chk.action("libpass-inspect")
            try:
                rec = inspect_phc(text, Argon2PHC)
                back = rec.as_str() if rec is not None else None
                if rec is not None and getattr(rec, "id", aid) != aid:
                    back = f"record id {rec.id!r}"
            except Exception as ex:
                back = f"{type(ex).__name__}: {ex}"
            if back != text:
                chk.violation("libpass:inspect_phc:boundary", f"a PHC record with a {len(b64n(sl))}-character salt and a {len(b64n(hl))}-character hash: inspect_phc / as_str give {back!r}", {"text": text})
    except ImportError as ex:
        chk.uncovered.append(f"libpass PHC: {ex}")
    # scrypt: both idents over the whole range of the r and p fields (30-bit integers in the $7$ spelling); constructed, not hashed
    vals = [1, 2, 63, 64, 65, 4095, 4096, 2 ** 12 + 1, 2 ** 18 - 1, 2 ** 18, 2 ** 18 + 5, 2 ** 24 - 1, 2 ** 24, 2 ** 29 + 12345]
    for ident in ("$7$", "$scrypt$"):
        for r in vals:
            for p_ in (1, rnd.choice(vals)):
                if r * p_ >= 2 ** 30:
                    continue
                for ln in (1, 16, 31):
                    chk.count(("scrypt-fields", ident, r, p_ > 1, ln))
                    chk.action("roundtrip")
                    try:
                        o = H.scrypt(ident=ident, rounds=ln, block_size=r, parallelism=p_, salt=b"0123456789abcdef", checksum=bytes(range(32)))
                        s = o.to_string()
                        q = H.scrypt.from_string(s)
                        facts = (q.rounds, q.block_size, q.parallelism, q.salt, q.checksum)
                        back = q.to_string()
                        ph = H.scrypt.parsehash(s)
                    except Exception as ex:
                        chk.violation(f"scrypt:fields:{ident}:{type(ex).__name__}", f"scrypt {ident} with ln={ln}, r={r}, p={p_}: {type(ex).__name__}: {ex}", {"ident": ident, "r": r, "p": p_, "ln": ln})
                        continue
                    if facts != (ln, r, p_, b"0123456789abcdef", bytes(range(32))) or back != s or ph.get("block_size", 8) != r or ph.get("parallelism", 1) != p_:
                        chk.violation(f"scrypt:fields:{ident}:roundtrip", f"scrypt {ident} string for ln={ln}, r={r}, p={p_} parses back as ln={q.rounds}, r={q.block_size}, p={q.parallelism}; re-rendered equal: {back == s}",
                                      {"hash": s, "ident": ident, "r": r, "p": p_, "ln": ln})
    # configuration-only strings (settings and salt, no digest) of both scrypt spellings: accepted, and completed to the same hash
    for ident in ("$7$", "$scrypt$"):
        for r, p_ in ((1, 1), (8, 1), (2, 3)):
            chk.count(("scrypt-config-only", ident, r, p_))
            chk.action("roundtrip")
            try:
                full = H.scrypt.using(ident=ident, rounds=1, block_size=r, parallelism=p_, salt=b"saltsalt").hash(PW)
                cfg = full[:full.rindex("$")] if ident == "$7$" else full[:full.rindex("$") + 1]
                for form in (cfg, cfg.encode()):
                    got = H.scrypt.genhash(PW, form)
                    q = H.scrypt.from_string(form)
                    if got != full or (q.rounds, q.block_size, q.parallelism, q.salt, q.checksum) != (1, r, p_, b"saltsalt", None) or not H.scrypt.identify(form):
                        chk.violation(f"scrypt:config-only:{ident}", f"scrypt configuration string {cfg!r}: genhash gives {got!r} (the full hash is {full!r}), parsed as "
                                      f"ln={q.rounds}, r={q.block_size}, p={q.parallelism}, digest {q.checksum!r}", {"config": cfg, "full": full})
                        break
            except Exception as ex:
                chk.violation(f"scrypt:config-only:{ident}:{type(ex).__name__}", f"scrypt configuration-only string ({ident}, r={r}, p={p_}): {type(ex).__name__}: {ex}", {"ident": ident})
    # libpass PBKDF2 records with salts of every base64 tail class (length 0, 1, 2 mod 3): made, inspected (salt decodes back), verified
    try:
        from libpass.hashers.pbkdf2 import PBKDF2SHA256Handler, PBKDF2SHA512Handler
        from libpass.inspect.pbkdf2 import inspect_pbkdf2_hash, PBKDF2SHA256CryptInfo, PBKDF2SHA512CryptInfo
        from libpass._utils.deprecated import ab64_decode
        for cls, info in ((PBKDF2SHA256Handler, PBKDF2SHA256CryptInfo), (PBKDF2SHA512Handler, PBKDF2SHA512CryptInfo)):
            for n in (1, 2, 3, 5, 8, 16, 17, 20, 32):
                salt = bytes((7 * i + n) % 256 for i in range(n))
                chk.count(("libpass-pbkdf2-salt", cls.__name__, n % 3))
                chk.action("libpass-inspect")
                try:
                    hs = cls(rounds=1).hash(PW, salt=salt)
                    inf = inspect_pbkdf2_hash(hs, info)
                    back = ab64_decode(inf.salt) if isinstance(inf.salt, (str, bytes)) else inf.salt
                    ok = cls(rounds=1).verify(hs, PW)
                    ref = H.pbkdf2_sha256 if cls is PBKDF2SHA256Handler else H.pbkdf2_sha512
                    if back != salt or ok is not True or ref.using(salt=salt, rounds=1).hash(PW) != hs:
                        chk.violation(f"libpass:pbkdf2:salt{n % 3}mod3", f"{cls.__name__} with a {n}-byte salt: record {hs[:50]}.. inspects to salt {back!r}, verifies {ok}", {"hash": hs, "salt": salt.hex()})
                except Exception as ex:
                    chk.violation(f"libpass:pbkdf2:salt{n % 3}mod3:{type(ex).__name__}", f"{cls.__name__} with a {n}-byte salt: {type(ex).__name__}: {ex}", {"salt": salt.hex()})
    except ImportError as ex:
        chk.uncovered.append(f"libpass pbkdf2: {ex}")


def replay(chk, path):
    v = json.loads(open(path).read())
    print(json.dumps(v["detail"], indent=1)[:3000])
    return 1
