"""C16 - htpasswd/htdigest files stay a faithful user database under any edit history.

spec/HtFile.tla + MC_HtFile.tla.
 1. TLC: all operation sequences up to a bound from every initial content (comments, duplicates, malformed
    lines): export parses back to the records, each key once, comments kept, failed operations change nothing,
    untouched items keep their order, save makes the disk current.
 2. S->I: exhaustive short behaviours and long random behaviours of the model are replayed on real HtpasswdFile
    and HtdigestFile objects bound to a scratch file; after EVERY step the exported text and the disk file are
    parsed by an independent reader and compared with the spec state (records via independent verification of the
    hashes with libxcrypt / hashlib, each key once, order of untouched records and comments, return value).
"""
from __future__ import annotations

import hashlib
import json
import os
import random
import shutil
import tempfile
import warnings

from .. import tlc
from ..common import VERIF

INVS = ["InvReadBack", "InvOnce", "InvSkipsKept", "InvSavedIsCurrent", "InvCheck", "InvForeignStamp"]
PROPS = ["FailuresChangeNothing", "UntouchedOrder", "ForeignLoadForgets"]
COMMENTS = {1: b"# first comment\n", 2: b"   # indented comment \xc3\xa9\n", 3: b"# off:\rghost:opaquehashtext1\n"}      # (a bare CR does not end a line)
RAW = {"raw1": "opaquehashtext1", "raw2": "$opaque$2"}


def contents_expr():
    H, H2 = '[pw |-> "p1", gen |-> "new"]', '[pw |-> "p2", gen |-> "old"]'
    R = '[pw |-> "-", gen |-> "raw2"]'
    return tlc.Raw('{ <<>>, <<Rec("u1", %(H)s)>>, <<Skip(1), Rec("u1", %(H)s), Skip(2), Rec("u2", %(H2)s), Skip(3)>>, '
                   '<<Rec("u1", %(H)s), Rec("u1", %(H2)s), Rec("u2", %(H)s)>>, <<Rec("u2", %(R)s), Skip(1), Rec("u3", %(H2)s), Rec("u2", %(H)s)>>, '
                   '<<Rec("u1", %(H)s), BadLine>>, <<Skip(1), BadLine, Rec("u2", %(H)s)>> }' % dict(H=H, H2=H2, R=R))


class Gamma:
    """refinement map for one file class / encoding"""

    def __init__(self, kind, encoding, rnd):
        import legacycrypt
        self.crypt = legacycrypt.crypt
        self.kind, self.enc, self.rnd = kind, encoding, rnd
        # u2: sometimes a name with leading white space (legal: only ':' and line terminators are refused)
        u2 = rnd.choice(["b\xf6b", " b\xf6b", "\x0bb\xf6b", "b\xf6b"])
        if kind == "htpasswd":
            # u3: a name of exactly 255 bytes in this encoding (the longest admissible one)
            self.keys = {"u1": "alice", "u2": u2, "u3": ("\xe9" * 127 + "x") if encoding == "utf-8" else "\xe9" * 255}
        else:
            # u2: sometimes alice in the EMPTY realm (legal; distinct from the default realm "r1")
            self.keys = {"u1": ("alice", "r1"), "u2": rnd.choice([(u2, "r1"), ("alice", ""), (u2, "")]),
                         "u3": ("alice", ("\xe9" * 127 + " ") if encoding == "utf-8" else "r\xe9alm " * 31 + "1234567")}
        self.pws = {"p1": "p\xe4ssword1", "p2": "other pw"}
        # raw2: sometimes the EMPTY hash text (a record "user:" exists, is listed and exported; no password matches it)
        self.raw = dict(RAW, raw2=rnd.choice([RAW["raw2"], ""]))
        # refused names: separators, control characters, more than 255 BYTES (not characters)
        self.bad = ["al:ice", "a\nb", "a\rb", "a\tb", "a\x00b", "x" * 256,
                    "\xe9" * 128 if encoding == "utf-8" else "\xe9" * 256, "\xe9" * 200 if encoding == "utf-8" else "y" * 300]

    def enc_b(self, s):
        return s.encode(self.enc)

    # --- hashes ------------------------------------------------------------
    def make_hash(self, key, h):
        """real hash text for an abstract hash (used for initial contents and set_hash)"""
        if h["gen"].startswith("raw"):
            return self.raw[h["gen"]]
        pw = self.enc_b(self.pws[h["pw"]])
        if self.kind == "htdigest":
            u, r = self.keys[key]
            return hashlib.md5(self.enc_b(u) + b":" + self.enc_b(r) + b":" + pw).hexdigest()
        if h["gen"] == "old":
            return self.crypt(pw.decode("latin-1") if self.enc != "utf-8" else pw.decode(), "ab") if False else self._des(pw)
        return self._md5(pw)

    def _des(self, pw):
        from passlib.hash import des_crypt
        return des_crypt.using(salt="ab").hash(pw)

    def _md5(self, pw):
        from passlib.hash import md5_crypt
        return md5_crypt.using(salt="abcdefgh").hash(pw)

    def abstract(self, key, text):
        """abstract a real hash text (independent verification where the host allows it)"""
        for g, t in self.raw.items():
            if text == t:
                return {"pw": "-", "gen": g}
        for pn, pw in self.pws.items():
            pwb = self.enc_b(pw)
            if self.kind == "htdigest":
                u, r = self.keys[key]
                if text == hashlib.md5(self.enc_b(u) + b":" + self.enc_b(r) + b":" + pwb).hexdigest():
                    return {"pw": pn, "gen": "new"}
            else:
                try:
                    s = pwb.decode("utf-8")
                    ok = self.crypt(s, text) == text
                except UnicodeDecodeError:
                    from passlib.hash import md5_crypt, des_crypt   # latin-1 bytes: libxcrypt via python cannot take them
                    ok = (md5_crypt if text.startswith("$1$") else des_crypt).verify(pwb, text)
                if ok:
                    return {"pw": pn, "gen": "new" if text.startswith("$1$") else "old"}
        return {"pw": "?", "gen": text}

    def line(self, l):
        if l["t"] == "skip":
            return COMMENTS[l["x"]]
        if l["t"] == "bad":
            return b"malformed line without separator\n" if self.kind == "htpasswd" or self.rnd.random() < .5 else b"user:onlytwofields\n"
        k = self.keys[l["k"]]
        h = self.make_hash(l["k"], l["h"]).encode()
        if self.kind == "htpasswd":
            return self.enc_b(k) + b":" + h + b"\n"
        return self.enc_b(k[0]) + b":" + self.enc_b(k[1]) + b":" + h + b"\n"

    def content(self, c):
        data = b"".join(self.line(l) for l in c)
        # sometimes the last line has no line terminator (same content)
        return data[:-1] if data.endswith(b"\n") and self.rnd.random() < .4 else data

    # --- independent reader -------------------------------------------------
    def read(self, data):
        items, recs, counts = [], {}, {}
        inv = {v: k for k, v in self.keys.items()}
        pieces = data.split(b"\n")          # lines end at LF only (as Apache reads them); a bare CR is an ordinary character
        for raw in [x + b"\n" for x in pieces[:-1]] + ([pieces[-1]] if pieces[-1] else []):
            s = raw.strip()
            if not s:
                continue                                     # blank lines are not compared (see DESIGN)
            if s.startswith(b"#"):
                cid = next((i for i, c in COMMENTS.items() if c.strip() == s), None)
                items.append(("skip", cid if cid is not None else repr(raw)))
                continue
            parts = raw.rstrip(b"\r\n").split(b":")
            nf = 2 if self.kind == "htpasswd" else 3
            if len(parts) != nf:
                items.append(("malformed", repr(raw)))
                continue
            try:
                dec = [p.decode(self.enc) for p in parts]
            except UnicodeDecodeError:
                items.append(("undecodable", repr(raw)))
                continue
            k = dec[0] if nf == 2 else (dec[0], dec[1])
            mk = inv.get(k, repr(k))
            counts[mk] = counts.get(mk, 0) + 1
            items.append(("rec", mk))
            if mk not in recs:
                recs[mk] = self.abstract(mk, dec[-1]) if mk in self.keys else {"pw": "?", "gen": dec[-1]}
        return items, recs, counts


def make_object(G: Gamma, path, autosave):
    from passlib.apache import HtpasswdFile, HtdigestFile
    from passlib.context import CryptContext
    if G.kind == "htpasswd":
        ctx = CryptContext(schemes=["md5_crypt", "des_crypt"], deprecated=["des_crypt"])
        return HtpasswdFile(path, context=ctx, autosave=autosave, encoding=G.enc)
    # (sometimes with a default realm: explicit realms - the empty one included - must still be honoured)
    kw = {"default_realm": "r1"} if G.rnd.random() < .5 else {}
    return HtdigestFile(path, autosave=autosave, encoding=G.enc, **kw)


def call(G, f, st, path, stamp):
    """execute one model step on the real object; returns the result string"""
    op, arg = st["op"], st["arg"]
    rnd = G.rnd

    def K(mk):
        if mk not in G.keys:
            b = rnd.choice(G.bad)
            return (b,) if G.kind == "htpasswd" else rnd.choice([(b, "r1"), ("alice", b)])
        k = G.keys[mk]
        k = (k,) if G.kind == "htpasswd" else k
        return tuple(G.enc_b(x) for x in k) if rnd.random() < .35 else k

    def P(mp):
        p = G.pws[mp]
        return G.enc_b(p) if rnd.random() < .35 else p
    try:
        if op == "set_password":
            r = f.set_password(*K(arg[0]), P(arg[1]))
        elif op == "set_hash":
            h = G.make_hash(arg[0], arg[1])
            r = f.set_hash(*K(arg[0]), h.encode() if rnd.random() < .4 else h)
        elif op == "delete":
            r = f.delete(*K(arg[0]))
        elif op == "check_password":
            r = f.check_password(*K(arg[0]), P(arg[1]))
        elif op == "get_hash":
            r = f.get_hash(*K(arg[0]))
            if r is not None:
                r = ("Hash", r if isinstance(r, str) else r.decode(G.enc))
        elif op == "save":
            f.save()
            r = "ok"
        elif op == "save_copy":
            other = path + ".copy"
            f.save(other)
            r = "ok" if open(other, "rb").read() == f.to_string() else "copy-differs"
            os.unlink(other)
        elif op == "load":
            r = f.load()
        elif op == "load_if_changed":
            r = f.load_if_changed()
        elif op == "load_other":
            other = path + ".other"
            with open(other, "wb") as fh:
                fh.write(G.content(arg))
            try:
                r = f.load(other if rnd.random() < .7 else os.fsencode(other))
            finally:
                os.unlink(other)
        elif op == "load_string":
            data = G.content(arg)
            f.load_string(data if rnd.random() < .5 else data.decode(G.enc))
            r = "ok"
        elif op == "external_write":
            with open(path, "wb") as fh:
                fh.write(G.content(arg))
            stamp[0] += 7_000_000_000
            os.utime(path, ns=(stamp[0], stamp[0]))
            r = "ok"
        else:
            raise tlc.MachineryError(f"unknown op {op}")
    except ValueError as e:
        return "ValueError", None
    except Exception as e:
        return f"Exception:{type(e).__name__}:{str(e)[:80]}", None
    if isinstance(r, tuple):
        return r[0], r[1]
    return {True: "True", False: "False", None: "None"}.get(r, r), None


def replay_behaviour(chk, kind, enc, beh, rnd, tmpdir):
    G = Gamma(kind, enc, rnd)
    path = os.path.join(tmpdir, f"{kind}.{rnd.randrange(10**9)}")
    init = beh[0]["init"]
    with open(path, "wb") as fh:
        fh.write(G.content(init))
    stamp = [1_500_000_000_000_000_000]
    os.utime(path, ns=(stamp[0], stamp[0]))
    f = make_object(G, path, beh[0]["autosave"])
    hist = []
    for k, st in enumerate(beh):
        before_disk = open(path, "rb").read()
        got, val = call(G, f, st, path, stamp)
        hist.append({"op": st["op"], "arg": st["arg"], "spec_res": st["res"], "got": got})
        problems = []
        if got != st["res"]:
            problems.append(("result", f"returned {got}, spec says {st['res']}"))
        try:
            text = f.to_string()
        except Exception as e:
            text = None
            problems.append(("export-raises", f"to_string() raised {type(e).__name__}: {e}"))
        if text is not None:
            items, recs, counts = G.read(text)
            srecs = st["recs"] if isinstance(st["recs"], dict) else {}
            want = {k2: ({"pw": v["pw"], "gen": "new"} if (kind == "htdigest" and v["gen"] == "old") else v) for k2, v in srecs.items()}
            if recs != want:
                problems.append(("readback", f"export parses to {recs}, spec records {want}"))
            dup = {k2: c for k2, c in counts.items() if c != 1}
            if dup:
                problems.append(("not-once", f"keys not exactly once in export: {dup}"))
            if any(t in ("malformed", "undecodable") for t, _ in items):
                problems.append(("malformed-export", f"export contains malformed lines: {[i for i in items if i[0] not in ('rec', 'skip')]}"))
            # relative order of comments and untouched records
            spec_order = [("skip", l["x"]) if l["t"] == "skip" else ("rec", l["k"]) for l in st["order"]]
            keep = {x for x in spec_order}
            real_order = [i for i in items if i in keep]
            if real_order != spec_order:
                problems.append(("order", f"order of untouched items {real_order}, spec {spec_order}"))
            if val is not None and st["op"] == "get_hash":
                a = G.abstract(st["arg"][0], val)
                w = st["val"]
                if not isinstance(w, dict):
                    problems.append(("get_hash", f"get_hash gave {a}, spec {w}"))
                    w = a
                if kind == "htdigest" and w.get("gen") == "old":
                    w = {"pw": w["pw"], "gen": "new"}
                if a != w:
                    problems.append(("get_hash", f"get_hash gave {a}, spec {w}"))
            disk = open(path, "rb").read()
            if st["wrote"] and disk != text:
                problems.append(("disk-stale", "spec: this step writes the file; real file differs from to_string()"))
            if not st["disk_changed"] and st["op"] != "external_write" and disk != before_disk:
                problems.append(("disk-touched", "spec: disk unchanged; real file was rewritten"))
        chk.count((kind, st["op"], st["res"], len(st["recs"]), st["autosave"], tuple(sorted(st["keys"])), len(st["order"])))
        chk.action(f"{st['op']}->{st['res']}")
        if problems:
            for cls, msg in problems[:2]:
                chk.violation(f"{kind}:{st['op']}:{cls}", f"{kind} {st['op']}: {msg}",
                              {"kind": kind, "encoding": enc, "autosave": beh[0]["autosave"], "initial_content": init,
                               "history": hist, "step": k, "problem": msg, "export": None if text is None else text.decode("latin-1")})
            return False
    return True


def split_behaviours(emits):
    behs, cur = [], None
    for e in emits:
        if e["n"] == 0:
            cur = []
            behs.append(cur)
        cur.append(e)
    return behs


def paths_from_graph(emits, maxlen):
    """exhaustive runs emit transitions, not behaviours: rebuild behaviours of the small instance by DFS over emitted edges.
    (not used for the exhaustive instance here: simulation with a fixed seed gives behaviours directly)"""
    return []


def run(chk):
    warnings.simplefilter("ignore")
    import logging
    logging.disable(logging.WARNING)
    quick = chk.tier == "quick"
    rnd = random.Random(chk.seed)
    chk.rule = ("S->I: every step of every replayed behaviour is executed on a real HtpasswdFile/HtdigestFile and the exported text + disk "
                "file are read back by an independent parser and compared with the spec state. non-trivial = distinct "
                "(class, op, result, #records, autosave, live keys, #untouched items) steps")
    consts = dict(Keys={"u1", "u2", "u3"}, BadKeys={"bad:"}, Pws={"p1", "p2"}, Upgrades=True, NoFile="nofile", InitContents=contents_expr(),
                  MaxOps=3 if quick else 4, DoEmit=False)
    r = tlc.run_instance("MC_HtFile", consts, name="C16_mc", invariants=INVS, properties=PROPS, action_constraint="Emit", view="View",
                         timeout=3000)
    chk.add_tlc("MC_HtFile exhaustive", r)
    for a in ("SetPasswordA", "SetHashA", "DeleteA", "CheckPasswordA", "SaveA", "LoadA", "LoadIfChangedA", "ExternalWriteA", "LoadStringA", "LoadOtherA"):
        if r.coverage.get(a, (0, 0))[1] == 0:
            raise tlc.MachineryError(f"vacuity: {a} never taken")
    consts.update(DoEmit=True, MaxOps=12)
    nb = 250 if quick else 4000
    tmpdir = tempfile.mkdtemp(prefix="c16_", dir=str(VERIF / "out"))
    try:
        for kind, upg in (("htpasswd", True), ("htdigest", False)):
            consts.update(Upgrades=upg)
            r = tlc.run_instance("MC_HtFile", consts, name="C16_sim", invariants=INVS, action_constraint="Emit", next="SimNext",
                                 simulate=f"num={nb}", depth=12, seed=chk.seed + 11 + upg, workers=1, coverage=False, timeout=3000)
            chk.add_tlc(f"MC_HtFile simulation for {kind} ({nb} behaviours of 12 operations)", r)
            behs = split_behaviours(r.emits)
            for i, b in enumerate(behs):
                replay_behaviour(chk, kind, ("utf-8", "latin-1")[i % 2], b, rnd, tmpdir)
                chk.traces += 1
        if behs:
            chk.sample({"replayed_behaviour_head": [{k: s[k] for k in ("op", "arg", "res", "recs")} for s in behs[0][:4]],
                        "initial_content": behs[0][0]["init"]})
    finally:
        shutil.rmtree(tmpdir, ignore_errors=True)
    chk.assumptions += ["the file system changes a file's mtime on every external write (realised with os.utime)",
                        "blank lines are not compared (the library drops trailing blank lines; the statement only constrains order)",
                        "libxcrypt md5/des crypt and hashlib.md5 are the independent verifiers of stored hashes"]


def replay(chk, path):
    v = json.loads(open(path).read())
    d = v["detail"]
    print(json.dumps({k: d[k] for k in ("kind", "encoding", "autosave", "initial_content", "problem")}, indent=1))
    for h in d["history"]:
        print("  ", h)
    print("export:\n" + (d["export"] or "<raised>"))
    return 1
