"""C01 - a hash verifies exactly the password it was made from.

spec/HashVerify.tla + MC_HashVerify.tla; binding in harness/hashverify.py.
 1. TLC: over the class lattice (truncation, 7-bit, case folding, blanks, NUL policy, refusal, disabled) and all
    passwords up to 3 symbols with all near misses: self-verification, exactness up to the documented equivalences,
    disabled hashers never verify.
 2. S->I: for every hasher with a usable backend (classic, LDAP/Django wrappers, libpass classes) the transitions TLC
    enumerated for the hasher's documented class are executed: hash (text or bytes, on the hasher or through a
    CryptContext), identify, and verify of every near miss in text and bytes form; a filler prefix places the model's
    byte positions on the real limit (8, 14, 16, 32, 72) or on digest block boundaries.
"""
from __future__ import annotations

import random

from .. import hashverify as hv
from ..hashverify import replay  # noqa: F401


def run(chk):
    chk.rule = ("one case = one hash() or verify() call on a real hasher for a transition TLC enumerated; non-trivial = distinct "
                "(hasher, mode, truncate_error, expected outcome, symbol count[, same password])")
    hv.run_shared(chk, "C01")
    # libpass classes: exact classes (bcrypt: first 72 bytes as enforced by the bcrypt library)
    rnd = random.Random(chk.seed)
    for name, L, klass in hv.libpass_hashers():
        pws = ["a", "aA", "ab", "a b", "é", b"\xe1", "x" * 61 + "ab", ""]
        for pw in pws:
            try:
                h = L.hash(pw)
            except Exception as e:
                if pw == "" or isinstance(pw, bytes):
                    continue
                chk.violation(f"{name}:hash:error", f"{name}.hash({pw!r}) raised {type(e).__name__}", {"hasher": name, "password": repr(pw)})
                continue
            chk.count((name, "hash", repr(pw)[:6]))
            ok = isinstance(h, str) and h.isascii() and L.identify(h) and L.verify(h, pw) is True
            alts = [pw + "x" if isinstance(pw, str) else pw + b"x", pw[:-1], ("A" + pw[1:]) if isinstance(pw, str) and pw[:1] == "a" else None]
            bad = [a for a in alts if a is not None and a != pw and L.verify(h, a)]
            if isinstance(pw, str) and L.verify(h, pw.encode("utf-8")) is not True:
                ok = False
            chk.evaluations += 1 + len(alts)
            if not ok or bad:
                chk.violation(f"{name}:self-verify", f"{name}: hash of {pw!r} -> identify/verify {ok}, near misses accepted: {bad}", {"hasher": name, "hash": h})
    chk.assumptions += ["class records come from the library documentation (DESIGN.md appendix A); hashers whose NUL policy is undocumented accept either answer",
                        "SASLprep equivalences of scram and encodings other than UTF-8 for lmhash/plaintext are not exercised here"]
