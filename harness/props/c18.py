"""C18 - a disabled account can never log in and can be restored intact.

spec/Disabled.tla + MC_Disabled.tla.
 1. TLC: all disable/enable/verify/is_enabled histories (<= 5) from every kind of stored credential for the three
    kinds of disabled scheme: a disabled account never verifies, disable() always yields a disabled string and is
    idempotent, enable() restores the embedded hash exactly, a normal hash passes through unchanged.
 2. S->I: the same histories are replayed on real CryptContext objects for original hashes of many real schemes,
    with the disabled scheme before and after the real one, text and bytes arguments; verification against None
    must be False and perform exactly one dummy verification.
"""
from __future__ import annotations

import json
import random
import warnings

from .. import tlc

INVS = ["InvMemoCurrent", "InvNoLogin", "InvNoneFalse", "InvDisableDisables", "InvHashKept"]
PROPS = ["RestoreExact", "RestoreAlways", "EnableNormal"]
KINDS = tlc.Raw('{<<"unix1">>, <<"unix2">>, <<"django">>, <<"django", "unix1">>, <<"django", "unix2">>, <<"unix1", "django">>, <<"unix2", "django">>}')
SCHEMES = ["md5_crypt", "des_crypt", "sha256_crypt", "sha512_crypt", "bcrypt", "pbkdf2_sha256", "ldap_salted_sha1", "ldap_md5", "apr_md5_crypt",
           "phpass", "nthash", "lmhash", "mysql323", "hex_sha256", "django_pbkdf2_sha256", "django_salted_sha1", "sha1_crypt",
           "bsdi_crypt", "scram", "ldap_pbkdf2_sha256", "atlassian_pbkdf2_sha1", "fshp", "cisco_type7", "bigcrypt", "sun_md5_crypt",
           "hex_sha1", "hex_md5", "hex_sha512", "plaintext", "ldap_hex_sha1", "oracle11", "mssql2005", "crypt16"]
#: catch-all schemes: only meaningful when listed AFTER the disabled-account handler (which then takes the "!"/"*" strings first)
CATCHALL = {"plaintext"}          # (ldap_plaintext does not claim the empty string or "{..}" strings: not a complete catch-all)
CHEAP = {"sha256_crypt": 1000, "sha512_crypt": 1000, "bcrypt": 4, "pbkdf2_sha256": 10, "phpass": 7, "django_pbkdf2_sha256": 10, "sha1_crypt": 10,
         "bsdi_crypt": 11, "scram": 10, "ldap_pbkdf2_sha256": 10, "fshp": 10, "sun_md5_crypt": 10}


def split(emits):
    behs, cur = [], None
    for e in emits:
        if e["n"] == 0:
            cur = []
            behs.append(cur)
        cur.append(e)
    return behs


class World:
    def __init__(self, kind, scheme, first, rnd):
        import passlib.hash as H
        from passlib.context import CryptContext
        self.kind, self.rnd = kind, rnd
        h = getattr(H, scheme)
        if scheme in CHEAP:
            h = h.using(rounds=CHEAP[scheme])
        self.right, self.wrong = "right pw \xe9", "wrong"
        if scheme in ("plaintext", "ldap_plaintext", "roundup_plaintext"):
            # the stored value IS the password: white space at either end is part of it
            self.right = rnd.choice(["right pw \xe9", " right pw \xe9", "right pw \xe9 ", "\tright pw \xe9\xa0"])
        self.H = h.hash(self.right)
        dis = ["django_disabled" if k == "django" else "unix_disabled" for k in kind]
        self.kw = {"unix_disabled__marker": "*"} if "unix2" in kind else {}
        # a deprecation policy that covers the disabled-account handler itself must not stop accounts from being disabled
        dep = rnd.choice([None, None, "auto", "list", "frozen"])
        if dep == "frozen":
            self.kw["deprecated"] = [scheme]         # every real scheme deprecated: the disabled-account handler is what remains as default
        if dep == "auto" and not first:
            self.kw["deprecated"] = "auto"
        elif dep == "list":
            self.kw["deprecated"] = [d for d in dis][:1] if len(dis) == 1 and not (first and False) else []
            if not self.kw["deprecated"]:
                self.kw.pop("deprecated")
        self.with_real = dis + [h] if first else [h] + dis
        # the configuration without the account's scheme: another real scheme takes its place
        other = H.ldap_md5 if scheme != "ldap_md5" else H.hex_sha256
        self.without_real = dis + [other] if first else [other] + dis
        self.ctx = CryptContext(schemes=self.with_real, **self.kw)
        self.other_claims = bool(other.identify(self.H))
        self.dummy_calls = 0
        orig = self.ctx.dummy_verify

        def counting(*a, **k):
            self.dummy_calls += 1
            return orig(*a, **k)
        self.ctx.dummy_verify = counting
        self.D = None
        self.ambiguous = self.H[:1] in "!*"

    def real(self, x):
        return {"None": None, "Empty": "", "M1": "!", "M2": "*", "M1H": "!" + self.H, "M2H": "*" + self.H, "H": self.H, "D": self.D}[x]

    def abstract(self, t):
        if isinstance(t, bytes):
            t = t.decode("utf-8")
        if t is None:
            return "None"
        if t == "":
            return "Empty"
        if t == "!":
            return "M1"
        if t == "*":
            return "M2"
        if t == self.H:
            return "H"
        if t == "!" + self.H:
            return "M1H"
        if t == "*" + self.H:
            return "M2H"
        if self.kind[0] == "django" and t.startswith("!") and len(t) == 41:
            return "D"
        if self.D and t == self.D[1:]:
            return "Dtail"
        return "other:" + t[:20]


def call(fn, *a, **kw):
    try:
        return ("ok", fn(*a, **kw))
    except ValueError as e:
        return ("ValueError", str(e)[:80])
    except TypeError as e:
        return ("TypeError", str(e)[:80])
    except Exception as e:
        return ("Internal:" + type(e).__name__, str(e)[:80])


def only_disabled_contexts(chk):
    """contexts in which nothing but disabled-account handlers can make a hash (only such handlers listed, or every real scheme
    deprecated): accounts can still be disabled, never log in, and - with the marker style that embeds the hash - be restored"""
    from passlib.context import CryptContext
    H0 = "$1$abcdefgh$IQtUouv7y7Q9dRWkQEPCc."
    for cfg, embeds in ((dict(schemes=["unix_disabled"]), True), (dict(schemes=["django_disabled"]), False), (dict(schemes=["unix_disabled", "django_disabled"]), True),
                        (dict(schemes=["md5_crypt", "unix_disabled"], deprecated=["md5_crypt"]), True), (dict(schemes=["unix_disabled", "md5_crypt"], deprecated=["md5_crypt"]), True),
                        (dict(schemes=["django_disabled", "unix_disabled"]), False)):
        chk.count(("only-disabled", json.dumps(cfg, sort_keys=True)))
        chk.action("only-disabled-context")
        steps = []
        try:
            c = CryptContext(**cfg)
            d = c.disable()
            d2 = c.disable(H0)
            steps = [("disable()", d), ("disable(hash)", d2)]
            facts = [c.verify("pw", d), c.verify("pw", d2), c.verify(d, d), c.is_enabled(d), c.is_enabled(d2), c.verify("pw", None)]
            try:
                back = c.enable(d2)
            except ValueError:
                back = "ValueError"
            want_back = H0 if embeds else "ValueError"
            chk.evaluations += 8
            if any(f is not False for f in facts) or back != want_back or (embeds and H0 not in d2) or H0 == d2:
                chk.violation("only-disabled:" + "+".join(cfg["schemes"]), f"context {cfg}: disable() / disable(hash) gave {d!r} / {d2!r}; verify / is_enabled facts {facts} (all must be False); enable gives {back!r} (expected {want_back!r})",
                              {"configuration": cfg, "steps": steps})
        except Exception as ex:
            chk.violation("only-disabled:" + "+".join(cfg["schemes"]) + ":" + type(ex).__name__, f"context {cfg}: {type(ex).__name__}: {ex}", {"configuration": cfg, "steps": steps})


def replay_beh(chk, beh, scheme, first, rnd):
    kind = beh[0]["kind"]
    try:
        W = World(kind, scheme, first, rnd)
    except Exception as e:
        chk.violation(f"context:build:{type(e).__name__}", f"a context of {scheme} and the disabled-account handler(s) {list(kind)} cannot be built: {type(e).__name__}: {e}",
                      {"scheme": scheme, "kind": list(kind), "disabled_first": first})
        return
    if (first and W.ambiguous) or W.other_claims or (scheme in CATCHALL and not first):
        return
    x = beh[0]["x0"]
    hist = []
    for k, st in enumerate(beh):
        op = st["op"]
        xr = W.real(x)
        arg = xr.encode() if (xr is not None and rnd.random() < .25) else xr
        exp = st["res"]
        problems = []
        if op == "disable":
            r = call(W.ctx.disable, arg) if (arg is not None or rnd.random() < .5) else call(W.ctx.disable)
            got = [r[0], W.abstract(r[1])] if r[0] == "ok" else [r[0]]
            if r[0] == "ok":
                if kind[0] == "django":
                    W.D = r[1]
                new_real = r[1]
                # the produced string: recognised as disabled, verifies nothing (not even itself or ""), disabling again keeps it disabled
                for pw in ((W.right, W.wrong, "", new_real) if scheme not in CATCHALL or kind[0] != "django" or True else ()):
                    v = call(W.ctx.verify, pw, new_real)
                    if v != ("ok", False):
                        problems.append(("disabled-verifies", f"verify({pw!r}, disabled string) gave {v}"))
                ie = call(W.ctx.is_enabled, new_real)
                if ie != ("ok", False):
                    problems.append(("disabled-not-recognised", f"is_enabled(disabled string) gave {ie}"))
                again = call(W.ctx.disable, new_real)
                if again[0] != "ok" or call(W.ctx.is_enabled, again[1]) != ("ok", False):
                    problems.append(("disable-twice", f"disabling the disabled string again gave {again[:2]}"))
        elif op == "enable":
            r = call(W.ctx.enable, arg)
            got = [r[0], W.abstract(r[1])] if r[0] == "ok" else [r[0]]
        elif op == "reload":
            what, _, how = st["arg"].partition(":")
            cfg = dict(schemes=W.without_real if what == "drop" else W.with_real, **W.kw)
            if what == "drop" and cfg.get("deprecated") == [scheme]:
                cfg.pop("deprecated")           # (the policy named the scheme that is being dropped)
            if how == "update":
                upd = dict(schemes=cfg["schemes"], deprecated=cfg.get("deprecated", []))      # in place: the other options stay
                r = call(W.ctx.update, **upd) if rnd.random() < .6 else call(W.ctx.load, upd, update=True)
            elif how == "text":
                r = call(W.ctx.load, __import__("passlib.context").context.CryptContext(**cfg).to_string())
            else:
                r = call(W.ctx.load, cfg)
            got = [r[0]]
        elif op == "is_enabled":
            r = call(W.ctx.is_enabled, arg)
            got = [str(r[1])] if r[0] == "ok" else [r[0]]
        else:
            pw = W.right if st["arg"] == "right" else rnd.choice([W.wrong, "", xr or "x"] if scheme not in CATCHALL else [W.wrong, W.wrong + "2"])
            if x == "None" and st["arg"] != "right" and rnd.random() < .5:
                pw = rnd.choice(["wr\0ng", "\0", b"wr\xffng", "w" * 300])       # no account: whatever was typed, the answer is False
            before = W.dummy_calls
            r = call(W.ctx.verify, pw, arg)
            got = [str(r[1])] if r[0] == "ok" else [r[0]]
            if x == "None" and W.dummy_calls - before != 1:
                problems.append(("none-dummy-verify", f"verify(pw, None) performed {W.dummy_calls - before} dummy verifications"))
        hist.append({"op": op, "stored": x, "real": xr if xr is None else xr[:50], "spec": exp, "got": got})
        chk.count(("/".join(kind), op, x, exp[0], exp[1] if len(exp) > 1 else "", first, scheme in ("plaintext", "mysql41")))
        chk.action(f"{op}->{exp[0]}")
        if got != list(exp):
            problems.insert(0, (f"{op}:{x}:{'/'.join(exp)}->{'/'.join(got)}", f"{op}({x}) gave {got}, spec says {exp}"))
        if problems:
            for key, msg in problems[:2]:
                chk.violation(f"{'+'.join('django' if k == 'django' else 'unix' for k in kind)}:{key}", f"{kind} [{scheme}{', disabled first' if first else ''}]: {msg}",
                              {"kind": kind, "scheme": scheme, "disabled_listed_first": first, "hash": W.H, "history": hist})
            return
        x = st["x"]


def run(chk):
    warnings.simplefilter("ignore")
    quick = chk.tier == "quick"
    rnd = random.Random(chk.seed)
    chk.rule = ("S->I: every step of every history is executed on a real CryptContext; after each disable() the produced string is additionally "
                "verified against 4 passwords, is_enabled and a second disable(). non-trivial = distinct (kind, op, stored class, outcome, order, ambiguous scheme) steps")
    r = tlc.run_instance("MC_Disabled", dict(Kinds=KINDS, MaxOps=5 if quick else 6, DoEmit=False, Greedy=False), name="C18_mc",
                         invariants=INVS, properties=PROPS, action_constraint="Emit")
    chk.add_tlc("MC_Disabled exhaustive", r)
    nb = 3000 if quick else 30000
    r = tlc.run_instance("MC_Disabled", dict(Kinds=KINDS, MaxOps=7, DoEmit=True, Greedy=False), name="C18_sim", invariants=INVS,
                         action_constraint="Emit", next="SimNext", simulate=f"num={nb}", depth=7, seed=chk.seed + 5, workers=1, coverage=False)
    chk.add_tlc(f"MC_Disabled simulation ({nb} histories)", r)
    behs = split(r.emits)
    schemes = [x for x in SCHEMES if x not in CATCHALL]
    for i, b in enumerate(behs):
        replay_beh(chk, b, schemes[i % len(schemes)], (i // len(schemes)) % 2 == 1, rnd)
        chk.traces += 1
    # an account that does not exist, across reconfigurations by every route (load of a mapping / of text / update in place)
    nb3 = 240 if quick else 2400
    r3 = tlc.run_instance("MC_Disabled", dict(Kinds=KINDS, MaxOps=7, DoEmit=True, Greedy=False), name="C18_sim_none", invariants=INVS, init="InitNone",
                          action_constraint="Emit", next="SimNextNone", simulate=f"num={nb3}", depth=7, seed=chk.seed + 7, workers=1, coverage=False)
    chk.add_tlc(f"MC_Disabled simulation, missing account x reload routes ({nb3} histories)", r3)
    routes = set()
    for i, b in enumerate(split(r3.emits)):
        routes |= {s_["arg"] for s_ in b if s_["op"] == "reload"}
        replay_beh(chk, b, schemes[i % len(schemes)], (i // len(schemes)) % 2 == 1, rnd)
        chk.traces += 1
    if len(routes) < 6:
        raise tlc.MachineryError(f"C18: missing-account simulation reached only the routes {sorted(routes)}")
    # catch-all real schemes, listed after the disabled-account handlers
    r2 = tlc.run_instance("MC_Disabled", dict(Kinds=KINDS, MaxOps=5, DoEmit=False, Greedy=True), name="C18_mc_greedy", invariants=INVS, properties=PROPS, action_constraint="Emit")
    chk.add_tlc("MC_Disabled exhaustive, catch-all real scheme", r2)
    nb2 = 400 if quick else 4000
    r2 = tlc.run_instance("MC_Disabled", dict(Kinds=KINDS, MaxOps=7, DoEmit=True, Greedy=True), name="C18_sim_greedy", invariants=INVS,
                          action_constraint="Emit", next="SimNext", simulate=f"num={nb2}", depth=7, seed=chk.seed + 6, workers=1, coverage=False)
    chk.add_tlc(f"MC_Disabled simulation, catch-all real scheme ({nb2} histories)", r2)
    for i, b in enumerate(split(r2.emits)):
        replay_beh(chk, b, sorted(CATCHALL)[i % len(CATCHALL)], True, rnd)
        chk.traces += 1
    if behs:
        chk.sample({"history": [{k: s[k] for k in ("kind", "op", "arg", "res", "x")} for s in behs[0]], "initial": behs[0][0]["x0"]})
    only_disabled_contexts(chk)
    chk.assumptions += ["'costs a dummy verification' is observed as exactly one call of the context's dummy_verify(); its duration is not measured",
                        "catch-all schemes (plaintext) and schemes whose own hashes begin with a marker character (mysql41 '*...') are excluded: the statement's 'original hash' is then ambiguous by construction"]


def replay(chk, path):
    v = json.loads(open(path).read())
    print(json.dumps(v["detail"], indent=1)[:4000])
    return 1
