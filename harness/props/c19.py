"""C19 - first use from several threads behaves like first use from one.

spec/LazyInit.tla (+ Trace_LazyInit.tla); harness/sched.py (deterministic scheduler).
 1. TLC: all interleavings of 2-3 threads through the lazy-initialisation protocol: the Locked protocol gives every
    thread the sequential result and terminates (weak fairness, no state constraint); the unprotected protocol is
    kept as a negative control and must produce counterexamples.
 2. Real schedules: for a fresh LazyCryptContext (with and without onload), a fresh multi-backend hasher, a fresh lazy
    base64 engine and an unloaded registry name, ALL schedules of two threads with at most k preemptions at the
    instruction level of the initialisation code are executed on the real objects (k = 1 exhaustively, k = 2 sampled in
    the quick tier); every thread must get exactly the single-threaded result.
 3. I->S: each executed schedule, projected to start/finish/call events, is validated as a behaviour of the Locked
    protocol by Trace_LazyInit.  Free-running stress with many threads is run as well.
"""
from __future__ import annotations

import json
import random
import threading
import types
import warnings

from .. import sched, tlc
from ..common import VERIF


def install_coop_locks():
    """replace the library's locks by locks the scheduler understands (module attributes only; no source change)"""
    import passlib.utils.handlers as uh
    import passlib.context as pc
    import passlib.utils.binary as pb
    uh._backend_lock = sched.SchedLock()
    shim = types.SimpleNamespace(**{k: getattr(threading, k) for k in dir(threading) if not k.startswith("__")})
    shim.RLock = sched.SchedLock
    shim.Lock = sched.SchedLock
    for mod in (pc, pb):
        if hasattr(mod, "threading"):
            mod.threading = shim


SKIPPED = []


def scenarios():
    import passlib.context as pc
    import passlib.utils.binary as pb
    import passlib.utils.handlers as uh
    import passlib.registry as reg
    import passlib.hash as H
    from passlib.handlers import md5_crypt as m5, sha2_crypt as s2
    out = []
    md5h = "$1$abcdefgh$IQtUouv7y7Q9dRWkQEPCc."       # md5_crypt("pw"), checked against libxcrypt below
    import legacycrypt
    assert legacycrypt.crypt("pw", md5h) == md5h
    sha_h = legacycrypt.crypt("pw", "$5$rounds=1000$abcdefgh$")

    def codes(*fns):
        return [getattr(f, "__func__", f).__code__ for f in fns if f is not None and hasattr(getattr(f, "__func__", f), "__code__")]

    def A(owner, name):
        """an internal function by name - None when a refactoring removed or renamed it (then it simply is no yield region)"""
        return owner.__dict__.get(name) if isinstance(owner, type) and name in owner.__dict__ else getattr(owner, name, None)

    try:
        # A: LazyCryptContext without onload
        def mk_lazy():
            ctx = pc.LazyCryptContext(schemes=["md5_crypt", "des_crypt"], deprecated=["des_crypt"])
            return [lambda: ctx.identify(md5h), lambda: (ctx.default_scheme(), ctx.needs_update("abJnggxhB/yWI"))]
        out.append(dict(name="LazyCryptContext", lazy=True, make=mk_lazy, expected=["md5_crypt", ("md5_crypt", True)],
                        code=codes(A(pc.LazyCryptContext, "__getattribute__"), A(pc.LazyCryptContext, "_lazy_init"), pc.CryptContext.__init__, pc.CryptContext.load),
                        init_names=("_lazy_init",)))
    except (AttributeError, ImportError, KeyError) as ex:      # an internal name this scenario leans on is gone: not schedule-explored
        SKIPPED.append(f"scenario 'A: LazyCryptContext without onload' not built: {type(ex).__name__}: {ex}")
    try:
        # B: with an onload callback that rewrites the arguments
        def onload(flavour=None):
            return dict(schemes=["sha256_crypt", "md5_crypt"], default="md5_crypt" if flavour == "legacy" else "sha256_crypt")

        def mk_lazy_onload():
            ctx = pc.LazyCryptContext(onload=onload, flavour="legacy")
            return [lambda: ctx.default_scheme(), lambda: ctx.verify("pw", md5h)]
        out.append(dict(name="LazyCryptContext+onload", lazy=True, make=mk_lazy_onload, expected=["md5_crypt", True],
                        code=codes(A(pc.LazyCryptContext, "__getattribute__"), A(pc.LazyCryptContext, "_lazy_init"), pc.CryptContext.__init__, pc.CryptContext.load, onload),
                        init_names=("_lazy_init",)))
    except (AttributeError, ImportError, KeyError) as ex:      # an internal name this scenario leans on is gone: not schedule-explored
        SKIPPED.append(f"scenario 'B: with an onload callback that rewrites the arguments' not built: {type(ex).__name__}: {ex}")
    try:
        # C: lazily built base64 engine
        def mk_b64():
            eng = pb.LazyBase64Engine(pb.HASH64_CHARS)
            return [lambda: eng.encode_bytes(b"ab"), lambda: eng.decode_bytes(b"V74")]
        out.append(dict(name="LazyBase64Engine", lazy=True, make=mk_b64, expected=[b"V74", b"ab"],
                        code=codes(A(pb.LazyBase64Engine, "__getattribute__"), A(pb.LazyBase64Engine, "_lazy_init"), pb.Base64Engine.__init__),
                        init_names=("_lazy_init",)))
    except (AttributeError, ImportError, KeyError) as ex:      # an internal name this scenario leans on is gone: not schedule-explored
        SKIPPED.append(f"scenario 'C: lazily built base64 engine' not built: {type(ex).__name__}: {ex}")
    try:
        # D: fresh multi-backend hashers picking their backend on the first hash
        def mk_backend(base, h):
            def make():
                Hc = base.using()            # fresh class: nothing loaded on it (the global class is never used here)
                return [lambda: Hc.verify("pw", h), lambda: Hc.verify("px", h)]
            return make
        bcode = codes(uh.BackendMixin.set_backend, A(uh.BackendMixin, "_set_backend"), A(uh.BackendMixin, "_stub_requires_backend"), uh.BackendMixin.get_backend,
                      A(uh.HasManyBackends, "_calc_checksum_backend"), A(uh.HasManyBackends, "_calc_checksum"), A(uh.HasManyBackends, "_set_calc_checksum_backend"),
                      A(uh.HasManyBackends, "_get_backend_loader"))
        for nm, base, h in (("md5_crypt", H.md5_crypt, md5h), ("sha256_crypt", H.sha256_crypt, sha_h)):
            loaders = [getattr(base, a) for a in ("_load_backend_os_crypt", "_load_backend_builtin") if hasattr(base, a)]
            out.append(dict(name=f"backend-stub:{nm}", lazy=False, make=mk_backend(base, h), expected=[True, False], code=bcode + codes(*loaders),
                            init_names=()))
    except (AttributeError, ImportError, KeyError) as ex:      # an internal name this scenario leans on is gone: not schedule-explored
        SKIPPED.append(f"scenario 'D: fresh multi-backend hashers picking their backend on the first hash' not built: {type(ex).__name__}: {ex}")
    try:
        # E: an unloaded registry name through both access paths
        def mk_reg():
            reg._unload_handler_name("phpass", locations=False)

            def a():
                o = reg.get_crypt_handler("phpass")
                return (o.name, o is reg.get_crypt_handler("phpass"))

            def b():
                o = getattr(H, "phpass")
                return (o.name, o is reg.get_crypt_handler("phpass"))
            return [a, b]
        out.append(dict(name="registry", lazy=False, make=mk_reg, expected=[("phpass", True), ("phpass", True)],
                        code=codes(reg.get_crypt_handler, reg.register_crypt_handler), init_names=()))
    except (AttributeError, ImportError, KeyError) as ex:      # an internal name this scenario leans on is gone: not schedule-explored
        SKIPPED.append(f"scenario 'E: an unloaded registry name through both access paths' not built: {type(ex).__name__}: {ex}")
    try:
        # F: a fresh (non-lazy) context: the per-category record lists are built on the first identify/verify
        def mk_ctx_first():
            ctx = pc.CryptContext(schemes=["des_crypt", "md5_crypt", "sha256_crypt"])
            return [lambda: ctx.verify("pw", sha_h), lambda: (ctx.identify(md5h), ctx.verify("pw", sha_h))]
        cfg = getattr(pc, "_CryptConfig", None)
        out.append(dict(name="context-first-identify", lazy=False, make=mk_ctx_first, expected=[True, ("md5_crypt", True)],
                        code=codes(*[getattr(cfg, a) for a in ("_get_record_list", "identify_record", "get_record", "_get_record_options_with_flag") if hasattr(cfg, a)]),
                        init_names=()))
    except (AttributeError, ImportError, KeyError) as ex:      # an internal name this scenario leans on is gone: not schedule-explored
        SKIPPED.append(f"scenario 'F: a fresh (non-lazy) context: the per-category record lists are built on the first identify/verify' not built: {type(ex).__name__}: {ex}")
    try:
        # G: first hash on a fresh multi-backend hasher while another thread only asks about backends
        def mk_backend_query(base, h, query):
            def make():
                Hc = base.using()
                q = {"has": lambda: Hc.has_backend("builtin"), "get": lambda: Hc.get_backend() in Hc.backends, "has-any": lambda: Hc.has_backend()}[query]
                return [lambda: Hc.verify("pw", h), q]
            return make
        qcode = bcode + codes(uh.BackendMixin.has_backend)
        for query in ("has", "get", "has-any"):
            out.append(dict(name=f"backend-stub+{query}:md5_crypt", lazy=False, make=mk_backend_query(H.md5_crypt, md5h, query), expected=[True, True], code=qcode, init_names=()))
    except (AttributeError, ImportError, KeyError) as ex:      # an internal name this scenario leans on is gone: not schedule-explored
        SKIPPED.append(f"scenario 'G: first hash on a fresh multi-backend hasher while another thread only asks about backends' not built: {type(ex).__name__}: {ex}")
    try:
        # H: the DES tables are built on the first block operation
        import passlib.crypto.des as pdes
        if hasattr(pdes, "_load_tables"):
            tabs = [n for n in ("PCXROT", "IE3264", "SPE", "CF6464") if hasattr(pdes, n)]

            def mk_des():
                for n in tabs:
                    setattr(pdes, n, None)
                return [lambda: pdes.des_encrypt_int_block(0x133457799BBCDFF1, 0x0123456789ABCDEF), lambda: pdes.des_encrypt_int_block(0, 0, 5, 2)]
            want = [pdes.des_encrypt_int_block(0x133457799BBCDFF1, 0x0123456789ABCDEF), pdes.des_encrypt_int_block(0, 0, 5, 2)]
            out.append(dict(name="des-tables", lazy=False, make=mk_des, expected=want, code=codes(A(pdes, "_load_tables"), pdes.des_encrypt_int_block), init_names=()))
    except (AttributeError, ImportError, KeyError) as ex:      # an internal name this scenario leans on is gone: not schedule-explored
        SKIPPED.append(f"scenario 'H: the DES tables are built on the first block operation' not built: {type(ex).__name__}: {ex}")
    # H2: the Blowfish tables (pi digits) are built when the first engine is made
    try:
        import passlib.crypto._blowfish.base as pbf
        if hasattr(pbf, "_init_constants"):
            def mk_bf():
                pbf.BLOWFISH_P = pbf.BLOWFISH_S = None

                def body():
                    e = pbf.BlowfishEngine()
                    e.expand(e.key_to_words(b"key"))
                    return e.encipher(1, 2)
                return [body, body]
            pbf.BLOWFISH_P = pbf.BLOWFISH_S = None
            e0 = pbf.BlowfishEngine()
            e0.expand(e0.key_to_words(b"key"))
            want_bf = e0.encipher(1, 2)
            out.append(dict(name="blowfish-tables", lazy=False, make=mk_bf, expected=[want_bf, want_bf],
                            code=codes(A(pbf, "_init_constants"), A(pbf.BlowfishEngine, "__init__")), init_names=()))
    except (AttributeError, ImportError, KeyError) as ex:
        SKIPPED.append(f"scenario 'blowfish-tables' not built: {type(ex).__name__}: {ex}")
    try:
        # J: hashers whose backend is a mixin class swapped into the bases (bcrypt family): first use while another thread verifies
        import bcrypt as _bc
        bh = _bc.hashpw(b"pw", _bc.gensalt(4)).decode()
        owner = H.bcrypt._get_backend_owner()
        mm = owner._backend_mixin_map
        if "bcrypt" in owner.backends and mm and None in mm and hasattr(uh, "update_mixin_classes"):
            def mk_mixin():
                uh.update_mixin_classes(owner, add=mm[None], remove=list(mm.values()), append=True, before=uh.SubclassBackendMixin)
                owner._BackendMixin__backend = None
                return [lambda: H.bcrypt.verify("pw", bh), lambda: H.bcrypt.verify("px", bh)]
            stub = [f for f in vars(mm[None]).values() if callable(f)]
            out.append(dict(name="backend-mixin:bcrypt", lazy=False, make=mk_mixin, expected=[True, False],
                            code=bcode + codes(A(uh.SubclassBackendMixin, "_set_backend"), uh.update_mixin_classes, *stub), init_names=()))
    except (AttributeError, ImportError, KeyError, AssertionError) as ex:
        SKIPPED.append(f"scenario 'J: backend mixin of the bcrypt family' not built: {type(ex).__name__}: {ex}")
    try:
        # K: the registry is enumerated while another thread loads a name for the first time
        def mk_list():
            reg._unload_handler_name("phpass", locations=False)

            def b():
                o = reg.get_crypt_handler("phpass")
                return (o.name, o is getattr(H, "phpass"))
            return [lambda: reg.list_crypt_handlers(), b, ]
        reg.get_crypt_handler("phpass")
        out.append(dict(name="registry-enumeration", lazy=False, make=mk_list, expected=[reg.list_crypt_handlers(), ("phpass", True)],
                        code=codes(reg.list_crypt_handlers, reg.get_crypt_handler, reg.register_crypt_handler), init_names=()))
    except (AttributeError, ImportError, KeyError) as ex:
        SKIPPED.append(f"scenario 'K: registry enumeration during a first load' not built: {type(ex).__name__}: {ex}")
    # L: steady state - after everything is initialised, two threads using the same hasher with different salts do not disturb each other
    try:
        for nm in ("django_des_crypt", "phpass", "ldap_salted_sha1", "bigcrypt"):
            hh = getattr(H, nm)
            kw = {"rounds": 7} if nm == "phpass" else {}
            ha, hb = hh.using(**kw).hash("pw-a"), hh.using(**kw).hash("pw-b")
            k = 0
            while hb[:12] == ha[:12] and k < 20:         # different salts
                hb = hh.using(**kw).hash("pw-b")
                k += 1
            w = getattr(hh, "wrapped", hh)
            fns = [getattr(w, a, None) for a in ("_calc_checksum", "verify", "from_string", "_norm_salt", "__init__")]
            if nm == "django_des_crypt":
                import passlib.handlers.des_crypt as pdc
                fns += [A(pdc.des_crypt, "_calc_checksum"), A(pdc.des_crypt, "_calc_checksum_builtin"), A(pdc.des_crypt, "__init__")]
                import passlib.handlers.django as pdj
                fns += [v for v in vars(pdj).values() if callable(v) and getattr(v, "__module__", "") == pdj.__name__ and hasattr(v, "__code__")]

            def mk_steady(hh=hh, ha=ha, hb=hb):
                return [lambda: (hh.verify("pw-a", ha), hh.verify("pw-b", ha)), lambda: (hh.verify("pw-b", hb), hh.verify("pw-a", hb))]
            out.append(dict(name=f"steady-state:{nm}", lazy=False, make=mk_steady, expected=[(True, False), (True, False)], code=codes(*fns), init_names=()))
    except (AttributeError, ImportError, KeyError) as ex:
        SKIPPED.append(f"scenario 'L: steady state' not built: {type(ex).__name__}: {ex}")
    try:
        # I: digest lookups cache their result on first use
        import passlib.crypto.digest as pdig

        def mk_lookup():
            try:
                pdig.lookup_hash.clear_cache()
            except Exception:
                pass
            return [lambda: pdig.lookup_hash("sha256").digest_size, lambda: pdig.lookup_hash("sha256").name]
        out.append(dict(name="lookup_hash", lazy=False, make=mk_lookup, expected=[32, "sha256"], code=codes(pdig.lookup_hash, pdig.HashInfo.__init__), init_names=()))
    except (AttributeError, ImportError, KeyError) as ex:      # an internal name this scenario leans on is gone: not schedule-explored
        SKIPPED.append(f"scenario 'I: digest lookups cache their result on first use' not built: {type(ex).__name__}: {ex}")
    return out


def abstract(run, sc, expected):
    """project a run to start/finish/call events"""
    evs = []
    inside = {}
    last_init = {}
    for s, t, label in run.trace:
        fn = label.split("@")[0]
        if fn in sc["init_names"]:
            if t not in inside:
                inside[t] = True
                evs.append({"ev": "start", "t": f"t{t}", "res": ""})
            last_init[t] = len(evs)
        elif inside.get(t) and fn not in ("lock.acquire", "lock.release", "blocks-on-lock") and not label.startswith("preempted"):
            pass
        if label == "finished":
            pass
    # finish = the thread left _lazy_init without an error: detected by a later non-init instruction or normal result
    out = []
    started = set()
    for s, t, label in run.trace:
        fn = label.split("@")[0]
        if fn in sc["init_names"] and t not in started:
            started.add(t)
            out.append((s, {"ev": "start", "t": f"t{t}", "res": ""}))
    for t in started:
        init_steps = [s for s, tt, label in run.trace if tt == t and label.split("@")[0] in sc["init_names"]]
        r = run.results[t]
        # the initialiser completed iff the thread went on after its last initialiser instruction without raising there
        later = [s for s, tt, label in run.trace if tt == t and s > init_steps[-1] and "@" in label]
        if later or (r and r[0] == "ok"):
            out.append((init_steps[-1] + 0.5, {"ev": "finish", "t": f"t{t}", "res": ""}))
    for t, r in enumerate(run.results):
        fin = [s for s, tt, label in run.trace if tt == t and label == "finished"]
        ok = r is not None and r[0] == "ok" and r[1] == expected[t]
        out.append(((fin[0] if fin else run.step) + 0.7 + t * 0.01, {"ev": "call", "t": f"t{t}", "res": "ok" if ok else "other"}))
    out.sort(key=lambda x: x[0])
    return [e for _, e in out]


def run(chk):
    warnings.simplefilter("ignore")
    quick = chk.tier == "quick"
    rnd = random.Random(chk.seed)
    chk.rule = ("one case = one real schedule (two threads, <= k preemptions at instruction level inside the initialisation code) executed on fresh "
                "objects; non-trivial = distinct (scenario, preemption positions)")
    # 1. protocol model
    for onload in (True, False):
        r = tlc.run_instance("LazyInit", dict(Threads={"t1", "t2", "t3"}, Locked=True, HasOnload=onload), name="C19_mc", spec="Spec",
                             invariants=["AllSequential", "NoHalfBuilt"], properties=["Terminates"], deadlock=False, coverage=False, timeout=600)
        chk.add_tlc(f"LazyInit Locked protocol, 3 threads, onload={onload} (safety + termination under weak fairness)", r)
        r = tlc.run_instance("LazyInit", dict(Threads={"t1", "t2"}, Locked=False, HasOnload=onload), name="C19_neg", spec="Spec",
                             invariants=["AllSequential", "NoHalfBuilt"], deadlock=False, coverage=False, timeout=600, expect_ok=False)
        if not r.error or "violated" not in r.error:
            raise tlc.MachineryError("negative control: the unprotected protocol was not refuted by TLC")
        chk.extra.setdefault("negative_controls", []).append(f"unprotected protocol (onload={onload}) refuted by TLC: {r.error.splitlines()[0]}")
    # 1b. lazily imported modules
    W = tlc.Raw('[t1 |-> 1, t2 |-> 3, t3 |-> 2]')
    r = tlc.run_instance("ModuleLoad", dict(Threads={"t1", "t2", "t3"}, NAttrs=3, Wants=W, Shortcut=False), name="C19_mod", spec="Spec",
                         invariants=["AllResolved"], properties=["Terminates"], deadlock=False, coverage=False, timeout=600)
    chk.add_tlc("ModuleLoad: importers serialised by the per-module import lock, 3 threads (safety + termination)", r)
    r = tlc.run_instance("ModuleLoad", dict(Threads={"t1", "t2", "t3"}, NAttrs=3, Wants=W, Shortcut=True), name="C19_mod_neg", spec="Spec",
                         invariants=["AllResolved"], deadlock=False, coverage=False, timeout=600, expect_ok=False)
    if not r.error or "violated" not in r.error:
        raise tlc.MachineryError("negative control: the shortcut resolver was not refuted by TLC")
    chk.extra.setdefault("negative_controls", []).append("resolver bypassing the import lock refuted by TLC (AttributeError on a half-executed module)")
    import_races(chk, quick)
    # 2. real schedules
    install_coop_locks()
    traces = []
    total = 0
    for sc in scenarios():
        sched.instrument(sc["code"])
        try:
            seq = [b() for b in sc["make"]()]        # single-threaded reference, on a fresh object
            if seq != sc["expected"]:
                raise tlc.MachineryError(f"{sc['name']}: sequential reference gives {seq}, scenario table says {sc['expected']}")
            nfail = 0
            budget = 9000 if not quick else 700
            for pre, r in sched.explore(sc["make"], bound=2, budget=budget, rnd=rnd, sample_second=3 if quick else 40):
                total += 1
                chk.count((sc["name"], tuple(pre)))
                chk.action(sc["name"])
                res = list(r.results)
                ok = r.error is None and all(x is not None and x[0] == "ok" and x[1] == e for x, e in zip(res, sc["expected"]))
                traces.append({"scenario": sc["name"], "lazy": sc["lazy"], "pre": pre, "events": abstract(r, sc, sc["expected"]), "_ok": ok})
                if not ok and nfail < 40:
                    nfail += 1
                    kinds = sorted({(x[1] if x and x[0] == "error" else ("wrong-result" if x and x[0] == "ok" else str(x and x[0]))) for x, e in zip(res, sc["expected"])
                                    if not (x and x[0] == "ok" and x[1] == e)} | ({r.error} if r.error else set()))
                    where = [lbl for s, t, lbl in r.trace if s in dict(pre)][:2]
                    chk.violation(f"{sc['name']}:{'/'.join(map(str, kinds))}",
                                  f"{sc['name']}: with preemptions {pre} the threads got {res} instead of {sc['expected']}",
                                  {"scenario": sc["name"], "preemptions": pre, "preempted_at": where, "results": res, "expected": sc["expected"],
                                   "trace_tail": r.trace[-12:]})
            chk.extra.setdefault("schedules", {})[sc["name"]] = total
        finally:
            sched.uninstrument()
    chk.traces += total
    chk.uncovered += SKIPPED
    # 3. I->S: validate the projected runs against the Locked protocol
    wd = tlc.WORK / "C19_trace_in"
    wd.mkdir(parents=True, exist_ok=True)
    (wd / "traces.json").write_text(json.dumps([{k: v for k, v in t.items() if not k.startswith("_")} for t in traces]))
    r = tlc.run("Trace_LazyInit", "INIT Init\nNEXT Next\n", name="C19_trace", workers=1, env={"TRACE_FILE": str(wd / "traces.json")},
                coverage=False, timeout=3000)
    chk.add_tlc("Trace_LazyInit over the executed schedules", r)
    seen = set()
    for b in r.emits:
        t = traces[b["tid"] - 1]
        if t["_ok"] or (t["scenario"], b["clause"]) in seen:
            continue            # (a failing run is already reported with its schedule)
        seen.add((t["scenario"], b["clause"]))
    for b in r.emits:
        t = traces[b["tid"] - 1]
        if t["_ok"]:
            chk.violation(f"{t['scenario']}:protocol:{b['clause']}", f"{t['scenario']}: schedule {t['pre']} is not a behaviour of the locked protocol: {b['clause']}",
                          {"scenario": t["scenario"], "preemptions": t["pre"], "events": t["events"]})
    if traces:
        chk.sample({"schedule": traces[len(traces) // 2]})
    # 4. free-running stress
    sched.uninstrument()
    import passlib.context as pc
    import passlib.utils.binary as pb
    bad = 0
    for rep in range(40 if quick else 400):
        ctx = pc.LazyCryptContext(schemes=["md5_crypt", "des_crypt"])
        eng = pb.LazyBase64Engine(pb.HASH64_CHARS)
        errs = []
        start = threading.Barrier(8)

        def worker():
            try:
                start.wait()
                if ctx.default_scheme() != "md5_crypt" or eng.encode_bytes(b"ab") != b"V74":
                    errs.append("wrong")
            except Exception as e:   # noqa: BLE001
                errs.append(type(e).__name__)
        ths = [threading.Thread(target=worker) for _ in range(8)]
        [t.start() for t in ths]
        [t.join() for t in ths]
        chk.evaluations += 1
        if errs:
            bad += 1
            if bad <= 3:
                chk.violation("stress:" + errs[0], f"free-running first use from 8 threads failed: {errs[:4]}", {"errors": errs})
    chk.assumptions += ["yield points are the bytecode instructions of the listed initialisation functions and lock operations; everything else runs atomically",
                        "C-level atomicity of dict/attribute operations (GIL build)",
                        "bcrypt's shared-owner backend loading is not schedule-explored (its state cannot be reset inside one process)"]


IMPORT_CHILD = r'''
import sys, threading, json, warnings
warnings.simplefilter("ignore")
sys.path.insert(0, %(repo)r)
modfile, pause_line, name_a, name_b = %(modfile)r, %(line)d, %(a)r, %(b)r
from passlib import registry
paused, b_done = threading.Event(), threading.Event()
res = {}
mon = sys.monitoring
TOOL = 4
mon.use_tool_id(TOOL, "verif-import")
state = {"hit": False}
def on_line(code, line):
    # the thread executing the module body stops at the chosen line until the other thread has finished - or had time to block
    if not state["hit"] and code.co_filename.endswith(modfile) and code.co_name == "<module>" and line >= pause_line:
        state["hit"] = True
        paused.set()
        b_done.wait(0.6)
mon.register_callback(TOOL, mon.events.LINE, on_line)
mon.set_events(TOOL, mon.events.LINE)
def run(key, name):
    try:
        h = registry.get_crypt_handler(name)
        res[key] = ["ok", getattr(h, "name", None)]
    except BaseException as e:
        res[key] = ["error", type(e).__name__, str(e)[:120]]
def a():
    run("a", name_a)
    paused.set()
def b():
    paused.wait(5)
    run("b", name_b)
    b_done.set()
ta, tb = threading.Thread(target=a), threading.Thread(target=b)
ta.start(); tb.start(); ta.join(20); tb.join(20)
mon.set_events(TOOL, 0)
print(json.dumps({"res": res, "paused_inside": state["hit"]}))
'''


def import_races(chk, quick):
    """S->I for ModuleLoad: thread A is stopped inside the body of a handler module (at several depths) while thread B resolves
    another name of the same module, in a fresh interpreter each time"""
    import subprocess
    import sys
    import os
    mods = [("handlers/sha2_crypt.py", "sha256_crypt", "sha512_crypt"), ("handlers/digests.py", "hex_md5", "hex_sha512"),
            ("handlers/pbkdf2.py", "pbkdf2_sha1", "grub_pbkdf2_sha512"), ("handlers/ldap_digests.py", "ldap_md5", "ldap_salted_sha512")]
    if quick:
        mods = mods[:3]
    for modfile, a, b in mods:
        path = os.path.join(chk.repo, "passlib", modfile)
        nlines = sum(1 for _ in open(path))
        for frac in ((0.3, 0.7) if quick else (0.1, 0.3, 0.5, 0.7, 0.9)):
            line = int(nlines * frac)
            src = IMPORT_CHILD % dict(repo=chk.repo, modfile="passlib/" + modfile, line=line, a=a, b=b)
            p = subprocess.run([sys.executable, "-c", src], capture_output=True, text=True, timeout=120)
            try:
                out = json.loads(p.stdout.strip().splitlines()[-1])
            except Exception:
                raise tlc.MachineryError(f"import race child failed: {p.stderr[-300:]}")
            chk.count(("import-race", modfile, frac))
            chk.action("import-race")
            chk.traces += 1
            res = out["res"]
            if res.get("a") != ["ok", a] or res.get("b") != ["ok", b]:
                chk.violation(f"registry-import:{modfile}:{(res.get('b') or res.get('a') or ['?', '?'])[1]}",
                              f"while one thread was importing passlib/{modfile} (stopped at line {line}), resolving {a!r} / {b!r} gave {res}",
                              {"module": modfile, "line": line, "results": res, "paused_inside_module": out["paused_inside"]})


def replay(chk, path):
    v = json.loads(open(path).read())
    d = v["detail"]
    print(json.dumps(d, indent=1, default=str)[:3000])
    if "preemptions" in d:
        install_coop_locks()
        sc = next(s for s in scenarios() if s["name"] == d["scenario"])
        sched.instrument(sc["code"])
        r = sched.Run(sc["make"](), [tuple(p) for p in d["preemptions"]]).execute()
        sched.uninstrument()
        print("re-executed:", r.results, "expected", sc["expected"])
        return 0 if all(x and x[0] == "ok" and x[1] == e for x, e in zip(r.results, sc["expected"])) else 1
    return 1
