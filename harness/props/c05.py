"""C05 - size limits: no silent truncation when forbidden, no oversized passwords.

spec/HashVerify.tla + MC_HashVerify.tla; binding in harness/hashverify.py (truncation / size / NUL part).
 1. TLC: with truncate_error nothing beyond the limit is accepted silently; without it exactly the first limit-many BYTES
    matter in hash and verify alike; longer-than-maximum passwords are refused; NUL is refused by crypt()-compatible classes.
 2. S->I: truncating hashers (des_crypt, crypt16, bcrypt, wrappers, lmhash, cisco_pix/asa) x truncate_error on/off (set on the
    hasher, as scheme option of a CryptContext, or context-wide) x passwords whose BYTE length is limit-1/limit/limit+1 with
    1- and 2-byte characters, text and bytes; every hasher at 4095/4096/4097 bytes; NUL at several positions.
"""
from __future__ import annotations

from .. import hashverify as hv
from ..hashverify import replay  # noqa: F401


def run(chk):
    chk.rule = ("one case = one hash() or verify() call on a real hasher for a transition TLC enumerated in the truncation or the size mode; "
                "non-trivial = distinct (hasher, mode, truncate_error, expected outcome, symbol count[, same password])")
    hs = hv.run_shared(chk, "C05")
    # every hasher refuses passwords beyond the library-wide maximum, and so does CryptContext
    from passlib.context import CryptContext
    from passlib import exc
    for name, h in hv.handlers(chk):
        ctxkw = {k: "user" for k in ("user",) if k in h.context_kwds}
        if "realm" in h.context_kwds:
            ctxkw["realm"] = "realm"
        for n, expect in ((4097, "SizeError"),):
            for form in ("x" * n, b"x" * n):
                try:
                    h.hash(form, **ctxkw)
                    got = "ok"
                except exc.PasswordSizeError:
                    got = "SizeError"
                except Exception as e:
                    got = type(e).__name__
                chk.count((name, "maxsize", type(form).__name__))
                if got != expect:
                    chk.violation(f"{name}:hash:SizeError->{got}:maxsize", f"{name}.hash of a {n}-byte password gave {got}", {"hasher": name, "bytes": n})
        try:
            cc = CryptContext(schemes=[name])
            try:
                cc.hash("x" * 4097, **ctxkw)
                got = "ok"
            except exc.PasswordSizeError:
                got = "SizeError"
            except Exception as e:
                got = type(e).__name__
            chk.evaluations += 1
            if got != "SizeError":
                chk.violation(f"context:{name}:maxsize:{got}", f"CryptContext([{name}]).hash of 4097 bytes gave {got}", {"hasher": name})
        except Exception:
            pass
    chk.assumptions += ["lmhash is exercised with ASCII symbols in its default encoding (cp437); other encodings are not",
                        "the library-wide maximum is measured on ASCII passwords (characters = bytes)"]
