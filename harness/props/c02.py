"""C02 - every format computes the published algorithm bit for bit.

spec/algo/: ShaCrypt.tla (Drepper's SHA-crypt steps, PHK's md5-crypt, NetBSD's sha1-crypt), Formats.tla (digest, LDAP, database,
phpass, FSHP, cisco, PBKDF2-family, scrypt, scram, bcrypt-family formats), DesFormats.tla / NtFormats.tla (formats over DES and
MD4, evaluated completely by TLC with prim/Des.tla and prim/Md4.tla).
 1. For every shape of the sweep (password length, salt size, cost, variant, user) TLC builds the format's reference PROGRAM from
    the published description; the harness evaluates it over concrete bytes with trusted primitives only (hashlib, hmac, the
    bcrypt C library for the bcrypt core) - no passlib code - and demands  passlib.hash(pw) == reference,
    passlib.verify(pw, reference) and not passlib.verify(near-miss, reference).  Pure-Python backends are selected explicitly.
 2. The specifications themselves are validated against independent providers (libxcrypt, Django's hashers) in the same run:
    a disagreement there is a machinery failure, not a finding.
 3. Provider-made strings (crypt(), Django) verify under passlib.
"""
from __future__ import annotations

import json
import random
import warnings

from .. import tlc, terms
from ..common import VERIF

PLENS = [0, 1, 7, 8, 9, 15, 16, 17, 55, 56, 63, 64, 65, 72, 73, 95, 96, 97, 127, 128, 129, 255, 256]
H64 = "./0123456789ABCDEFGHIJKLMNOPQRSTUVWXYZabcdefghijklmnopqrstuvwxyz"
B64BC = "./ABCDEFGHIJKLMNOPQRSTUVWXYZabcdefghijklmnopqrstuvwxyz0123456789"


def content(kind, n, rnd):
    """n bytes of password content; 'utf8' is valid UTF-8 text, 'bytes' runs through every value 1..255"""
    if kind == "ascii":
        return bytes(33 + (i * 7 + 3) % 94 for i in range(n))
    if kind == "bytes":
        off = rnd.randrange(255)
        return bytes((i + off) % 255 + 1 for i in range(n))
    if kind == "ff":
        return b"\xff" * n
    s, out = ("p\xe4€\U0001F600z" if kind != "latin" else "p\xe4\xe9z\xf1"), b""
    i = 0
    while True:
        c = s[i % len(s)].encode()
        if len(out) + len(c) > n:
            break
        out += c
        i += 1
    return out + b"x" * (n - len(out))


def near_miss(pw, significant=None):
    """a different password that shares as much as possible"""
    if not pw:
        return b"x"
    k = (significant or len(pw)) - 1
    k = min(k, len(pw) - 1)
    b = pw[k]
    nb = b ^ 1 if 32 <= (b ^ 1) < 127 or b >= 128 else (b % 120) + 2
    if nb == 0:
        nb = 2
    return pw[:k] + bytes([nb]) + pw[k + 1:]


class LibpassAdapter:
    """libpass hashers under the calling convention of the sweep (verify(password, stored))"""

    def __init__(self, fmt):
        from libpass.hashers.sha_crypt import SHA256Hasher, SHA512Hasher
        from libpass.hashers.pbkdf2 import PBKDF2SHA256Handler, PBKDF2SHA512Handler
        self.cls = {"sha256_crypt": SHA256Hasher, "sha512_crypt": SHA512Hasher, "pbkdf2_sha256": PBKDF2SHA256Handler, "pbkdf2_sha512": PBKDF2SHA512Handler}[fmt]

    def verify(self, pw, stored):
        return self.cls().verify(stored, pw)


class Sweep:
    def __init__(self, chk, quick, rnd):
        self.chk, self.quick, self.rnd = chk, quick, rnd
        self.cases = []
        self.shapes = []
        self.shape_ids = {}

    def shape(self, **s):
        key = json.dumps(s, sort_keys=True)
        if key not in self.shape_ids:
            self.shapes.append(s)
            self.shape_ids[key] = len(self.shapes)
        return self.shape_ids[key]

    def add(self, handler, shape, inputs, make, ctx=None, significant=None, text_only=False, label=None, verify_only=False, post=None):
        self.cases.append(dict(handler=handler, sid=self.shape(**shape), inputs=inputs, make=make, ctx=ctx or {}, significant=significant, label=label or handler,
                               verify_only=verify_only, post=post))

    def plens(self, extra=(), cap=None):
        ls = PLENS if not self.quick else [0, 1, 8, 9, 16, 17, 55, 56, 64, 65, 72, 73, 96, 128, 255]
        ls = list(ls) + list(extra)
        if not self.quick:
            ls.append(4096)
        return [x for x in ls if cap is None or x <= cap]

    def kinds(self, plen, text=False):
        ks = ["ascii", "utf8"] if text else ["ascii", "bytes", "utf8"]
        if self.quick:
            return [ks[plen % len(ks)]]
        return ks


def build(sw):
    rnd, quick = sw.rnd, sw.quick

    def salt_text(n, chars=H64):
        return "".join(rnd.choice(chars) for _ in range(n))

    def salt_bytes(n):
        return bytes(rnd.randrange(256) for _ in range(n))

    # ---- sha-crypt ---------------------------------------------------------------------
    for name, alg in (("sha256_crypt", "sha256"), ("sha512_crypt", "sha512")):
        for k, plen in enumerate(sw.plens()):
            for kind in sw.kinds(plen):
                slen = [0, 1, 8, 15, 16][k % 5]
                rounds = 1000 + (k % 3)
                salt = salt_text(slen)
                sw.add(name, dict(fmt=name, plen=plen, rounds=rounds, explicit=True), dict(password=content(kind, plen, rnd), salt=salt.encode()),
                       lambda h, pw, salt=salt, rounds=rounds: h.using(salt=salt, rounds=rounds).hash(pw))
        for rounds in ([1041, 1042, 1043, 5000, 2048] if quick else [1001, 1006, 1007, 1020, 1021, 1041, 1042, 1043, 1083, 1084, 1085, 2047, 2048, 4999, 5000, 5001, 10000]):
            for plen in ((7, 64) if not quick else (7,)):
                salt = salt_text(rnd.choice([2, 16]))
                sw.add(name, dict(fmt=name, plen=plen, rounds=rounds, explicit=rounds != 5000), dict(password=content("bytes", plen, rnd), salt=salt.encode()),
                       lambda h, pw, salt=salt, rounds=rounds: h.using(salt=salt, rounds=rounds).hash(pw))
    # ---- the same two formats as computed by libpass's own hashers (costs around the 42-round blocks of the optimised loop) ----
    for name, alg in (("sha256_crypt", "sha256"), ("sha512_crypt", "sha512")):
        for rounds in ([1000, 1009, 1042, 1043, 5000, 5041] if quick else [1000, 1001, 1006, 1007, 1008, 1009, 1010, 1041, 1042, 1043, 1050, 1051, 1083, 1084, 1085, 2048, 5000, 5041]):
            for plen in ((7, 64) if not quick else (rnd.choice([7, 17, 64]),)):
                salt = salt_text(rnd.choice([2, 16]))
                sw.add("libpass:" + name, dict(fmt=name, plen=plen, rounds=rounds, explicit=True), dict(password=content("bytes", plen, rnd), salt=salt.encode()),
                       lambda h, pw, salt=salt, rounds=rounds: h.cls(rounds=rounds).hash(pw, salt=salt), label="libpass/" + name)
    # ---- {CRYPT} wrappers, plaintext ---------------------------------------------------------------
    for k, plen in enumerate(sw.plens()[:10]):
        pw = content(sw.kinds(plen)[0], plen, rnd)
        salt = salt_text(8)
        sw.add("ldap_md5_crypt", dict(fmt="prefixed", tag="{CRYPT}", inner=dict(fmt="md5_crypt", plen=plen, rounds=0, explicit=False)), dict(password=pw, salt=salt.encode()),
               lambda h, pw, salt=salt: h.using(salt=salt).hash(pw))
        sw.add("ldap_sha1_crypt", dict(fmt="prefixed", tag="{CRYPT}", inner=dict(fmt="sha1_crypt", plen=0, rounds=3, explicit=True)), dict(password=pw, salt=salt.encode()),
               lambda h, pw, salt=salt: h.using(salt=salt, rounds=3).hash(pw))
        for nm in ("sha256_crypt", "sha512_crypt"):
            sw.add("ldap_" + nm, dict(fmt="prefixed", tag="{CRYPT}", inner=dict(fmt=nm, plen=plen, rounds=1000, explicit=True)), dict(password=pw, salt=salt.encode()),
                   lambda h, pw, salt=salt: h.using(salt=salt, rounds=1000).hash(pw))
        if plen <= 72:
            bs = salt_text(21, B64BC) + "."
            sw.add("ldap_bcrypt", dict(fmt="prefixed", tag="{CRYPT}", inner=dict(fmt="bcrypt", tag="2b", rounds=4, plen=plen)), dict(password=pw, salt=bs.encode()),
                   lambda h, pw, bs=bs: h.using(salt=bs, rounds=4, ident="2b").hash(pw), significant=72)
        sw.add("roundup_plaintext", dict(fmt="plain", tag="{plaintext}"), dict(password=content("utf8", plen, rnd)), lambda h, pw: h.hash(pw))
        sw.add("plaintext", dict(fmt="plain", tag=""), dict(password=content("utf8", plen, rnd)), lambda h, pw: h.hash(pw))
        if plen:
            sw.add("ldap_plaintext", dict(fmt="plain", tag=""), dict(password=content("ascii", plen, rnd).replace(b"{", b"(")), lambda h, pw: h.hash(pw))
        sw.add("ldap_hex_md5", dict(fmt="ldap_hex", tag="{MD5}", alg="md5"), dict(password=pw), lambda h, pw: h.hash(pw))
        sw.add("ldap_hex_sha1", dict(fmt="ldap_hex", tag="{SHA}", alg="sha1"), dict(password=pw), lambda h, pw: h.hash(pw))
    # ---- md5-crypt ----------------------------------------------------------------------
    for name in ("md5_crypt", "apr_md5_crypt"):
        for k, plen in enumerate(sw.plens()):
            for kind in sw.kinds(plen):
                salt = salt_text([0, 1, 7, 8][k % 4])
                sw.add(name, dict(fmt=name, plen=plen, rounds=0, explicit=False), dict(password=content(kind, plen, rnd), salt=salt.encode()),
                       lambda h, pw, salt=salt: h.using(salt=salt).hash(pw))
    # ---- sha1-crypt ---------------------------------------------------------------------
    for k, plen in enumerate(sw.plens()):
        rounds = [1, 2, 3, 41, 42, 43, 64, 100][k % 8]
        salt = salt_text([0, 1, 8, 64][k % 4])
        sw.add("sha1_crypt", dict(fmt="sha1_crypt", plen=0, rounds=rounds, explicit=True), dict(password=content(sw.kinds(plen)[0], plen, rnd), salt=salt.encode()),
               lambda h, pw, salt=salt, rounds=rounds: h.using(salt=salt, rounds=rounds).hash(pw))
    # ---- digests ---------------------------------------------------------------------------
    for name, alg in (("hex_md5", "md5"), ("hex_sha1", "sha1"), ("hex_sha256", "sha256"), ("hex_sha512", "sha512")):
        for plen in sw.plens():
            sw.add(name, dict(fmt="hex", alg=alg), dict(password=content(sw.kinds(plen)[0], plen, rnd)), lambda h, pw: h.hash(pw))
    for name, tag, alg in (("ldap_md5", "{MD5}", "md5"), ("ldap_sha1", "{SHA}", "sha1")):
        for plen in sw.plens():
            sw.add(name, dict(fmt="ldap_digest", tag=tag, alg=alg), dict(password=content(sw.kinds(plen)[0], plen, rnd)), lambda h, pw: h.hash(pw))
    for name, tag, alg in (("ldap_salted_md5", "{SMD5}", "md5"), ("ldap_salted_sha1", "{SSHA}", "sha1"), ("ldap_salted_sha256", "{SSHA256}", "sha256"),
                           ("ldap_salted_sha512", "{SSHA512}", "sha512")):
        for k, plen in enumerate(sw.plens()):
            salt = salt_bytes([4, 5, 8, 16][k % 4])
            sw.add(name, dict(fmt="ldap_salted", tag=tag, alg=alg), dict(password=content(sw.kinds(plen)[0], plen, rnd), salt=salt),
                   lambda h, pw, salt=salt: h.using(salt=salt).hash(pw))
    for plen in sw.plens():
        sw.add("mysql41", dict(fmt="mysql41"), dict(password=content(sw.kinds(plen)[0], plen, rnd)), lambda h, pw: h.hash(pw))
        user = content("utf8", [0, 1, 5, 30][plen % 4], rnd)
        sw.add("postgres_md5", dict(fmt="postgres_md5"), dict(password=content(sw.kinds(plen)[0], plen, rnd), user=user),
               lambda h, pw, user=user: h.hash(pw, user=user.decode()), ctx=dict(user=user.decode()))
        salt = salt_bytes(10)
        sw.add("oracle11", dict(fmt="oracle11"), dict(password=content(sw.kinds(plen)[0], plen, rnd), salt=salt),
               lambda h, pw, salt=salt: h.using(salt=salt.hex().upper()).hash(pw))
        salt4 = salt_bytes(4)
        for name in ("mssql2000", "mssql2005"):
            sw.add(name, dict(fmt=name), dict(password=content(["ascii", "utf8"][plen % 2], plen, rnd), salt=salt4),
                   lambda h, pw, salt4=salt4: h.using(salt=salt4).hash(pw.decode()))
        realm = content("ascii", [0, 3, 12][plen % 3], rnd).replace(b":", b"_")
        u2 = content("ascii", [1, 5, 9][plen % 3], rnd).replace(b":", b"_")
        sw.add("htdigest", dict(fmt="htdigest"), dict(password=content(sw.kinds(plen)[0], plen, rnd), user=u2, realm=realm),
               lambda h, pw, u2=u2, realm=realm: h.hash(pw, user=u2.decode(), realm=realm.decode()), ctx=dict(user=u2.decode(), realm=realm.decode()))
        # htdigest with another file encoding: user, realm and password are all in that encoding
        for enc in ("latin-1", "cp1252"):
            ut, rt_, pt = "us\xe9r", "r\xe9alm \xfc", "p\xe4ss\xf6" + "x" * (plen % 5)
            sw.add("htdigest", dict(fmt="htdigest"), dict(password=pt.encode(enc), user=ut.encode(enc), realm=rt_.encode(enc)),
                   lambda h, pw, ut=ut, rt_=rt_, pt=pt, enc=enc: h.hash(pt, user=ut, realm=rt_, encoding=enc), ctx=dict(user=ut, realm=rt_, encoding=enc), label="htdigest/" + enc)
        for name, tag, alg in (("django_salted_sha1", "sha1$", "sha1"), ("django_salted_md5", "md5$", "md5")):
            salt = salt_text([1, 12, 22][plen % 3], "abcdefghijklmnopqrstuvwxyzABCDEFGHIJKLMNOPQRSTUVWXYZ0123456789")
            sw.add(name, dict(fmt="django_salted", tag=tag, alg=alg), dict(password=content(sw.kinds(plen)[0], plen, rnd), salt=salt.encode()),
                   lambda h, pw, salt=salt: h.using(salt=salt).hash(pw))
    # ---- phpass / fshp / cisco -------------------------------------------------------------
    for k, plen in enumerate(sw.plens()):
        cost = [7, 8, 9][k % 3]
        ident = ["$P$", "$H$"][k % 2]
        salt = salt_text(8)
        sw.add("phpass", dict(fmt="phpass", tag=ident, rounds=cost), dict(password=content(sw.kinds(plen)[0], plen, rnd), salt=salt.encode()),
               lambda h, pw, salt=salt, cost=cost, ident=ident: h.using(salt=salt, rounds=cost, ident=ident).hash(pw))
        v = k % 4
        slen = [0, 1, 8, 16, 33][k % 5]
        rounds = [1, 2, 3, 50][k % 4]
        salt = salt_bytes(slen)
        sw.add("fshp", dict(fmt="fshp", variant=v, slen=slen, rounds=rounds), dict(password=content(sw.kinds(plen)[0], plen, rnd), salt=salt),
               lambda h, pw, salt=salt, rounds=rounds, v=v: h.using(salt=salt, rounds=rounds, variant=v).hash(pw))
    for plen in list(range(0, 18)) + [27, 28, 29, 31, 32]:
        for ulen in (0, 1, 3, 4, 5, 9):
            user = content("utf8" if (ulen >= 2 and (plen + ulen) % 2) else "ascii", ulen, rnd)      # (lengths count UTF-8 bytes: the first FOUR BYTES of the user are mixed in)
            pw = content(["ascii", "bytes"][plen % 2], plen, rnd)
            if plen <= 16:
                sw.add("cisco_pix", dict(fmt="cisco_pix", plen=plen, ulen=ulen), dict(password=pw, user=user),
                       lambda h, pw, user=user: h.hash(pw, user=user.decode()) if user else h.hash(pw), ctx=dict(user=user.decode()) if user else {})
            sw.add("cisco_asa", dict(fmt="cisco_asa", plen=plen, ulen=ulen), dict(password=pw, user=user),
                   lambda h, pw, user=user: h.hash(pw, user=user.decode()) if user else h.hash(pw), ctx=dict(user=user.decode()) if user else {})
    for off in (range(0, 16) if quick else range(0, 53)):
        plen = [0, 1, 7, 25, 53, 60][off % 6]
        sw.add("cisco_type7", dict(fmt="cisco_type7", rounds=off), dict(password=content("ascii", plen, rnd)),
               lambda h, pw, off=off: h.using(salt=off).hash(pw), verify_only=False)
    # ---- pbkdf2 family -----------------------------------------------------------------------
    for name, tag, alg, n in (("pbkdf2_sha1", "$pbkdf2$", "sha1", 20), ("pbkdf2_sha256", "$pbkdf2-sha256$", "sha256", 32), ("pbkdf2_sha512", "$pbkdf2-sha512$", "sha512", 64),
                              ("ldap_pbkdf2_sha1", "{PBKDF2}", "sha1", 20), ("ldap_pbkdf2_sha256", "{PBKDF2-SHA256}", "sha256", 32), ("ldap_pbkdf2_sha512", "{PBKDF2-SHA512}", "sha512", 64)):
        for k, plen in enumerate(sw.plens()):
            rounds = [1, 2, 3, 10, 1000][k % 5]
            salt = salt_bytes([0, 1, 2, 16, 17, 18, 64][k % 7])          # (every length class of the base64 tail: 0, 1, 2 mod 3)
            sw.add(name, dict(fmt="pbkdf2", tag=tag, alg=alg, rounds=rounds, n=n), dict(password=content(sw.kinds(plen)[0], plen, rnd), salt=salt),
                   lambda h, pw, salt=salt, rounds=rounds: h.using(salt=salt, rounds=rounds).hash(pw))
            if name in ("pbkdf2_sha256", "pbkdf2_sha512") and salt:
                # the same format as computed by libpass's own hashers
                sw.add("libpass:" + name, dict(fmt="pbkdf2", tag=tag, alg=alg, rounds=rounds, n=n), dict(password=content(sw.kinds(plen)[0], plen, rnd), salt=salt),
                       lambda h, pw, salt=salt, rounds=rounds: h.cls(rounds=rounds).hash(pw, salt=salt), label="libpass/" + name)
    for k, plen in enumerate(sw.plens()):
        pw = content(sw.kinds(plen)[0], plen, rnd)
        salt = salt_bytes(16)
        sw.add("atlassian_pbkdf2_sha1", dict(fmt="atlassian"), dict(password=pw, salt=salt), lambda h, pw, salt=salt: h.using(salt=salt).hash(pw))
        rounds = [1, 2, 400, 1000][k % 4]
        salt = salt_bytes([0, 1, 64][k % 3])
        sw.add("grub_pbkdf2_sha512", dict(fmt="grub", rounds=rounds), dict(password=pw, salt=salt), lambda h, pw, salt=salt, rounds=rounds: h.using(salt=salt, rounds=rounds).hash(pw))
        salt = salt_bytes([0, 1, 16, 17][k % 4])
        sw.add("cta_pbkdf2_sha1", dict(fmt="cta", rounds=rounds), dict(password=pw, salt=salt), lambda h, pw, salt=salt, rounds=rounds: h.using(salt=salt, rounds=rounds).hash(pw))
        st = salt_text([0, 1, 16][k % 3])
        sw.add("dlitz_pbkdf2_sha1", dict(fmt="dlitz", rounds=rounds), dict(password=pw, salt=st.encode()), lambda h, pw, st=st, rounds=rounds: h.using(salt=st, rounds=rounds).hash(pw))
        for name, tag, alg, n in (("django_pbkdf2_sha256", "pbkdf2_sha256$", "sha256", 32), ("django_pbkdf2_sha1", "pbkdf2_sha1$", "sha1", 20)):
            st = salt_text([1, 12, 22][k % 3], "abcdefghijklmnopqrstuvwxyzABCDEFGHIJKLMNOPQRSTUVWXYZ0123456789")
            sw.add(name, dict(fmt="django_pbkdf2", tag=tag, alg=alg, rounds=rounds, n=n), dict(password=pw, salt=st.encode()),
                   lambda h, pw, st=st, rounds=rounds: h.using(salt=st, rounds=rounds).hash(pw))
        ln, r, p = [(1, 1, 1), (2, 8, 1), (4, 2, 3), (3, 1, 2)][k % 4]
        salt = salt_bytes([0, 1, 16, 33][k % 4])
        sw.add("scrypt", dict(fmt="scrypt", rounds=ln, r=r, p=p), dict(password=pw, salt=salt),
               lambda h, pw, salt=salt, ln=ln, r=r, p=p: h.using(salt=salt, rounds=ln, block_size=r, parallelism=p).hash(pw))
    # scrypt's own "$7$" spelling (salt is text there)
    for k, (ln, r, p) in enumerate([(1, 1, 1), (2, 8, 1), (4, 2, 3), (3, 1, 2), (1, 63, 1), (1, 64, 1), (2, 1, 65),
                                   (1, 4096, 1), (1, 1, 4097), (1, 266305, 1) if not quick else (1, 4160, 1)]):     # fields that need the third and fourth digit
        plen = sw.plens()[k % len(sw.plens())]
        pw = content(sw.kinds(plen)[0], plen, rnd)
        st = salt_text([0, 1, 14, 22][k % 4])
        sw.add("scrypt", dict(fmt="scrypt7", rounds=ln, r=r, p=p), dict(password=pw, salt=st.encode()),
               lambda h, pw, st=st, ln=ln, r=r, p=p: h.using(ident="$7$", salt=st.encode(), rounds=ln, block_size=r, parallelism=p).hash(pw), label="scrypt/$7$")
    # scram: per-algorithm digests
    tricky = ["e\u00ad\u0301", "pa\u200b\u0308ss", "o\u2060\u0302k", "x\u00a0y", "I\u2168", "\u00aa\u00adb", "n\u180b\u0303o"]      # mapping enables a composition / compatibility forms
    for k, plen in enumerate(sw.plens(cap=300)):
        pwt = content(["ascii", "latin"][k % 2], plen, rnd)          # SASLprep-clean text (no code points unassigned in Unicode 3.2)
        if k < len(tricky):
            pwt = tricky[k].encode("utf-8")
        for alg in ("sha-1", "sha-256", "sha-512", "md5"):
            rounds = [1, 2, 100][k % 3]
            salt = salt_bytes([0, 1, 12][k % 3])
            halg = alg.replace("-", "")
            sw.add("scram", dict(fmt="scram", alg=halg, rounds=rounds), dict(password=pwt, salt=salt),
                   lambda h, pw, salt=salt, rounds=rounds, alg=alg: h.derive_digest(pw.decode(), salt, rounds, alg), label="scram.derive_digest", post="raw")
    # ---- bcrypt family --------------------------------------------------------------------------
    for k, plen in enumerate([x for x in sw.plens() if x <= 300]):
        for ident in ("2a", "2b", "2y", "2"):
            if quick and (k + len(ident)) % 2:
                continue
            cost = 4 + (k % 2)
            salt = salt_text(21, B64BC) + rnd.choice(".Oeu")
            pw = content(sw.kinds(plen)[0], plen, rnd)
            sw.add("bcrypt", dict(fmt="bcrypt", tag=ident, rounds=cost, plen=plen), dict(password=pw, salt=salt.encode()),
                   lambda h, pw, salt=salt, cost=cost, ident=ident: h.using(salt=salt, rounds=cost, ident=ident).hash(pw), significant=72)
        for version in (1, 2):
            cost = 4
            salt = salt_text(21, B64BC) + rnd.choice(".Oeu")
            pw = content(sw.kinds(plen)[0], plen, rnd)
            sw.add("bcrypt_sha256", dict(fmt="bcrypt_sha256", variant=version, rounds=cost), dict(password=pw, salt=salt.encode()),
                   lambda h, pw, salt=salt, cost=cost, version=version: h.using(salt=salt, rounds=cost, version=version).hash(pw))
        salt = salt_text(21, B64BC) + rnd.choice(".Oeu")
        sw.add("django_bcrypt_sha256", dict(fmt="django_bcrypt_sha256", rounds=4), dict(password=pw, salt=salt.encode()),
               lambda h, pw, salt=salt: h.using(salt=salt, rounds=4).hash(pw))


def bcrypt_prim(ident, pw, salt, cost):
    import bcrypt as cb
    if b"\0" in pw:
        raise terms.EvalError("NUL in bcrypt key")
    return cb.hashpw(pw, b"$2b$%02d$" % cost + salt)[29:]


def run(chk):
    warnings.simplefilter("ignore")
    quick = chk.tier == "quick"
    rnd = random.Random(chk.seed)
    chk.rule = ("one case = one (format, password length/content, salt, cost, variant, user) tuple: TLC builds the reference program for its shape, the harness evaluates it "
                "with trusted primitives and compares hash(), verify(right) and verify(near miss) of the real hasher. non-trivial = distinct (format, shape)")
    from passlib import registry
    sw = Sweep(chk, quick, rnd)
    build(sw)
    from . import c02_tlcfmt
    wd = tlc.WORK / "C02_in"
    wd.mkdir(parents=True, exist_ok=True)
    (wd / "shapes.json").write_text(json.dumps(sw.shapes))
    r = tlc.run("MC_Algo", "INIT Init\nNEXT Next\n", name="C02_programs", workers=16, env={"TRACE_FILE": str(wd / "shapes.json")}, coverage=False, timeout=3000, heap="12g")
    chk.add_tlc(f"MC_Algo: reference programs for {len(sw.shapes)} shapes", r)
    progs = {e["shape"]: e["prog"] for e in r.emits}
    if len(progs) != len(sw.shapes):
        raise tlc.MachineryError(f"MC_Algo produced {len(progs)} of {len(sw.shapes)} programs")
    prims = {"bcrypt": bcrypt_prim}
    handlers = {}
    backend_turn = {}
    restore = []
    validated = selfcheck(chk, sw, progs, prims)
    chk.extra["spec_programs_validated_against_providers"] = validated
    for c in sw.cases:
        name = c["handler"]
        if name.startswith("libpass:") and name not in handlers:
            handlers[name] = LibpassAdapter(name.split(":")[1])
        if name not in handlers:
            h = registry.get_crypt_handler(name)
            if hasattr(h, "set_backend") and hasattr(h, "backends") and "builtin" in getattr(h, "backends", ()):
                try:
                    old = h.get_backend()
                    h.set_backend("builtin")
                    restore.append((h, old))
                except Exception:
                    pass
            handlers[name] = h
        h = handlers[name]
        # formats with several implementations of their own (bcrypt family: the bcrypt package with its $2$ / wrap-around emulations, and
        # the pure-Python engine): the sweep alternates between the usable ones (their agreement on every key is C03's subject)
        if hasattr(h, "set_backend") and "bcrypt" in getattr(h, "backends", ()) and not name.startswith("libpass:"):
            nb_ = backend_turn.setdefault(name, [0])
            nb_[0] += 1
            for b_ in (("bcrypt", "builtin") if nb_[0] % 3 else ("builtin", "bcrypt")):      # (period 3 against groups of 4 idents: every ident meets both)
                try:
                    h.set_backend(b_)
                    break
                except Exception:
                    continue
        pw = c["inputs"]["password"]
        shape = sw.shapes[c["sid"] - 1]
        try:
            want = terms.run_program(progs[c["sid"]], c["inputs"], prims)
        except terms.EvalError as ex:
            raise tlc.MachineryError(f"{name}: evaluation of the reference program failed: {ex}")
        detail = {"format": name, "shape": shape, "password_hex": pw.hex()[:200], "password_len": len(pw),
                  "inputs": {k: v.hex() for k, v in c["inputs"].items() if k != "password"}}
        chk.count((c["label"], json.dumps({k: v for k, v in shape.items() if k not in ("plen",)}, sort_keys=True), min(len(pw), 130)))
        chk.action(name)
        try:
            got = c["make"](h, pw)
        except Exception as ex:
            chk.violation(f"{c['label']}:hash:{type(ex).__name__}", f"{name}: hash() raised {type(ex).__name__}: {ex}", detail)
            continue
        if c["post"] == "raw":
            if got != want:
                chk.violation(f"{c['label']}:differs", f"{c['label']} gives {got.hex()[:40]}, specification {want.hex()[:40]}", detail)
            continue
        gotb = got if isinstance(got, bytes) else got.encode("utf-8")
        got = gotb.decode("latin-1")
        wants = want.decode("latin-1")
        if gotb != want:
            chk.violation(f"{c['label']}:hash-differs", f"{name}: hash() = {got[:90]}, published algorithm gives {wants[:90]}", dict(detail, library=got, reference=wants))
            continue
        try:
            ref = want.decode("utf-8")          # stored hashes are text
            ok = h.verify(pw, ref, **c["ctx"])
            nm = near_miss(pw, c["significant"])
            bad = h.verify(nm, ref, **c["ctx"])
        except Exception as ex:
            chk.violation(f"{c['label']}:verify:{type(ex).__name__}", f"{name}: verify() of the reference string raised {type(ex).__name__}: {ex}", dict(detail, reference=wants))
            continue
        chk.evaluations += 2
        if ok is not True or bad is not False:
            chk.violation(f"{c['label']}:verify:{ok}/{bad}", f"{name}: reference string verifies right/near-miss password as {ok}/{bad}", dict(detail, reference=wants, near_miss=nm.hex()[:100]))
    chk.traces += len(sw.cases)
    for h, old in restore:
        try:
            h.set_backend(old)
        except Exception:
            pass
    c02_tlcfmt.run(chk, quick, rnd)
    providers(chk, quick, rnd)
    covered = sorted({c["handler"] for c in sw.cases} | set(c02_tlcfmt.COVERED) | set(PROVIDER_COVERED))
    allnames = sorted(registry.list_crypt_handlers())
    chk.extra["formats_covered"] = covered
    for n in allnames:
        if n not in covered:
            chk.uncovered.append(f"format {n}: no reference program / provider in this check")
    chk.sample({"case": {"format": sw.cases[0]["handler"], "shape": sw.shapes[sw.cases[0]["sid"] - 1]}})
    chk.assumptions += ["hashlib, hmac, hashlib.pbkdf2_hmac, hashlib.scrypt, the bcrypt C library, libxcrypt and Django's hashers are trusted",
                        "SHA/MD5/DES/Blowfish internals are C11's subject or trusted; this check is about which bytes are fed to them and how the result is encoded"]


def seven_vector():
    """Tarsnap's published "$7$" vector: pleaseletmein / SodiumChloride, N=2^14, r=8, p=1"""
    import hashlib
    key = hashlib.scrypt(b"pleaseletmein", salt=b"SodiumChloride", n=16384, r=8, p=1, dklen=32, maxmem=2 ** 26)
    prog = {"defs": [], "out": ["catseq", [["str", "$7$"], ["h64char", 14], ["h64int", 8, 5], ["h64int", 1, 5], ["lit", list(b"SodiumChloride")], ["str", "$"],
                                          ["h64groups", ["lit", list(key)], [[3 * k + 2, 3 * k + 1, 3 * k, 4] for k in range(10)] + [[-1, 31, 30, 3]]]]]}
    return terms.run_program(prog, {}).decode() == "$7$C6..../....SodiumChloride$kBGj9fHznVYFQMEn/qDCfrDevf9YDtcDdKvEqHJLV8D"


def selfcheck(chk, sw, progs, prims):
    """the transcriptions against libxcrypt (a disagreement is a machinery failure)"""
    import legacycrypt
    n = 0
    seen = set()
    if not seven_vector():
        raise tlc.MachineryError("the $7$ encoding of Formats.tla / terms.py fails Tarsnap's published vector")
    for c in sw.cases:
        name = c["handler"]
        shape = sw.shapes[c["sid"] - 1]
        if name not in ("sha256_crypt", "sha512_crypt", "md5_crypt", "sha1_crypt", "bcrypt"):
            continue
        pw = c["inputs"]["password"]
        try:
            text = pw.decode("utf-8")
        except UnicodeDecodeError:
            continue
        if "\0" in text or (name, c["sid"]) in seen or (name == "bcrypt" and shape["tag"] == "2"):
            continue
        seen.add((name, c["sid"]))
        want = terms.run_program(progs[c["sid"]], c["inputs"], prims).decode()
        cfg = want[: want.rindex("$")] if name != "bcrypt" else want[:29]
        ref = legacycrypt.crypt(text, cfg)
        if ref is None or ref.startswith("*"):
            continue
        if ref != want:
            raise tlc.MachineryError(f"specification of {name} disagrees with libxcrypt for shape {shape}: {want} vs {ref}")
        n += 1
    return n


PROVIDER_COVERED = []


def providers(chk, quick, rnd):
    """strings made by crypt() and by Django's own hashers verify under passlib; django_* formats equal Django's output"""
    import legacycrypt
    from passlib import registry
    # OS crypt
    cfgs = {"des_crypt": lambda: "".join(rnd.choice(H64) for _ in range(2)),
            "bsdi_crypt": lambda: "_" + "".join(rnd.choice(H64) for _ in range(4))[:1].replace(".", "/") + "..." + "".join(rnd.choice(H64) for _ in range(4)),
            "md5_crypt": lambda: "$1$" + "".join(rnd.choice(H64) for _ in range(8)),
            "sha1_crypt": lambda: "$sha1$%d$" % rnd.choice([1, 40, 1000]) + "".join(rnd.choice(H64) for _ in range(8)),
            "sha256_crypt": lambda: "$5$rounds=%d$" % rnd.choice([1000, 1234, 5000]) + "".join(rnd.choice(H64) for _ in range(rnd.choice([1, 16]))),
            "sha512_crypt": lambda: "$6$" + "".join(rnd.choice(H64) for _ in range(16)),
            "bcrypt": lambda: "$2b$04$" + "".join(rnd.choice(B64BC) for _ in range(21)) + ".",
            # sun_md5_crypt in all four spellings of its configuration: with / without rounds, salt closed by "$" or bare
            "sun_md5_crypt": lambda: rnd.choice(["$md5,rounds=%d$" % rnd.choice([1, 10]), "$md5$"]) + "".join(rnd.choice(H64) for _ in range(8)) + rnd.choice(["$", ""]),
            "bsd_nthash": lambda: "$3$"}
    for name, mk in cfgs.items():
        h = registry.get_crypt_handler(name)
        for plen in ([0, 1, 8, 9, 64, 100] if quick else [0, 1, 7, 8, 9, 15, 16, 17, 55, 56, 63, 64, 65, 72, 73, 127, 128, 255]):
            # (libxcrypt's NT hash widens bytes instead of converting UTF-8 to UTF-16: ASCII only there)
            pw = content(["ascii", "utf8" if name != "bsd_nthash" else "ascii"][plen % 2], plen, rnd).decode()
            ref = legacycrypt.crypt(pw, mk())
            if not ref or ref.startswith("*"):
                continue
            chk.count(("crypt()", name, plen))
            chk.action("provider.crypt")
            try:
                ok = h.verify(pw, ref)
                bad = h.verify(near_miss(pw.encode(), 8 if name == "des_crypt" else 72 if name == "bcrypt" else None).decode("utf-8", "replace"), ref)
            except Exception as ex:
                chk.violation(f"provider:crypt:{name}:{type(ex).__name__}", f"{name}: verifying a crypt()-made string raised {type(ex).__name__}: {ex}", {"hash": ref, "password": pw})
                continue
            if ok is not True or bad is not False:
                chk.violation(f"provider:crypt:{name}:{ok}/{bad}", f"{name}: crypt()-made string {ref} verifies right/near-miss as {ok}/{bad}", {"hash": ref, "password": pw})
        if name not in PROVIDER_COVERED:
            PROVIDER_COVERED.append(name)
    # Django
    try:
        import django
        from django.conf import settings
        if not settings.configured:
            settings.configure(PASSWORD_HASHERS=[])
        from django.contrib.auth import hashers as dh
    except Exception as ex:
        chk.uncovered.append(f"Django provider unavailable: {type(ex).__name__}")
        return
    table = {"django_pbkdf2_sha256": dh.PBKDF2PasswordHasher, "django_pbkdf2_sha1": dh.PBKDF2SHA1PasswordHasher, "django_bcrypt": dh.BCryptPasswordHasher,
             "django_bcrypt_sha256": dh.BCryptSHA256PasswordHasher, "django_salted_md5": getattr(dh, "MD5PasswordHasher", None)}
    for name, cls in table.items():
        if cls is None:
            continue
        try:
            dj = cls()
            if "bcrypt" in name:
                dj.rounds = 4
            else:
                dj.iterations = 10
        except Exception:
            continue
        h = registry.get_crypt_handler(name)
        for plen in ([0, 1, 9, 72, 73, 100] if quick else [0, 1, 7, 8, 9, 55, 56, 64, 65, 72, 73, 128, 255]):
            if name == "django_bcrypt" and plen > 72:
                continue            # Django's plain bcrypt refuses longer passwords
            pw = content(["ascii", "utf8"][plen % 2], plen, rnd).decode()
            try:
                salt = dj.salt()
                ref = dj.encode(pw, salt) if "bcrypt" in name else dj.encode(pw, salt.decode() if isinstance(salt, bytes) else salt)
            except Exception as ex:
                chk.uncovered.append(f"Django {name}: {type(ex).__name__}: {ex}"[:120])
                break
            chk.count(("django", name, plen))
            chk.action("provider.django")
            try:
                ok = h.verify(pw, ref)
                bad = h.verify(pw + "x" if plen < 72 else "x" + pw, ref)
                ours = None
                if "bcrypt" in name:
                    ours = h.using(salt=ref.split("$")[-1][:22], rounds=4).hash(pw)
                elif "pbkdf2" in name:
                    ours = h.using(salt=ref.split("$")[2], rounds=10).hash(pw)
                else:
                    ours = h.using(salt=ref.split("$")[1]).hash(pw)
            except Exception as ex:
                chk.violation(f"provider:django:{name}:{type(ex).__name__}", f"{name}: Django-made string raised {type(ex).__name__}: {ex}", {"hash": ref, "password": pw})
                continue
            if ok is not True or bad is not False or ours != ref:
                chk.violation(f"provider:django:{name}:{ok}/{bad}/{ours == ref}", f"{name}: Django's {ref} verifies as {ok}/{bad}; passlib produces {ours}", {"hash": ref, "password": pw})
        if name not in PROVIDER_COVERED:
            PROVIDER_COVERED.append(name)


def replay(chk, path):
    v = json.loads(open(path).read())
    print(json.dumps(v["detail"], indent=1)[:3000])
    return 1
