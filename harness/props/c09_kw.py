"""C09, hasher-specific keywords of using() (spec/HasherKw.tla): chains of using() on real hashers, every node compared after every step."""
from __future__ import annotations

import json

from .. import tlc

UNSET = -999


def hashers():
    import passlib.hash as H
    out = []
    # bcrypt_sha256: version (1, 2) x ident (index 1 = "2a", 2 = "2b"); version 2 requires 2b
    out.append(dict(name="bcrypt_sha256", base=H.bcrypt_sha256, keys=["version", "ident"], kind=dict(version="enum", ident="enum"),
                    lo=dict(version=1, ident=1), hi=dict(version=2, ident=2), cands=dict(version={1, 2, 3}, ident={1, 2}),
                    to_real=dict(ident={1: "2a", 2: "2b"}), attr=dict(version="version", ident="default_ident"), attr_map=dict(ident={"$2a$": 1, "$2b$": 2}),
                    extra=dict(rounds=4), parse=lambda s: dict(version=2 if "v=2" in s else 1, ident=2 if ("t=2b" in s or "$2b," in s) else 1)))
    # scrypt: block_size >= 1 (clamped when relaxed)
    out.append(dict(name="scrypt", base=H.scrypt, keys=["block_size"], kind=dict(block_size="int"), lo=dict(block_size=1), hi=dict(block_size=2147483647),
                    cands=dict(block_size={-3, 0, 1, 2, 8, 1073741824}), to_real={}, attr=dict(block_size="block_size"), attr_map={}, extra=dict(rounds=1),
                    fixed=dict(parallelism=1), parse=lambda s: dict(block_size=int(s.split(",r=")[1].split(",")[0]))))
    # scrypt: parallelism >= 1 (clamped when relaxed) - with the block size fixed
    out.append(dict(name="scrypt", base=H.scrypt, keys=["parallelism"], kind=dict(parallelism="int"), lo=dict(parallelism=1), hi=dict(parallelism=2147483647),
                    cands=dict(parallelism={-2, 0, 1, 2, 3}), to_real={}, attr=dict(parallelism="parallelism"), attr_map={}, extra=dict(rounds=1),
                    fixed=dict(block_size=8), parse=lambda s: dict(parallelism=int(s.split(",p=")[1].split("$")[0]))))
    # fshp: variant 0..3
    out.append(dict(name="fshp", base=H.fshp, keys=["variant"], kind=dict(variant="enum"), lo=dict(variant=0), hi=dict(variant=3), cands=dict(variant={0, 1, 2, 3, 4}),
                    to_real={}, attr=dict(variant="default_variant"), attr_map={}, extra=dict(rounds=1), parse=lambda s: dict(variant=int(s[5]))))
    # cisco_type7: the offset ("salt") is an integer 0..52, clamped when relaxed; the root is a hasher with a fixed offset
    out.append(dict(name="cisco_type7", base=H.cisco_type7.using(salt=7), keys=["salt"], kind=dict(salt="int"), lo=dict(salt=0), hi=dict(salt=52),
                    cands=dict(salt={-3, -1, 0, 9, 52, 53, 100}), to_real={}, attr=None, basevals=dict(salt=7), attr_map={}, extra={}, parse=lambda s: dict(salt=int(s[:2]))))
    # identifiers of the multi-ident hashers, given in every accepted spelling (alias or full, text or bytes)
    out.append(dict(name="bcrypt", base=H.bcrypt, keys=["ident"], kind=dict(ident="enum"), lo=dict(ident=1), hi=dict(ident=3), cands=dict(ident={1, 2, 3, 4}),
                    to_real=dict(ident={1: "2a", 2: "2b", 3: "2y", 4: "2z"}), attr=dict(ident="default_ident"), attr_map=dict(ident={"$2a$": 1, "$2b$": 2, "$2y$": 3}),
                    extra=dict(rounds=4), parse=lambda s: dict(ident={"2a": 1, "2b": 2, "2y": 3}.get(s[1:3], 0))))
    out.append(dict(name="phpass", base=H.phpass, keys=["ident"], kind=dict(ident="enum"), lo=dict(ident=1), hi=dict(ident=2), cands=dict(ident={1, 2, 3}),
                    to_real=dict(ident={1: "P", 2: "H", 3: "Q"}), attr=dict(ident="default_ident"), attr_map=dict(ident={"$P$": 1, "$H$": 2}),
                    extra=dict(rounds=7), parse=lambda s: dict(ident={"P": 1, "H": 2}.get(s[1:2], 0))))
    # truncating hashers: the truncate_error policy is carried along the derivation tree; what it does is observed in BYTES
    from passlib import registry
    for name in sorted(registry.list_crypt_handlers()):
        try:
            h = registry.get_crypt_handler(name)
            w = getattr(h, "wrapped", h)
            if not getattr(w, "truncate_size", None) or "truncate_error" not in h.setting_kwds or (hasattr(h, "has_backend") and not h.has_backend()):
                continue
        except Exception:
            continue
        extra = {}
        if "rounds" in h.setting_kwds:
            extra["rounds"] = w.min_rounds if w.rounds_cost == "log2" else max(w.min_rounds, 1)
        out.append(dict(name=name, base=h, keys=["truncate_error"], kind=dict(truncate_error="enum"), lo=dict(truncate_error=0), hi=dict(truncate_error=1),
                        cands=dict(truncate_error={0, 1}), to_real=dict(truncate_error={0: False, 1: True}), attr=dict(truncate_error="truncate_error"),
                        attr_map=dict(truncate_error={False: 0, True: 1, None: 0}), extra=extra,
                        observe=truncation_observer(w.truncate_size, utf8="encoding" not in h.context_kwds)))
    return out


def truncation_observer(n, utf8=True):
    def observe(h):
        from passlib.exc import PasswordTruncateError
        res = {}
        for pname, ppw in (("text", "x" * (n + 1)), ("bytes", b"x" * (n + 1)), ("wide-text", "\xfc" * (n // 2 + 1)), ("non-utf8-bytes", b"\xff\xfe" * (n // 2 + 1)),
                           ("text-at-limit", "x" * n), ("wide-text-at-limit", "\xfc" * (n // 2))):
            if not utf8 and not (isinstance(ppw, str) and ppw.isascii()):
                continue                # (the hasher encodes text with a codec of its own: only ASCII text measures the same everywhere)
            try:
                h.hash(ppw[:1] * 2)
            except Exception:
                continue                # this kind of password is not admissible for the hasher at all
            try:
                h.hash(ppw)
                res[pname] = 0
            except PasswordTruncateError:
                res[pname] = 1
        over = {v for k, v in res.items() if "at-limit" not in k}
        at = {v for k, v in res.items() if "at-limit" in k}
        if at - {0}:
            return {"truncate_error": f"a password of exactly the limit is refused: {res}"}
        if len(over) != 1:
            return {"truncate_error": f"policy depends on how the password is given: {res}"}
        return {"truncate_error": over.pop()}
    return observe


def run(chk, quick, rnd):
    explicit_salts(chk, rnd)
    for hd in hashers():
        name, base = hd["name"], hd["base"]
        keys = hd["keys"] + list(hd.get("fixed", {}))
        R = tlc.Raw

        def fn(d):
            return R("[" + ", ".join(f'{k} |-> {v}' for k, v in d.items()) + "]") if False else R("(" + " @@ ".join(f'"{k}" :> {v}' for k, v in d.items()) + ")")

        def fns(d):
            return R("(" + " @@ ".join(f'"{k}" :> {tlc.tla_val(v)}' for k, v in d.items()) + ")")
        fixed = hd.get("fixed", {})
        basevals = {}
        for k in hd["keys"]:
            if "basevals" in hd:
                basevals[k] = hd["basevals"][k]
            elif hd["attr"] is None:
                basevals[k] = hd["lo"][k]
            else:
                v = getattr(base, hd["attr"][k])
                basevals[k] = hd["attr_map"].get(k, {}).get(v, v)
        basevals.update(fixed)
        kind = dict(hd["kind"], **{k: "int" for k in fixed})
        lo = dict(hd["lo"], **{k: v for k, v in fixed.items()})
        hi = dict(hd["hi"], **{k: v for k, v in fixed.items()})
        cands = dict({k: set(v) for k, v in hd["cands"].items()}, **{k: set() for k in fixed})
        consts = dict(Keys=set(keys), Kind=fns(kind), Lo=fn(lo), Hi=fn(hi), Cands=R("(" + " @@ ".join(f'"{k}" :> {tlc.tla_val(v) if v else "{}"}' for k, v in cands.items()) + ")"),
                      Base=fn(basevals), HName=name, MaxNodes=4, MaxSteps=3 if quick else 4, DoEmit=True)
        r = tlc.run_instance("HasherKw", consts, name=f"C09_kw_{name}", invariants=["InvValid"], properties=["Frame", "Exact"], action_constraint="Emit",
                             view="View", workers=1, coverage=False, timeout=1800)
        chk.add_tlc(f"HasherKw exhaustive: {name} ({', '.join(hd['keys'])})", r)
        # behaviours = paths of the explored graph; replay each transition from its source tree (trees are values: rebuild nodes by replaying their derivations)
        seen = 0
        for e in r.emits:
            tree = e["tree"]
            # rebuild the real nodes of the tree BEFORE this step
            prev_len = len(tree) - (1 if e["newnode"] else 0)
            nodes = rebuild(hd, tree[:prev_len])
            if nodes is None:
                continue
            seen += 1
            chk.count((name, e["op"], e["res"], e["relaxed"], json.dumps(e["kw"], sort_keys=True)))
            chk.action(f"kw.{e['op']}")
            detail = {"hasher": name, "step": {k: e[k] for k in ("op", "node", "kw", "relaxed", "res")}, "tree_before": tree[:prev_len]}
            if e["op"] == "using":
                kw = real_kw(hd, e["kw"])
                before = [snapshot(hd, x) for x in nodes]
                try:
                    new = nodes[e["node"] - 1].using(relaxed=e["relaxed"], **kw) if e["relaxed"] else nodes[e["node"] - 1].using(**kw)
                    got = "ok"
                except ValueError:
                    got, new = "ValueError", None
                except Exception as ex:
                    got, new = type(ex).__name__, None
                if got != e["res"]:
                    chk.violation(f"{name}:kw-using:{e['res']}->{got}", f"{name}: using({kw}, relaxed={e['relaxed']}) on a hasher with {tree[e['node'] - 1]['s']} gave {got}, spec {e['res']}", detail)
                    continue
                if [snapshot(hd, x) for x in nodes] != before:
                    chk.violation(f"{name}:kw-using:frame", f"{name}: using({kw}) changed an existing hasher", detail)
                    continue
                if new is not None and e["newnode"]:
                    want = {k: v for k, v in tree[e["newnode"] - 1]["s"].items() if k in hd["keys"]}
                    have = snapshot(hd, new)
                    if have is not None and have != want:
                        chk.violation(f"{name}:kw-using:settings", f"{name}: using({kw}, relaxed={e['relaxed']}) gives settings {have}, spec {want}", detail)
                        continue
                    err = fresh(hd, new, want)
                    if err:
                        chk.violation(f"{name}:kw-using:fresh-hash", f"{name}: a hash made by the derived hasher: {err}", detail)
            else:
                want = {k: v for k, v in tree[e["node"] - 1]["s"].items() if k in hd["keys"]}
                err = fresh(hd, nodes[e["node"] - 1], want)
                if err:
                    chk.violation(f"{name}:kw-hash", f"{name}: {err}", detail)
        chk.traces += seen


def explicit_salts(chk, rnd):
    """a salt configured with using(salt=..) is the salt of the hashes made - under every ident / variant, in one call or chained"""
    from passlib import registry
    import passlib.utils.handlers as uh
    for name in sorted(registry.list_crypt_handlers()):
        try:
            h = registry.get_crypt_handler(name)
            w = getattr(h, "wrapped", h)
            if not (isinstance(w, type) and issubclass(w, uh.HasSalt)) or "salt" not in h.setting_kwds:
                continue
            if hasattr(h, "has_backend") and not h.has_backend():
                continue
        except Exception:
            continue
        raw = issubclass(w, uh.HasRawSalt)
        size = w.default_salt_size or w.min_salt_size or 8
        if name in ("bcrypt", "bcrypt_sha256", "ldap_bcrypt", "django_bcrypt", "django_bcrypt_sha256"):
            salt = "abcdefghijklmnopqrstuu"
        elif raw:
            salt = bytes(65 + (i % 26) for i in range(size))
        else:
            salt = "".join(w.default_salt_chars[(i * 7 + 3) % len(w.default_salt_chars)] for i in range(size))
        kw = {}
        if "rounds" in h.setting_kwds:
            kw["rounds"] = 1 if name == "scrypt" else (w.min_rounds if w.rounds_cost == "log2" else max(w.min_rounds, 1))
        ctx = {k: k for k in ("user", "realm") if k in h.context_kwds}
        idents = [i for i in (getattr(w, "ident_values", None) or [None]) if i != "$2x$"] if "ident" in h.setting_kwds else [None]
        for ident in idents:
            ikw = {"ident": ident} if ident else {}
            for route in ("one-call", "salt-then-ident", "ident-then-salt"):
                if route != "one-call" and not ident:
                    continue
                chk.count((name, "explicit-salt", ident or "", route))
                chk.action("kw.explicit-salt")
                try:
                    if route == "one-call":
                        hh = h.using(salt=salt, **kw, **ikw)
                    elif route == "salt-then-ident":
                        hh = h.using(salt=salt, **kw).using(**ikw)
                    else:
                        hh = h.using(**ikw, **kw).using(salt=salt)
                    s1 = hh.hash("pw", **ctx)
                    text = h._unwrap_hash(s1) if hasattr(h, "wrapped") else s1
                    got = w.from_string(text).salt
                    ok = h.verify("pw", s1, **ctx)
                except ValueError as ex:
                    if "not allowed for version" in str(ex) or "not currently supported" in str(ex):
                        continue            # (documented refusals: bcrypt_sha256 v2 only with 2b)
                    chk.violation(f"{name}:explicit-salt:ValueError", f"{name}.using(salt=.., ident={ident}) [{route}] raised ValueError: {ex}", {"hasher": name, "ident": ident})
                    continue
                except Exception as ex:
                    chk.violation(f"{name}:explicit-salt:{type(ex).__name__}", f"{name}.using(salt=.., ident={ident}) [{route}] raised {type(ex).__name__}: {ex}", {"hasher": name, "ident": ident})
                    continue
                if got != salt or not ok:
                    chk.violation(f"{name}:explicit-salt:not-honoured", f"{name}.using(salt={salt!r}, ident={ident}) [{route}] made {s1[:60]}.. whose salt is {got!r} (verifies: {ok})",
                                  {"hasher": name, "ident": ident, "route": route, "hash": s1})


FORM = [0]


def real_kw(hd, kw):
    """keyword values as a caller may write them: identifiers as alias or in full, as text or bytes; numbers as int or as the decimal
    text a configuration file carries (all documented as equivalent)"""
    out = {}
    for k, v in kw.items():
        if v == UNSET or k not in hd["keys"]:
            continue
        r = hd["to_real"].get(k, {}).get(v, v)
        FORM[0] += 1
        f = FORM[0] % 4
        if k == "ident" and isinstance(r, str):
            r = [r, "$" + r + "$", r.encode(), ("$" + r + "$").encode()][f]
        elif hd["kind"].get(k) == "int" and isinstance(r, int) and not isinstance(r, bool) and f == 1 and hd["name"] == "scrypt":    # (scrypt's cost settings are read from configuration text too)
            r = str(r)
        out[k] = r
    return out


def snapshot(hd, h):
    if hd["attr"] is None:
        return None
    out = {}
    for k in hd["keys"]:
        v = getattr(h, hd["attr"][k])
        out[k] = hd["attr_map"].get(k, {}).get(v, v)
    return out


def rebuild(hd, tree):
    """real hashers for the nodes of an abstract tree (node 1 = the global hasher, the others derived with their full settings)"""
    nodes = [hd["base"]]
    for nd in tree[1:]:
        try:
            parent = nodes[nd["parent"] - 1]
            kw = {k: hd["to_real"].get(k, {}).get(v, v) for k, v in nd["s"].items() if k in hd["keys"]}
            nodes.append(parent.using(**kw))
        except Exception:
            return None
    return nodes


def fresh(hd, h, want):
    """a hash made by h carries the settings `want` and verifies"""
    try:
        hh = h.using(**hd["extra"]) if hd["extra"] else h
        s = hh.hash("pw")
        got = hd["observe"](hh) if "observe" in hd else hd["parse"](s)
        if got != want:
            return f"carries {got}, settings are {want} ({s[:50]})"
        if not h.verify("pw", s) or h.verify("px", s):
            return f"does not verify exactly its password ({s[:50]})"
    except Exception as ex:
        return f"raised {type(ex).__name__}: {ex}"
    return None
