"""C04 - CryptContext identifies, verifies, flags and rehashes exactly per its policy.

spec/Context.tla (+ Hasher.tla) + MC_Context.tla.
 1. TLC: exhaustive over scheme lists/orders x default x deprecated (list/auto) x category overrides and over
    rounds options of single-scheme contexts: first-claimant identification, new hashes from the category default
    inside its window, needs_update <=> deprecated or outside window or flagged, fixed point of rehashing,
    verify_and_update shapes.
 2. S->I: random configurations (incl. invalid ones) and operation sequences are replayed on real CryptContext
    objects built from real handlers; every answer is compared (error class of refused configurations, default
    scheme and customised handler attributes per category, identify, parsed scheme/cost of new hashes with the
    random source forced, needs_update, verify, verify_and_update incl. the rehashed value).
"""
from __future__ import annotations

import json
import random
import warnings

from .. import tlc
from .c09 import ForcedRng, UNSET

INVS = ["InvIdentifyFirst", "InvNewFromDefault", "InvFixedPoint", "InvFreshNoUpdate", "InvVauShape", "InvDefaultLive"]
CATS = ["none", "admin", "staff"]


def P(hmin, hmax, d, cost="linear", quirk="none"):
    return dict(hmin=hmin, hmax=hmax, minD=UNSET, maxD=UNSET, **{"def": d}, varyK="unset", varyV=0, cost=cost, quirk=quirk)


def kw(**k):
    base = dict(minA=UNSET, minB=UNSET, maxA=UNSET, maxB=UNSET, rounds=UNSET, varyK="unset", varyV=0)
    base["def"] = UNSET
    for a, b in k.items():
        base["def" if a == "d" else a] = b
    return base


def rec_expr(d):
    return "[" + ", ".join(f"{k} |-> {json.dumps(v) if isinstance(v, str) else v}" for k, v in d.items()) + "]"


#: choices for the wildcard "all" (global vary_rounds)
ALL_KWS = [kw(varyK="int", varyV=1), kw(varyK="pct", varyV=10), kw(varyK="pct", varyV=100), kw(varyK="int", varyV=0)]


#: model scheme -> (real base handler factory, rounds record or None, greedy, keyword choices, foreign cost values)
def scheme_table():
    import passlib.hash as H
    t = {}
    t["sha256_crypt"] = dict(base=H.sha256_crypt.using(default_rounds=2000), P=P(1000, 999999999, 2000), greedy=False,
                             kws=[kw(), kw(minA=1500), kw(maxA=1500), kw(minA=1500, maxA=2500), kw(d=1800), kw(d=999), kw(minA=2500),
                                  kw(minA=3000, maxA=2500), kw(d=3000, maxA=2500), kw(minA=2000, maxA=2000), kw(varyK="int", varyV=100),
                                  kw(varyK="pct", varyV=10, minA=1900), kw(minA=999, maxA=1200), kw(d=1500, varyK="pct", varyV=50, maxA=1600),
                                  kw(rounds=1800), kw(rounds=1500, maxA=2500), kw(rounds=2500, minA=1500), kw(rounds=1500, d=2100)],
                             vals=[1000, 1499, 1500, 1501, 1800, 2000, 2100, 2499, 2500, 2501, 3000])
    t["bcrypt"] = dict(base=H.bcrypt.using(default_rounds=5), P=P(4, 31, 5, cost="log2"), greedy=False,
                       kws=[kw(), kw(minA=5), kw(maxA=5), kw(minA=5, maxA=6), kw(d=4), kw(d=3), kw(minA=6), kw(maxA=4),
                            kw(varyK="int", varyV=1), kw(d=5, varyK="pct", varyV=100, maxA=6), kw(minA=7, maxA=5)],
                       vals=[4, 5, 6, 7])
    t["bsdi_crypt"] = dict(base=H.bsdi_crypt.using(default_rounds=21), P=P(1, 16777215, 21, quirk="odd"), greedy=False,
                           kws=[kw(), kw(maxA=20), kw(minA=22), kw(minA=20, maxA=22), kw(d=30), kw(maxA=21), kw(minA=10, maxA=10),
                                kw(varyK="int", varyV=3, maxA=24)],
                           vals=[9, 10, 19, 20, 21, 22, 23, 24, 25])
    # the only scheme whose lowest legal cost is 0
    t["sun_md5_crypt"] = dict(base=H.sun_md5_crypt.using(default_rounds=10), P=P(0, 999999999, 10), greedy=False,
                              kws=[kw(), kw(d=0), kw(d=0, maxA=5), kw(minA=0, maxA=0), kw(maxA=0), kw(varyK="int", varyV=3), kw(minA=5)],
                              vals=[0, 1, 4, 5, 6, 10, 11])
    # a prefix-wrapped scheme: the wrapper hands every cost option on to the hasher it wraps
    t["ldap_sha256_crypt"] = dict(base=H.ldap_sha256_crypt.using(default_rounds=2000), P=P(1000, 999999999, 2000), greedy=False,
                                  kws=[kw(), kw(minA=1500), kw(maxA=1500), kw(minA=1500, maxA=2500), kw(d=1800), kw(minA=2500), kw(varyK="int", varyV=100)],
                                  vals=[1000, 1499, 1500, 1501, 2000, 2500, 2501])
    t["md5_crypt"] = dict(base=H.md5_crypt, P=None, greedy=False, kws=[kw()], vals=[UNSET])
    t["des_crypt"] = dict(base=H.des_crypt, P=None, greedy=False, kws=[kw(), kw(minA=5)], vals=[UNSET])
    t["plaintext"] = dict(base=H.plaintext, P=None, greedy=True, kws=[kw()], vals=[UNSET])
    return t


def consts_for(T, names, emit, **extra):
    R = tlc.Raw
    norounds = rec_expr(P(0, 0, UNSET))
    facts = "[" + ", ".join(f'{n} |-> [hasRounds |-> {"TRUE" if T[n]["P"] else "FALSE"}, P |-> {rec_expr(T[n]["P"]) if T[n]["P"] else norounds}, '
                            f'greedy |-> {"TRUE" if T[n]["greedy"] else "FALSE"}]' for n in names) + "]"
    kwc = "[" + ", ".join([f'{n} |-> {{{", ".join(rec_expr(k) for k in T[n]["kws"])}}}' for n in names] + [f'all |-> {{{", ".join(rec_expr(k) for k in ALL_KWS)}}}']) + "]"
    rv = "[" + ", ".join(f'{n} |-> {{{", ".join(str(v) for v in T[n]["vals"])}}}' for n in names) + "]"
    c = dict(Facts=R(facts), Cats=set(CATS), KwChoices=R(kwc), RoundVals=R(rv), Pws={"p1", "p2"}, MaxOps=10, MaxStore=3, DoEmit=emit,
             ExSchemeSeqs=R("{<<>>}"), ExDefs={"unset"}, ExDeps=R('{<<"unset", {}>>}'), ExWithOpts=False, FlagNames=R('{"md5_crypt"}') if not emit else R('{}'))
    c.update(extra)
    return c


PWS = {"p1": "pw-one \xe9", "p2": "pw-two"}


class Replayer:
    def __init__(self, chk, T, rnd):
        self.alts = {}          # first spelling of a stored hash -> all its spellings
        self.chk, self.T, self.rnd = chk, T, rnd

    def real_cfg(self, cfg):
        d = {}
        T = self.T
        rnd = self.rnd
        schemes = [T[s]["base"] for s in cfg["schemes"]]
        if schemes or rnd.random() < .5:
            d["schemes"] = schemes
        for c in CATS:
            # context-level options of a category are spelled <cat>__context__<option>
            pre = "" if c == "none" else c + "__context__"
            if cfg["def"][c] != "unset":
                d[pre + "default"] = cfg["def"][c]
            k = cfg["depK"][c]
            if k == "auto":
                d[pre + "deprecated"] = rnd.choice(["auto", ["auto"]])
            elif k == "list":
                dl = sorted(cfg["depL"][c])
                d[pre + "deprecated"] = dl if rnd.random() < .6 else ",".join(dl)
        long_names = {n for n in ("min_rounds", "max_rounds") if rnd.random() < .4}
        for o in cfg["opts"]:
            pre = "" if o["cat"] == "none" else o["cat"] + "__"
            k = o["kw"]
            for fld, name in (("minA", "min_rounds"), ("maxA", "max_rounds"), ("def", "default_rounds"), ("rounds", "rounds")):
                if k[fld] != UNSET:
                    if name in long_names:
                        name = name.replace("_rounds", "_desired_rounds")       # the long spelling of the same option (one spelling per configuration)
                    d[f"{pre}{o['name']}__{name}"] = k[fld] if rnd.random() < .7 else str(k[fld])
            vkey = f"{pre}{o['name']}__vary_rounds"
            if o["name"] == "all" and o["cat"] == "none" and rnd.random() < .5:
                vkey = "vary_rounds"              # the bare global spelling
            if k["varyK"] == "int":
                d[vkey] = k["varyV"]
            elif k["varyK"] == "pct":
                d[vkey] = f"{k['varyV']}%" if rnd.random() < .5 else k["varyV"] * 0.01
        return d

    def parse(self, text):
        """independent attribution of a real hash text to (scheme, cost)"""
        T = self.T
        if text.startswith("{CRYPT}$5$"):
            w = T["ldap_sha256_crypt"]["base"]
            return "ldap_sha256_crypt", w.wrapped.from_string(w._unwrap_hash(text)).rounds
        if text.startswith("$5$"):
            s = "sha256_crypt"
        elif text.startswith("$2"):
            s = "bcrypt"
        elif text.startswith("_"):
            s = "bsdi_crypt"
        elif text.startswith("$md5"):
            s = "sun_md5_crypt"
        elif text.startswith("$1$"):
            s = "md5_crypt"
        elif text in PWS.values():
            return "plaintext", UNSET
        elif len(text) == 13:
            s = "des_crypt"
        else:
            return "?", UNSET
        o = T[s]["base"].from_string(text)
        return s, getattr(o, "rounds", UNSET) if T[s]["P"] else UNSET

    def make_foreign(self, h):
        T = self.T
        base = T[h["scheme"]]["base"]
        pw = PWS[h["pw"]]
        if h["scheme"] == "plaintext":
            return pw
        if T[h["scheme"]]["P"]:
            # exactly this cost (using(rounds=..) would let the scheme adjust it, e.g. bsdi forces odd)
            outs = []
            for kwi in ([dict(ident=i) for i in ("$2a$", "$2b$", "$2y$")] if h["scheme"] == "bcrypt" else [{}]):   # every ident a stored bcrypt hash may carry
                o = getattr(base, "wrapped", base)(rounds=h["rounds"], use_defaults=True, **kwi)
                o.checksum = o._calc_checksum(pw)
                outs.append(base._wrap_hash(o.to_string()) if hasattr(base, "wrapped") else o.to_string())
            self.rnd.shuffle(outs)
            self.alts[outs[0]] = outs
            return outs[0]
        return base.hash(pw)

    def run(self, beh, label):
        from passlib.context import CryptContext
        chk, rnd = self.chk, self.rnd
        st0 = beh[0]
        real = {}            # abstract hash (json) -> real text
        hist = []
        cfgd = self.real_cfg(st0["cfg"])
        shown = {k: (v if not isinstance(v, list) else [getattr(x, "name", x) for x in v]) for k, v in cfgd.items()}

        def viol(key, msg, **extra):
            chk.violation(key, msg, dict(config=shown, history=hist, **extra))
        try:
            ctx = CryptContext(**cfgd)
            got = "ok"
            # the policy belongs to the configuration, not to the way the object came about: the same decisions are demanded of a
            # copy, of a context rebuilt from its export, and of one that was configured differently before
            route = rnd.choice(["ctor", "ctor", "copy", "dict", "staged-load", "empty-update", "copy-noop-update"])
            if route == "copy":
                ctx = ctx.copy()
            elif route == "dict":
                ctx = CryptContext(**ctx.to_dict(resolve=True)) if any(not isinstance(x, str) for x in cfgd.get("schemes", [])) else CryptContext(**ctx.to_dict())
            elif route == "staged-load":
                c2 = CryptContext(schemes=["md5_crypt", "des_crypt"], deprecated=["des_crypt"], admin__context__default="md5_crypt", admin__context__deprecated=[])
                c2.load(cfgd)
                ctx = c2
            elif route == "empty-update":
                c2 = CryptContext()
                c2.update(**cfgd)
                ctx = c2
            elif route == "copy-noop-update":
                ctx = ctx.copy()
                ctx.update({})
            shown["built_by"] = route
        except (KeyError, ValueError, TypeError) as e:
            got = type(e).__name__ if type(e).__name__ in ("KeyError", "ValueError", "TypeError") else \
                ("KeyError" if isinstance(e, KeyError) else "ValueError" if isinstance(e, ValueError) else "TypeError")
            ctx = None
            err = str(e)[:120]
        except Exception as e:
            got, ctx, err = "Internal:" + type(e).__name__, None, str(e)[:120]
        exp = st0["res"]
        chk.count(("configure", exp[0], tuple(sorted(exp[1])) if exp[0] == "error" else len(st0["cfg"]["schemes"]),
                   tuple(st0["cfg"]["depK"].values()), len(st0["cfg"]["opts"])))
        chk.action("configure->" + exp[0])
        hist.append({"op": "configure", "spec": exp, "got": got})
        if exp[0] == "error":
            if got == "ok" or got not in exp[1]:
                viol(f"configure:{'/'.join(sorted(exp[1]))}->{got}", f"configuration should be refused with {exp[1]}, got {got}" + ("" if got == "ok" else f" ({err})"))
            return
        if got != "ok":
            viol(f"configure:ok->{got}", f"valid configuration refused: {got}: {err}")
            return
        # defaults and per-category records
        for c in CATS:
            rc = None if c == "none" else c
            if not st0["cfg"]["schemes"]:
                continue
            d = ctx.default_scheme(category=rc)
            if d != st0["defaults"][c]:
                viol("configure:default_scheme", f"default_scheme({c}) = {d}, spec {st0['defaults'][c]}")
                return
        for r in st0["recs"]:
            rc = None if r["cat"] == "none" else r["cat"]
            hd = ctx.handler(r["name"], category=rc)
            if bool(hd.deprecated) != r["dep"]:
                viol("configure:deprecated-flag", f"{r['name']}/{r['cat']}: deprecated={hd.deprecated}, spec {r['dep']}")
                return
            if self.T[r["name"]]["P"]:
                p = r["p"]

                def o(x):
                    return UNSET if x is None else x
                have = (o(hd.min_desired_rounds), o(hd.max_desired_rounds), o(hd.default_rounds))
                want = (p["minD"], p["maxD"], p["def"])
                if have != want:
                    viol("configure:record-window", f"{r['name']}/{r['cat']}: (min,max,default)={have}, spec {want}")
                    return
        for st in beh[1:]:
            op = st["op"]
            rc = None if st["cat"] == "none" else st["cat"]
            exp = st["res"]
            got = None
            extra = {}
            try:
                if op == "hash":
                    with ForcedRng(st["x"]) as fr:
                        if rnd.random() < .2:
                            # naming the category's default scheme explicitly is the same request
                            text = ctx.hash(PWS[st["pw"]], category=rc, scheme=ctx.default_scheme(category=rc))
                        else:
                            text = ctx.hash(PWS[st["pw"]], category=rc)
                    s, r = self.parse(text)
                    got = ["ok", {"scheme": s, "rounds": r}]
                    extra["hash"] = text
                    real[json.dumps(exp[1], sort_keys=True)] = text
                    iv = [tuple(i) for i in st["ivals"]]
                    if any(c not in iv for c in fr.calls) or (not fr.calls and any(a < b for a, b in iv)):
                        got = ["range", fr.calls]
                elif op == "foreign":
                    real[json.dumps(st["h"], sort_keys=True)] = self.make_foreign(st["h"])
                    got = ["ok"]
                else:
                  text0 = real[json.dumps(st["h"], sort_keys=True)]
                  # an abstract stored hash stands for all its spellings (bcrypt idents): the step must come out the same for each
                  for text in self.alts.get(text0, [text0]):
                    wantn = list(exp)
                    if op == "verify_and_update" and len(wantn) == 2 and isinstance(wantn[1], dict):
                        wantn[1] = {"scheme": wantn[1]["scheme"], "rounds": wantn[1]["rounds"]}
                    if got is not None and got != wantn:
                        break
                    extra["hash"] = text
                    if rnd.random() < .3:
                        text = text.encode()
                    if op == "identify":
                        got = [ctx.identify(text) or "unset"]
                    elif op == "verify":
                        who = ctx.identify(text)
                        if who and rnd.random() < .2:
                            got = [str(ctx.verify(PWS[st["pw"]], text, scheme=who))]        # naming the identified scheme explicitly changes nothing
                        else:
                            got = [str(ctx.verify(PWS[st["pw"]], text))]
                    elif op == "needs_update":
                        got = [str(ctx.needs_update(text, category=rc))]
                    elif op == "verify_and_update":
                        with ForcedRng(st["x"]) as fr:
                            okv, new = ctx.verify_and_update(PWS[st["pw"]], text, category=rc)
                        if new is None:
                            got = [str(okv), {"scheme": "None", "rounds": UNSET}]
                        else:
                            s, r = self.parse(new)
                            got = [str(okv), {"scheme": s, "rounds": r}]
                            extra["new"] = new
                            if len(exp) == 2 and exp[1]["scheme"] != "None":
                                real[json.dumps(exp[1], sort_keys=True)] = new
                            shadowed = ctx.identify(new) != s          # a catch-all scheme listed earlier claims it
                            if not shadowed and not ctx.verify(PWS[st["pw"]], new):
                                got = ["new-hash-does-not-verify"]
            except ValueError as e:
                got = ["ValueError"]
                extra["err"] = f"{type(e).__name__}: {e}"[:120]
            except TypeError as e:
                got = ["TypeError"]
                extra["err"] = f"{type(e).__name__}: {e}"[:120]
            except Exception as e:
                got = ["Internal:" + type(e).__name__]
                extra["err"] = str(e)[:120]
            want = list(exp)
            if op in ("hash", "verify_and_update") and len(want) == 2 and isinstance(want[1], dict):
                want[1] = {"scheme": want[1]["scheme"], "rounds": want[1]["rounds"]}
            if op == "foreign":
                want = ["ok"]
            hist.append({"op": op, "cat": st["cat"], "pw": st["pw"], "h": st["h"], "x": st["x"], "spec": want, "got": got, **extra})
            chk.count((op, json.dumps(want[0]), st["cat"], st["h"].get("scheme") if isinstance(st["h"], dict) else None,
                       tuple(st0["cfg"]["schemes"]).index(st["h"]["scheme"]) if isinstance(st["h"], dict) and st["h"].get("scheme") in st0["cfg"]["schemes"] else -1,
                       st0["cfg"]["depK"][st["cat"]]))
            chk.action(f"{op}->{want[0] if isinstance(want[0], str) else 'ok'}")
            if got != want:
                viol(f"{op}:{want[0]}->{got[0]}", f"{op} gave {got}, spec says {want}")
                return

    def degenerate(self, st):
        return False


def split(emits):
    behs, cur = [], None
    for e in emits:
        if e["n"] == 0:
            cur = []
            behs.append(cur)
        cur.append(e)
    return [b for b in behs if b and b[0]["op"] == "configure"]


def run(chk):
    warnings.simplefilter("ignore")
    quick = chk.tier == "quick"
    rnd = random.Random(chk.seed)
    T = scheme_table()
    chk.rule = ("S->I: each step of each behaviour (configure, hash, foreign hash, identify, verify, needs_update, verify_and_update) is "
                "executed on a real CryptContext; non-trivial = distinct (op, expected answer, category, hash scheme, its list position, "
                "deprecated kind) / distinct configuration shapes")
    R = tlc.Raw
    # 1a. exhaustive: policy without rounds options
    names = ["sha256_crypt", "md5_crypt", "plaintext"]
    seqs = R('{<<>>, <<"md5_crypt">>, <<"sha256_crypt", "md5_crypt">>, <<"md5_crypt", "sha256_crypt">>, <<"plaintext", "md5_crypt">>, '
             '<<"md5_crypt", "plaintext">>, <<"sha256_crypt", "md5_crypt", "plaintext">>, <<"md5_crypt", "md5_crypt">>}')
    deps = R('{<<"unset", {}>>, <<"auto", {}>>, <<"list", {"md5_crypt"}>>, <<"list", {"md5_crypt", "sha256_crypt"}>>}')
    T1 = {k: dict(v) for k, v in T.items()}
    T1["sha256_crypt"]["vals"] = [1000, 2000]
    c = consts_for(T1, names, False, ExSchemeSeqs=seqs, ExDefs={"unset", "md5_crypt"} if quick else {"unset", "md5_crypt", "sha256_crypt"},
                   ExDeps=deps, MaxOps=2 if quick else 3, MaxStore=1 if quick else 2)
    r = tlc.run_instance("MC_Context", c, name="C04_mc_policy", invariants=INVS, action_constraint="Emit", view="View", coverage=False, timeout=900)
    chk.add_tlc("MC_Context exhaustive: scheme orders x default x deprecated x category", r)
    # 1b. exhaustive: rounds options on single-scheme contexts
    for nm in (["sha256_crypt"], ["bcrypt"], ["bsdi_crypt"]):
        c = consts_for(T, nm, False, ExSchemeSeqs=R('{<<"%s">>}' % nm[0]), ExDefs={"unset"}, ExDeps=R('{<<"unset", {}>>}'), ExWithOpts=True, MaxOps=2 if quick else 3, MaxStore=1)
        r = tlc.run_instance("MC_Context", c, name="C04_mc_rounds", invariants=INVS, action_constraint="Emit", view="View", coverage=False, timeout=900)
        chk.add_tlc(f"MC_Context exhaustive: rounds options of {nm[0]} x category override", r)
    # 2. simulation + replay
    names = list(T)
    nb = 500 if quick else 12000
    c = consts_for(T, names, True, MaxOps=10, MaxStore=3)
    r = tlc.run_instance("MC_Context", c, name="C04_sim", invariants=INVS, action_constraint="Emit", next="SimNext",
                         simulate=f"num={nb}", depth=10, seed=chk.seed + 7, workers=1, coverage=False, timeout=3000)
    chk.add_tlc(f"MC_Context simulation ({nb} random configurations x 9 operations)", r)
    behs = split(r.emits)
    rp = Replayer(chk, T, rnd)
    for b in behs:
        rp.run(b, "sim")
        chk.traces += 1
    # 2b. the same on single-scheme contexts of every scheme with a cost: stored hashes at every cost of the table meet every window
    for nm in [n for n in T if T[n]["P"]]:
        nb1 = 100 if quick else 800
        c = consts_for(T, [nm], True, MaxOps=10, MaxStore=3)
        r = tlc.run_instance("MC_Context", c, name="C04_sim1", invariants=INVS, action_constraint="Emit", next="SimNext",
                             simulate=f"num={nb1}", depth=10, seed=chk.seed + 17, workers=1, coverage=False, timeout=3000)
        chk.add_tlc(f"MC_Context simulation, contexts of {nm} alone ({nb1} configurations x 9 operations)", r)
        b1 = split(r.emits)
        for b in b1:
            rp.run(b, "sim1")
            chk.traces += 1
        behs += b1
    valid = [b for b in behs if b[0]["res"][0] == "ok" and len(b) > 3]
    if valid:
        chk.sample({"configuration": valid[0][0]["cfg"], "steps": [{k: s[k] for k in ("op", "cat", "pw", "h", "res")} for s in valid[0][1:4]]})
    category_specific_settings(chk)
    cost_like_settings(chk)
    context_keywords(chk)
    chk.extra["behaviours"] = len(behs)
    chk.extra["valid_configurations"] = sum(1 for b in behs if b[0]["res"][0] == "ok")
    chk.assumptions += ["schemes are real handlers pre-customised to cheap default costs (sha256_crypt 2000, bcrypt 5, bsdi_crypt 21); hard limits are the real ones",
                        "scheme-specific self-flags (bcrypt padding bits, bcrypt_sha256 v1) are not exercised; bsdi even costs are"]


SPECIFIC = [("scrypt", "block_size", 2, lambda s: int(s.split(",r=")[1].split(",")[0]), 8, dict(scrypt__rounds=1)),
            ("fshp", "variant", 0, lambda s: int(s[5]), 1, dict(fshp__rounds=1)),
            ("bcrypt", "ident", "2a", lambda s: s[1:3], "2b", dict(bcrypt__rounds=4)),
            ("bcrypt_sha256", "version", 1, lambda s: 2 if "v=2" in s else 1, 2, dict(bcrypt_sha256__rounds=4))]


def context_keywords(chk):
    """keywords that only some schemes take (user=..) reach those schemes and are dropped for the others - whichever way the context came
    to its configuration (built at once, reloaded, a scheme added later, copied with changes)"""
    from passlib.context import CryptContext
    import passlib.hash as H
    cfg = dict(schemes=["sha256_crypt", "postgres_md5", "md5_crypt"], deprecated=["postgres_md5"], sha256_crypt__default_rounds=1000)
    pg = H.postgres_md5.hash("pw", user="alice")
    m5 = H.md5_crypt.hash("pw")

    def staged_load():
        c = CryptContext(schemes=["md5_crypt"])
        c.load(cfg)
        return c

    def staged_update():
        c = CryptContext(schemes=["sha256_crypt", "md5_crypt"], sha256_crypt__default_rounds=1000)
        c.update(schemes=cfg["schemes"], deprecated=cfg["deprecated"])
        return c

    def shrunk_and_back():
        c = CryptContext(**cfg)
        c.update(schemes=["sha256_crypt", "md5_crypt"], deprecated=[])
        c.update(schemes=cfg["schemes"], deprecated=cfg["deprecated"])
        return c
    routes = {"ctor": lambda: CryptContext(**cfg), "staged-load": staged_load, "staged-update": staged_update, "shrunk-and-back": shrunk_and_back,
              "copy-with-changes": lambda: CryptContext(schemes=["md5_crypt"]).copy(**cfg), "from-export": lambda: CryptContext.from_string(CryptContext(**cfg).to_string())}
    for rname, mk in routes.items():
        steps = []
        try:
            c = mk()
            for label, fn, want in (("hash(user=)", lambda: c.identify(c.hash("pw", user="alice")), "sha256_crypt"),
                                    ("verify(postgres hash, user=)", lambda: c.verify("pw", pg, user="alice"), True),
                                    ("verify(postgres hash, other user)", lambda: c.verify("pw", pg, user="bob"), False),
                                    ("verify(md5_crypt hash, user=)", lambda: c.verify("pw", m5, user="alice"), True),
                                    ("needs_update(postgres hash)", lambda: c.needs_update(pg), True),
                                    ("verify_and_update(postgres hash, user=)", lambda: (lambda r: (r[0], c.identify(r[1]) if r[1] else None))(c.verify_and_update("pw", pg, user="alice")), (True, "sha256_crypt")),
                                    ("verify_and_update(md5_crypt hash, user=)", lambda: c.verify_and_update("pw", m5, user="alice"), (True, None))):
                chk.evaluations += 1
                chk.count(("context-kwds", rname, label))
                chk.action("context-keyword")
                try:
                    got = fn()
                except Exception as ex:
                    got = f"{type(ex).__name__}: {ex}"[:100]
                steps.append({"call": label, "got": repr(got), "expected": repr(want)})
                if got != want:
                    chk.violation(f"context-keywords:{rname}", f"context built by {rname}: {label} gave {got!r}, expected {want!r}", {"configuration": cfg, "route": rname, "steps": steps})
                    break
        except Exception as ex:
            chk.violation(f"context-keywords:{rname}:build", f"context built by {rname}: {type(ex).__name__}: {ex}", {"configuration": cfg, "route": rname})


def category_specific_settings(chk):
    """hasher-specific options given for ONE category (and through one context) stay there: the other category, another context and the
    registered hasher itself keep their own values"""
    from passlib.context import CryptContext
    from passlib import registry
    for name, key, special, read, normal, extra in SPECIFIC:
        try:
            h = registry.get_crypt_handler(name)
            if hasattr(h, "has_backend") and not h.has_backend():
                continue
        except Exception:
            continue
        chk.count(("category-specific", name, key))
        chk.action("category-specific-setting")
        try:
            before = read(h.using(**{k.split("__")[1]: v for k, v in extra.items()}).hash("pw"))
            ctx = CryptContext(schemes=[name], **extra, **{f"kiosk__{name}__{key}": special})
            other = CryptContext(schemes=[name], **extra)
            got = dict(kiosk=read(ctx.hash("pw", category="kiosk")), default=read(ctx.hash("pw")), other=read(other.hash("pw")),
                       hasher=read(h.using(**{k.split("__")[1]: v for k, v in extra.items()}).hash("pw")))
            flags = dict(kiosk_special_needs_update=ctx.needs_update(ctx.hash("pw", category="kiosk"), category="kiosk"),
                         default_normal_needs_update=ctx.needs_update(other.hash("pw")))
        except Exception as ex:
            chk.violation(f"category-setting:{name}:{type(ex).__name__}", f"context with kiosk__{name}__{key}={special!r}: {type(ex).__name__}: {ex}", {"scheme": name, "key": key})
            continue
        want = dict(kiosk=special, default=normal, other=normal, hasher=normal)
        if before != normal or got != want or flags["kiosk_special_needs_update"] or flags["default_normal_needs_update"]:
            chk.violation(f"category-setting:{name}:{key}", f"kiosk__{name}__{key}={special!r}: hashes carry {got} (expected {want}); fresh hashes flagged for update: {flags}",
                          {"scheme": name, "key": key, "got": {k: str(v) for k, v in got.items()}})


def cost_like_settings(chk):
    """settings that are part of a scheme's cost beside `rounds` (scrypt block size and parallelism): a stored hash is up to date exactly
    when it carries the value configured for the category - lower AND higher stored values are flagged, under every category"""
    from passlib.context import CryptContext
    import passlib.hash as H
    for key, render in (("parallelism", "p"), ("block_size", "r")):
        vals = [1, 2, 3] if key == "parallelism" else [2, 8, 9]
        stored = {v: H.scrypt.using(rounds=1, **{key: v}).hash("pw") for v in vals}
        for default_v in vals:
            for batch_v in vals:
                try:
                    ctx = CryptContext(schemes=["scrypt"], scrypt__rounds=1, **{f"scrypt__{key}": default_v, f"batch__scrypt__{key}": batch_v})
                    for cat, want_v in ((None, default_v), ("batch", batch_v)):
                        for v, hs in stored.items():
                            chk.evaluations += 1
                            chk.count(("cost-like", key, default_v, batch_v, cat, v))
                            chk.action("cost-like-setting")
                            got = ctx.needs_update(hs, category=cat)
                            ok, new = ctx.verify_and_update("pw", hs, category=cat)
                            if got != (v != want_v) or ok is not True or (new is None) != (v == want_v):
                                chk.violation(f"cost-like:{key}", f"scrypt {key}: configured {want_v} (category {cat}), stored hash has {v}: needs_update={got}, verify_and_update gives "
                                              f"{'no new hash' if new is None else 'a new hash'}", {"key": key, "configured": want_v, "category": cat, "stored": v, "hash": hs})
                                raise StopIteration
                except StopIteration:
                    break
                except Exception as ex:
                    chk.violation(f"cost-like:{key}:{type(ex).__name__}", f"scrypt {key}: {type(ex).__name__}: {ex}", {"key": key})
                    break


def replay(chk, path):
    v = json.loads(open(path).read())
    print(json.dumps(v["detail"], indent=1)[:5000])
    return 1
