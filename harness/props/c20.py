"""C20 - libpass hashers and classic passlib hashers understand each other.

spec/LibpassCtx.tla + MC_Libpass.tla.
 1. TLC: all hasher lists of <= 3 formats x costs x passwords x both producers: interop, identify-own, needs_update,
    context laws.
 2. S->I: simulated behaviours (make a libpass context, hash through either API, verify / identify / needs_update
    through libpass hashers, passlib hashers and the libpass context) are replayed on the real classes with varied
    passwords (text, bytes, non-ASCII, 72 bytes), explicit non-empty salts of every legal size and implicit-rounds forms.
"""
from __future__ import annotations

import json
import random
import warnings

from .. import tlc

INVS = ["InvInterop", "InvIdentifyOwn", "InvNeedsUpdate", "InvCtx"]
ROUNDS = {"sha256c": [1000, 1001, 5000], "sha512c": [1000, 5000], "pb256": [1, 2, 1000], "pb512": [2, 3], "bcrypt": [4, 5], "bcsha": [4, 5]}
PWS = {"p1": ["pw-one", "p\xe4ss w\xf6rd €", b"bytes\xff\xfe pw", "x" * 72, "L" * 96, "M" * 200], "p2": ["pw-two", "", "y" * 71 + "z", b"\x01\x02", "L" * 95 + "l", "N" * 130]}


def classes():
    from libpass.hashers.sha_crypt import SHA256Hasher, SHA512Hasher
    from libpass.hashers.pbkdf2 import PBKDF2SHA256Handler, PBKDF2SHA512Handler
    from libpass.hashers.bcrypt import BcryptHasher, BcryptSHA256Hasher
    import passlib.hash as H
    return {"sha256c": (SHA256Hasher, H.sha256_crypt), "sha512c": (SHA512Hasher, H.sha512_crypt),
            "pb256": (PBKDF2SHA256Handler, H.pbkdf2_sha256), "pb512": (PBKDF2SHA512Handler, H.pbkdf2_sha512),
            "bcrypt": (BcryptHasher, H.bcrypt), "bcsha": (BcryptSHA256Hasher, H.bcrypt_sha256)}


def split(emits):
    behs, cur = [], None
    for e in emits:
        if e["n"] == 0:
            cur = []
            behs.append(cur)
        cur.append(e)
    return behs


def salt_for(fmt, rnd):
    """an explicit non-empty salt of a legal size (or None = let the hasher draw one)"""
    if rnd.random() < .4:
        return None
    h64 = "./0123456789ABCDEFGHIJKLMNOPQRSTUVWXYZabcdefghijklmnopqrstuvwxyz"
    if fmt in ("sha256c", "sha512c"):
        n = rnd.choice([1, 2, 8, 15, 16])
        st = "".join(rnd.choice(h64) for _ in range(n))
        return st if rnd.random() < .6 else st.encode()          # (the signature takes text or bytes)
    if fmt in ("pb256", "pb512"):
        n = rnd.choice([1, 2, 16, 31, 64])
        return bytes(rnd.randrange(256) for _ in range(n))
    return None


def bcrypt_salt(cost, rnd, prefix=b"2b"):
    """a complete bcrypt salt string (what the libpass bcrypt hashers take as `salt`) at the given cost"""
    h64 = "./ABCDEFGHIJKLMNOPQRSTUVWXYZabcdefghijklmnopqrstuvwxyz0123456789"
    body = "".join(rnd.choice(h64) for _ in range(21)) + rnd.choice(".Oeu")
    return b"$" + prefix + b"$%02d$" % cost + body.encode()


def salt_cost_probe(chk, C, rnd):
    """LibpassCtx.tla: a hash carries the cost it was MADE at, and needs_update compares that cost with the hasher's.  The libpass
    bcrypt hashers accept a complete bcrypt salt, whose cost may differ from the hasher's own: the resulting string must verify
    under both libraries, and be flagged exactly by hashers of another cost."""
    for fmt in ("bcrypt", "bcsha"):
        L, P = C[fmt]
        for own in (4, 5, 6):
            for cost in (4, 5, 6):
                salt = bcrypt_salt(cost, rnd)
                secret = rnd.choice(["correct horse", "p\u00e4ss", b"bytes\xff" if fmt == "bcsha" else b"bytes", ""])
                chk.evaluations += 1
                chk.count(("salt-cost", fmt, own, cost))
                chk.action("l_hash:explicit-cost")
                detail = {"format": fmt, "hasher_rounds": own, "salt": salt.decode(), "secret": repr(secret)}
                try:
                    text = L(rounds=own).hash(secret, salt=salt)
                    detail["hash"] = text
                    facts = {"libpass_verify": L(rounds=own).verify(text, secret), "passlib_verify": P.verify(secret, text),
                             "wrong_password": L(rounds=own).verify(text, "x" + (secret if isinstance(secret, str) else "y")),
                             "needs_update_same_cost": L(rounds=cost).needs_update(text), "needs_update_own": L(rounds=own).needs_update(text),
                             "passlib_needs_update": P.using(rounds=cost).needs_update(text)}
                except Exception as ex:
                    chk.violation(f"salt-cost:{fmt}:{type(ex).__name__}", f"{fmt} hasher(rounds={own}).hash(.., salt of cost {cost}) raised {type(ex).__name__}: {ex}", detail)
                    continue
                want = {"libpass_verify": True, "passlib_verify": True, "wrong_password": False, "needs_update_same_cost": False,
                        "needs_update_own": own != cost, "passlib_needs_update": False}
                bad = sorted(k for k in want if facts[k] != want[k])
                if bad:
                    chk.violation(f"salt-cost:{fmt}:{'+'.join(bad)}", f"{fmt} hasher(rounds={own}).hash(.., salt of cost {cost}): {({k: facts[k] for k in bad})}, LibpassCtx.tla: {({k: want[k] for k in bad})}", dict(detail, facts=facts))


def replay_beh(chk, C, beh, rnd):
    from libpass.context import CryptContext as LCtx
    real = {}
    variant = rnd.randrange(6)

    def pw(p, fmt=None):
        v = PWS[p][variant]
        if fmt in ("bcrypt",) and len(v) > 72:          # the bcrypt library refuses more than 72 bytes
            v = PWS[p][3]
        return v

    def mk(L):
        return C[L["fmt"]][0](rounds=L["rounds"])
    hist = []
    ctx = None
    for k, st in enumerate(beh):
        op, L, h = st["op"], st["L"], st["h"]
        exp = st["res"]
        got = None
        extra = {}
        try:
            if op == "ctx_new":
                ctx = LCtx([mk(x) for x in st["S"]])
                got = "ok"
            elif op == "l_hash":
                salt = salt_for(L["fmt"], rnd)
                text = mk(L).hash(pw(st["pw"], L["fmt"]), **({"salt": salt} if salt is not None else {}))
                real[json.dumps(h, sort_keys=True)] = text
                extra["hash"] = text
                got = "ok" if isinstance(text, str) and text.isascii() else "not-ascii-str"
            elif op == "p_hash":
                P = C[h["fmt"]][1]
                kw = {"rounds": h["rounds"]}
                salt = salt_for(h["fmt"], rnd)
                if salt is not None:
                    kw["salt"] = salt.decode() if (isinstance(salt, bytes) and h["fmt"] in ("sha256c", "sha512c")) else salt      # (the classic sha-crypt hashers take text salts)
                if h["fmt"] == "bcrypt":            # every variant letter a classic bcrypt hash may carry
                    kw["ident"] = rnd.choice(["2a", "2b", "2y"])
                text = P.using(**kw).hash(pw(st["pw"], h["fmt"]))
                real[json.dumps(h, sort_keys=True)] = text
                extra["hash"] = text
                got = "ok"
                if h["implicit"] and "rounds=" in text:
                    got = "not-implicit-form"
            elif op == "ctx_hash":
                p = pw(st["pw"], h["fmt"])
                text = ctx.hash(p)
                real[json.dumps(h, sort_keys=True)] = text
                extra["hash"] = text
                got = "ok"
            else:
                text = real[json.dumps(h, sort_keys=True)]
                extra["hash"] = text
                p = pw(st["pw"], h["fmt"]) if st["pw"] else None
                hb = text.encode() if rnd.random() < .3 else text
                if op == "l_verify":
                    got = str(mk(L).verify(hb, p))
                elif op == "p_verify":
                    got = str(C[L["fmt"]][1].verify(p, hb))
                elif op == "l_identify":
                    got = str(mk(L).identify(hb))
                elif op == "l_needs_update":
                    got = str(mk(L).needs_update(hb))
                elif op == "ctx_verify":
                    if h["by"] == "L" and isinstance(p, bytes) or isinstance(p, bytes):
                        p2 = p
                    else:
                        p2 = p
                    got = str(ctx.verify(p2, text))
                elif op == "ctx_needs_update":
                    got = str(ctx.needs_update(text))
        except ValueError as e:
            got = "ValueError"
            extra["err"] = str(e)[:100]
        except Exception as e:
            got = "Internal:" + type(e).__name__
            extra["err"] = str(e)[:100]
        want = exp if op not in ("l_hash", "p_hash", "ctx_hash", "ctx_new") else "ok"
        hist.append({"op": op, "hasher": L, "h": h, "pw": repr(pw(st["pw"])) if st["pw"] else None, "spec": want, "got": got, **extra})
        chk.count((op, want, L["fmt"], h["fmt"], h["by"], h["implicit"], L["rounds"] == h["rounds"], variant))
        chk.action(f"{op}->{want}")
        if got != want:
            chk.violation(f"{op}:{h['fmt'] if h['fmt'] != 'none' else L['fmt']}:{want}->{got}", f"{op} gave {got}, spec says {want}",
                          {"history": hist, "ctx_schemes": beh[0]["S"]})
            return
        # a freshly made hash must be of the format's shape: the other API's identify is the independent judge
        if op in ("l_hash", "ctx_hash"):
            P = C[h["fmt"]][1]
            if not P.identify(extra["hash"]):
                chk.violation(f"{op}:{h['fmt']}:foreign-shape", f"passlib's {P.name} does not recognise the hash libpass made: {extra['hash'][:30]}...",
                              {"history": hist})
                return


def run(chk):
    warnings.simplefilter("ignore")
    quick = chk.tier == "quick"
    rnd = random.Random(chk.seed)
    C = classes()
    chk.rule = ("S->I: each step (hash via libpass / passlib / libpass context, verify, identify, needs_update) is executed on the real classes; "
                "non-trivial = distinct (op, expected, hasher format, hash format, producer, implicit rounds, same cost, password variant)")
    R = tlc.Raw
    small = R('[sha256c |-> {1000, 5000}, sha512c |-> {1000}, pb256 |-> {1, 2}, pb512 |-> {2}, bcrypt |-> {4, 5}, bcsha |-> {4}]')
    r = tlc.run_instance("MC_Libpass", dict(Rounds=small, Pws={"p1", "p2"}, MaxOps=2, MaxStore=2, DoEmit=False), name="C20_mc", invariants=INVS,
                         action_constraint="Emit", view="View", coverage=False, timeout=900)
    chk.add_tlc("MC_Libpass exhaustive (lists of <= 3 formats, 2 operations)", r)
    full = R("[" + ", ".join(f"{f} |-> {tlc.tla_val(set(v))}" for f, v in ROUNDS.items()) + "]")
    nb = 60 if quick else 1500
    r = tlc.run_instance("MC_Libpass", dict(Rounds=full, Pws={"p1", "p2"}, MaxOps=12, MaxStore=4, DoEmit=True), name="C20_sim", invariants=INVS,
                         action_constraint="Emit", next="SimNext", simulate=f"num={nb}", depth=12, seed=chk.seed + 13, workers=1, coverage=False, timeout=1800)
    chk.add_tlc(f"MC_Libpass simulation ({nb} behaviours x 11 operations)", r)
    behs = split(r.emits)
    for b in behs:
        replay_beh(chk, C, b, rnd)
        chk.traces += 1
    salt_cost_probe(chk, C, rnd)
    if behs:
        chk.sample({"context": behs[0][0]["S"], "steps": [{k: s[k] for k in ("op", "L", "h", "pw", "res")} for s in behs[0][1:4]]})
    chk.assumptions += ["bcrypt passwords are limited to 72 bytes (the limit the bcrypt library itself enforces)", "salts passed explicitly are non-empty"]


def replay(chk, path):
    v = json.loads(open(path).read())
    print(json.dumps(v["detail"], indent=1)[:5000])
    return 1
