"""Extension beyond the listed properties: passlib.utils.utf8_truncate / utf8_repeat_string / repeat_string / right_pad_string against
spec/Utf8Cut.tla (run as part of the C03 check: the bcrypt family prepares passwords for crypt(3) with these helpers).
TLC proves the properties of the definition over all class strings and enumerates (string, index) -> cut length; every pair is executed."""
from __future__ import annotations

from .. import tlc

INVS = ["InvPrefixLen", "InvAtLeast", "InvAtMost", "InvOnBoundary", "InvShortest", "InvIdempotent", "InvRepeat"]


def concretise(classes, rnd):
    """bytes of the given classes; a well-formed class string becomes valid UTF-8"""
    out = bytearray()
    k = 0
    n = len(classes)
    while k < n:
        c = classes[k]
        if c == "a":
            out.append(rnd.choice([0x41, 0x7a, 0x20, 0x00, 0x7f, rnd.randrange(0x80)]))
            k += 1
        elif c == "c":
            out.append(rnd.randrange(0x80, 0xC0))
            k += 1
        else:
            m = 0
            while k + 1 + m < n and classes[k + 1 + m] == "c" and m < 3:
                m += 1
            follows_c = k + 1 + m < n and classes[k + 1 + m] == "c"
            if m and not follows_c:
                ch = {1: ["\xe9", "\xdf", "߿"], 2: ["€", "ࠀ", "￮"], 3: ["\U0001F600", "\U00010000"]}[m]
                out += rnd.choice(ch).encode()
                k += 1 + m
            else:
                out.append(rnd.choice([0xC3, 0xE2, 0xF0, 0xFF, 0xC0]))
                k += 1
    return bytes(out)


def run(chk, quick, rnd):
    try:
        from passlib.utils import utf8_truncate, utf8_repeat_string, repeat_string, right_pad_string
    except Exception as ex:
        chk.uncovered.append(f"passlib.utils utf8 helpers: {type(ex).__name__}: {ex}"[:120])
        return
    consts = dict(MaxLen=5 if quick else 7, Sizes=set(range(-7, 9)) if quick else set(range(-9, 12)), DoEmit=True)
    r = tlc.run_instance("Utf8Cut", consts, name="C03_utf8cut", invariants=INVS + ["EmitInv"], workers=1, coverage=False, timeout=1800)
    chk.add_tlc("Utf8Cut: properties of the cut over all class strings x indices; every (string, index) emitted", r)
    n = 0
    for e in r.emits:
        cls = e["s"] if isinstance(e["s"], list) else []
        b = concretise(cls, rnd)
        if len(b) != len(cls):
            raise tlc.MachineryError("Utf8Cut: concretisation changed the length")
        i = e["i"]
        n += 1
        chk.evaluations += 1
        chk.count(("utf8cut", len(cls), i, e["cut"] - max(0, min(len(cls), i if i >= 0 else max(0, i + len(cls))))))
        chk.action("utf8cut")
        try:
            got = utf8_truncate(b, i)
        except Exception as ex:
            got = f"{type(ex).__name__}: {ex}"[:100]
        if got != b[:e["cut"]]:
            chk.violation("utf8cut:truncate", f"utf8_truncate({b!r}, {i}) gave {got!r}, Utf8Cut.tla: the first {e['cut']} bytes", {"source": b.hex(), "classes": cls, "index": i, "expected_len": e["cut"]})
            continue
        if e["rep"] >= 0:
            try:
                got = utf8_repeat_string(b, i)
            except Exception as ex:
                got = f"{type(ex).__name__}: {ex}"[:100]
            want = (b * (1 + (i - 1) // len(b)))[:e["rep"]]
            plain = repeat_string(b, i)
            padded = right_pad_string(b, i)
            if got != want:
                chk.violation("utf8cut:repeat", f"utf8_repeat_string({b!r}, {i}) gave {got!r}, Utf8Cut.tla: {want!r}", {"source": b.hex(), "classes": cls, "size": i})
            elif plain != (b * (i // len(b) + 1))[:i] or padded != (b + b"\0" * i)[:i]:
                chk.violation("utf8cut:plain", f"repeat_string / right_pad_string({b!r}, {i}) gave {plain!r} / {padded!r}", {"source": b.hex(), "size": i})
    chk.traces += n
    if n < 1000:
        raise tlc.MachineryError(f"Utf8Cut emitted only {n} cases")
    chk.extra.setdefault("extensions", []).append(f"Utf8Cut.tla: utf8_truncate / utf8_repeat_string / repeat_string / right_pad_string ({n} (string, index) pairs; beyond the listed properties)")
