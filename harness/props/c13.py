"""C13 - one-time codes follow RFC 4226 / RFC 6238.

spec/Totp.tla part Generate (DT, TokenDigits, CounterL/ExpireL, KeyFromText) + MC_TotpGen + Trace_TotpGen.
 1. TLC: truncation invariants over every offset, digest size, digit count and boundary pattern.
 2. S->I: the TLC-chosen extreme digests are injected into a real TOTP object (through its cached
    keyed-HMAC slot, an optional private observable) and the token compared.
 3. I->S: real TOTP.generate calls (keys 1..64 bytes, 3 algorithms, digits 6..10, periods 1..3600,
    times up to 2^40 in every accepted form) are recorded; the digest is computed with stdlib hmac over
    the counter the real code reported; TLC checks counter = floor(t/p), token = Truncate(digest),
    start/expire times, and that every text form of a key decodes to the same key.
"""
from __future__ import annotations

import base64
import datetime as dt
import hashlib
import hmac
import json
import random
import struct
import warnings

from .. import tlc
from ..common import VERIF

LB = 1 << 15


def limbs(v):
    assert v >= 0
    out = []
    while True:
        out.append(v % LB)
        v //= LB
        if not v:
            return out


def time_forms(rnd, t):
    forms = [("int", t), ("float", float(t) + (0.5 if t < 2 ** 50 else 0))]
    if 0 <= t < 2 ** 37:
        forms.append(("naive", dt.datetime(1970, 1, 1) + dt.timedelta(seconds=t, microseconds=999999)))
        tz = dt.timezone(dt.timedelta(hours=rnd.choice([-11, -3, 0, 5, 13]), minutes=rnd.choice([0, 30, 45])))
        forms.append(("aware", dt.datetime.fromtimestamp(t, tz=tz)))
    return forms


def key_texts(rnd, key):
    b32 = base64.b32encode(key).decode().rstrip("=")
    hx = key.hex()
    out = [("raw", key), ("base32", b32), ("base32", b32.lower()), ("hex", hx), ("hex", hx.upper())]
    grouped = "-".join(b32[i:i + 4] for i in range(0, len(b32), 4))
    out.append(("base32", grouped))
    out.append(("base32", " ".join(b32[i:i + 3] for i in range(0, len(b32), 3)).lower() + "\n"))
    out.append(("base32", base64.b32encode(key).decode()))          # with '=' padding
    out.append(("base32", b32.replace("B", "8").replace("O", "0")))  # common typos
    out.append(("hex", " ".join(hx[i:i + 2] for i in range(0, len(hx), 2))))
    return out


def run(chk):
    from passlib.totp import TOTP
    from passlib import exc
    warnings.simplefilter("ignore")
    quick = chk.tier == "quick"
    rnd = random.Random(chk.seed)
    chk.rule = ("I->S: each recorded generate()/key-decoding event is re-computed by Totp.tla (counter, token digits, start/expire, key); "
                "S->I: each TLC-enumerated boundary digest is injected and the token compared. non-trivial = distinct "
                "(alg, digits, period class, time form, DT offset, leading-zero?) combinations")
    R = tlc.Raw
    pats = R("{<<0,0,0,0>>, <<0,0,0,1>>, <<255,255,255,255>>, <<127,255,255,255>>, <<128,0,0,0>>, <<0,15,66,63>>, <<0,15,66,64>>, "
             "<<59,154,201,255>>, <<59,154,202,0>>, <<5,245,224,255>>, <<5,245,225,0>>, <<119,53,148,0>>, <<1,2,3,4>>}")
    # 1. exhaustive truncation invariants
    r = tlc.run_instance("MC_TotpGen", dict(Fillers={255} if quick else {0, 255, 90}, Sizes={20, 32, 64}, DigitCounts=set(range(6, 11)), Patterns=pats, DoEmit=False),
                         name="C13_mc", invariants=["InvDigits", "InvStable", "InvTenDigits", "InvValueRange", "InvDecimal"],
                         timeout=1200)
    chk.add_tlc("MC_TotpGen exhaustive", r)
    # 2. S->I with injected digests (initial states only)
    r = tlc.run_instance("MC_TotpGen", dict(Fillers={0, 255}, Sizes={20, 32, 64}, DigitCounts=set(range(6, 11)), Patterns=pats, DoEmit=True),
                         name="C13_emit", invariants=["InvDigits"], next="Stop", workers=1, coverage=False, init="InitEmit")
    chk.add_tlc("MC_TotpGen emitting initial digests", r)
    algs = {20: "sha1", 32: "sha256", 64: "sha512"}
    injected = 0
    probe = TOTP(key=b"k" * 20, format="raw")
    can_inject = hasattr(probe, "_keyed_hmac")
    for ev in r.emits:
        d = bytes(ev["d"])
        if not can_inject:
            break

        class Fake:
            class digest_info:
                digest_size = len(d)

            def __call__(self, msg, _d=d):
                return _d
        t = TOTP(key=b"k" * 20, format="raw", alg=algs[len(d)], digits=ev["n"])
        t._keyed_hmac = Fake()
        got = t.generate(59).token
        exp = "".join(map(str, ev["tok"]))
        injected += 1
        chk.count(("inject", len(d), ev["n"], d[-1] & 15, exp[0] == "0", d[(d[-1] & 15)] >> 7))
        if got != exp:
            chk.violation("generate:truncation", "token differs from RFC 4226 dynamic truncation of the digest",
                          {"digest": d.hex(), "digits": ev["n"], "expected": exp, "got": got})
    chk.traces += injected
    chk.action("inject-digest", injected)
    if not can_inject:
        chk.uncovered.append("digest injection skipped: TOTP has no _keyed_hmac slot")
    # 3. I->S
    evs = []
    nkeys = 30 if quick else 400
    for ki in range(nkeys):
        klen = rnd.choice([1, 2, 5, 10, 16, 20, 20, 32, 33, 64]) if ki > 12 else [1, 2, 9, 10, 19, 20, 21, 32, 40, 63, 64, 5, 16][ki]
        key = bytes(rnd.randrange(256) for _ in range(klen))
        alg = ["sha1", "sha256", "sha512"][ki % 3]
        digits = 6 + (ki // 3) % 5
        period = rnd.choice([1, 2, 29, 30, 30, 31, 60, 59, 300, 3600, rnd.randrange(1, 3601)])
        for fmt, text in key_texts(rnd, key):
            try:
                got = TOTP(key=text, format=fmt).key
                res = ["ok", list(got)]
            except ValueError as e:
                res = ["ValueError"]
            if fmt != "raw":
                evs.append({"op": "key", "fmt": fmt, "text": [ord(c) for c in text], "res": res, "_key": key.hex()})
        # factories made with other settings must leave the class they were made from untouched: half of the objects are then
        # built from plain TOTP relying on its documented defaults (sha1, 6 digits, 30 s)
        TOTP.using(alg=rnd.choice(["sha256", "sha512"]), digits=rnd.choice([7, 8]), period=rnd.choice([15, 60]))
        if rnd.random() < .35:
            alg, digits, period = "sha1", 6, 30
            totp = TOTP(key=key, format="raw")
        else:
            try:
                totp = TOTP(key=key, format="raw", alg=alg, digits=digits, period=period)
            except Exception as ex:
                chk.violation(f"construct:{type(ex).__name__}", f"TOTP(alg={alg!r}, digits={digits}, period={period}) - admissible settings - raised {type(ex).__name__}: {ex}",
                              {"alg": alg, "digits": digits, "period": period})
                continue
        times = [0, 1, period - 1, period, period + 1, 59, 1111111109, 1234567890, 2000000000, 2 ** 31 - 1, 2 ** 31, 2 ** 32 - 1, 2 ** 32,
                 20000000000, 2 ** 40 - 1, 2 ** 40]
        k = rnd.randrange(1, 2 ** 36 // period)
        times += [k * period - 1, k * period, k * period + period - 1, rnd.randrange(2 ** 40)]
        if quick:
            times = rnd.sample(times, 8)
        key_now = key
        for ti2, t in enumerate(times):
            if ti2 == len(times) // 2:
                # history: the object is re-keyed after it has already produced tokens (key, hex_key and the
                # tokens must all follow the new key)
                key_now = bytes(rnd.randrange(256) for _ in range(klen)) if klen > 1 else b"Z"
                totp.key = key_now
                if totp.key != key_now or totp.hex_key != key_now.hex():
                    chk.violation("rekey:key", "assigning TOTP.key did not change the reported key", {"key": key_now.hex()})
            for form, tv in time_forms(rnd, t):
                try:
                    tok = totp.generate(tv)
                except Exception as e:
                    chk.violation(f"generate:raises:{form}", f"generate({form} time) raised {type(e).__name__}: {e}",
                                  {"key": key_now.hex(), "alg": alg, "period": period, "time": repr(tv), "seconds": t})
                    continue
                c = tok.counter
                digest = hmac.new(key_now, struct.pack(">Q", c), getattr(hashlib, alg)).digest()   # independent of passlib
                evs.append({"op": "generate", "t": limbs(t), "p": period, "digits": digits, "digest": list(digest),
                            "token": [int(ch) for ch in tok.token] if tok.token.isdigit() else [-1],
                            "counter": limbs(c) if c >= 0 else [-1], "expire": limbs(max(tok.expire_time, 0)), "start": limbs(max(tok.start_time, 0)),
                            "_form": form, "_alg": alg, "_key": key_now.hex(), "_t": t, "_token": tok.token, "_rekeyed": key_now != key})
                pc = "1" if period == 1 else "30" if period == 30 else "other"
                chk.count(("gen", alg, digits, pc, form, digest[-1] & 15, tok.token[0] == "0", t >= 2 ** 31, key_now != key))
                chk.action("generate" + ("-after-rekey" if key_now != key else ""))
                if form == "int" and rnd.random() < .5:
                    # the token as the clock moves on: valid / remaining at chosen instants (the clock is a setting of the factory)
                    for off in (0, 1, period - 1, period, period + 1):
                        clock = {"now": tok.start_time + off}
                        tk = TOTP.using(now=lambda clock=clock: clock["now"])(key=key_now, format="raw", alg=alg, digits=digits, period=period).generate(t)
                        evs.append({"op": "valid", "off": off, "p": period, "valid": bool(tk.valid), "remaining": int(tk.remaining), "_t": t})
                        chk.action("validity")
                if tuple(tok) != (tok.token, tok.expire_time):
                    chk.violation("generate:tuple", "TotpToken does not unpack as (token, expire_time)", {"t": t})
    # negative times are refused
    for tneg in (-1, -30, -10 ** 6):
        try:
            TOTP(key=b"x" * 20, format="raw").generate(tneg)
            chk.violation("generate:negative", "generate() accepted a negative timestamp", {"t": tneg})
        except ValueError:
            pass
        chk.count()
    wd = tlc.WORK / "C13_trace_in"
    wd.mkdir(parents=True, exist_ok=True)
    tf = wd / "events.json"
    tf.write_text(json.dumps([{k: v for k, v in e.items() if not k.startswith("_")} for e in evs]))
    r = tlc.run("Trace_TotpGen", "INIT Init\nNEXT Next\n", name="C13_trace", workers=1, env={"TRACE_FILE": str(tf)},
                coverage=False, timeout=3000)
    chk.add_tlc("Trace_TotpGen over recorded events", r)
    if r.distinct != len(evs) + 1:
        raise tlc.MachineryError(f"trace not fully consumed: {r.distinct} states for {len(evs)} events")
    chk.traces += len(evs)
    for e in evs:
        if e["op"] == "key":
            chk.count(("key", e["fmt"], len(e["text"]) % 8, e["res"][0]))
            chk.action("key-decode")
    chk.sample({"recorded_generate_event": next(e for e in evs if e["op"] == "generate")})
    chk.sample({"recorded_key_event": next(e for e in evs if e["op"] == "key")})
    for b in r.emits:
        e = evs[b["ev"] - 1]
        chk.violation(f"trace:{e['op']}:{b['clause']}", f"recorded {e['op']} result differs from Totp.tla ({b['clause']})",
                      {"event": e, "spec_expected": b["expected"]})
    chk.extra["injected_digests"] = injected
    chk.extra["recorded_events"] = len(evs)
    chk.assumptions += ["stdlib hmac/hashlib compute HMAC-SHA1/256/512 correctly (digest is an input of the spec)",
                        "datetime -> epoch seconds conversion of the harness (timedelta arithmetic) is correct"]


def replay(chk, path):
    v = json.loads(open(path).read())
    print(json.dumps(v, indent=1)[:3000])
    return 1
