"""C17 - every shipped context recognises the hashes of each of its own schemes.

spec/Presets.tla (model extracted from the code) + spec/Registry.tla.
 1. For every exported context (passlib.apps, passlib.hosts, the htpasswd context, the Django-extension presets) the
    scheme order is read and the matrix "scheme t claims hash h" is built by calling t.identify(h) on generated
    hashes of every scheme (every ident/variant, salt sizes, bare-salt forms); TLC decides first-claimant attribution
    for every (context, producing scheme, hash).  This model is extracted, so a shadowed hash IS a code violation.
 2. The extracted model is tied to CryptContext itself: ctx.identify(h) must equal TLC's first claimant, and
    non-shadowed hashes must verify their password (and reject another) through the context.
 3. Registry.tla (lazy loading through get_crypt_handler / passlib.hash attribute access) is model-checked and
    simulated access sequences over all registered names are replayed in fresh interpreters.
"""
from __future__ import annotations

import json
import random
import subprocess
import sys
import warnings

from .. import tlc

PW, PW2 = "p\xe4ssword-1", "other"
PW_OF = {}          # (scheme, variant tag) -> the password of that generated hash, when it is not PW / PW2


def contexts():
    import passlib.apps as A
    import passlib.hosts as Ho
    import passlib.apache as Ap
    from passlib.context import CryptContext
    out = {}
    for mod, pre in ((A, "apps."), (Ho, "hosts.")):
        for n in sorted(dir(mod)):
            o = getattr(mod, n)
            if isinstance(o, CryptContext) and n != "master_context":      # internal catch-all list, documented as ambiguous
                out[pre + n] = o
    out["apache.htpasswd_context"] = Ap.htpasswd_context
    try:
        from passlib.ext.django import utils as du
        for name in list(getattr(du, "_preset_map", {})) + ["passlib-default"]:
            try:
                cfg = du.get_preset_config(name)
                out["ext.django." + name] = CryptContext.from_string(cfg) if isinstance(cfg, str) else CryptContext(**cfg)
            except Exception as e:      # recorded, not fatal
                out["ext.django." + name] = e
    except Exception as e:
        out["ext.django"] = e
    return out


def variants(name, h):
    """generated hashes of one scheme: [(tag, hash text)]"""
    out = []
    w = getattr(h, "wrapped", h)
    kw = {}
    if "rounds" in h.setting_kwds:
        mn = w.min_rounds
        kw["rounds"] = {"linear": max(mn, min(1000, w.max_rounds or 1000)) if mn <= 1000 else mn, "log2": max(mn, 4)}[w.rounds_cost]
        if name in ("scrypt",):
            kw["rounds"] = 1
    ctxkw = {}
    if "user" in h.context_kwds:
        ctxkw["user"] = "user"
    if "realm" in h.context_kwds:
        ctxkw["realm"] = "realm"

    def add(tag, fn, pw=None):
        PW_OF[(name, tag)] = pw
        try:
            v = fn()
            if isinstance(v, bytes):
                v = v.decode("ascii")
            out.append((tag, v))
        except Exception:
            pass
    if name == "unix_disabled":
        return [("marker1", "!"), ("marker2", "*"), ("marker+text", "!$1$abcdefgh$IQtUouv7y7Q9dRWkQEPCc."), ("empty", "")]
    if name == "django_disabled":
        add("default", lambda: h.hash(PW))
        out.append(("bare", "!"))
        return out
    add("default", lambda: h.using(**kw).hash(PW, **ctxkw))
    # other spellings of the same hash (letter case) that the scheme itself verifies: they are its hashes too
    if out:
        v0 = out[0][1]
        for tag, alt in (("spelling-lower", v0.lower()), ("spelling-upper", v0.upper()), ("spelling-swapcase", v0.swapcase())):
            try:
                if alt != v0 and alt not in [t for _, t in out] and h.verify(PW, alt, **ctxkw) is True:
                    out.append((tag, alt))
            except Exception:
                pass
    add("second", lambda: h.using(**kw).hash(PW2, **ctxkw))
    if name != "ldap_plaintext":          # (documented: the empty string is not a valid ldap_plaintext value)
        add("empty-password", lambda: h.using(**kw).hash("", **ctxkw), pw="")
    if name in ("plaintext", "ldap_plaintext", "roundup_plaintext"):
        # stored plaintext passwords that look like disabled-account markers (a password that looks like another scheme's hash is
        # shadowed by construction - the catch-all is listed last for that reason - and is not demanded)
        for tag, p_ in (("bang", "!bang"), ("star", "*starred")):
            add("looks-like-" + tag, lambda p_=p_: h.hash(p_), pw=p_)
    for ident in getattr(w, "ident_values", None) or ():
        add(f"ident={ident}", lambda ident=ident: h.using(ident=ident, **kw).hash(PW, **ctxkw))
    if getattr(w, "min_salt_size", None) is not None and "salt_size" in h.setting_kwds:
        for sz in {w.min_salt_size, w.max_salt_size if w.max_salt_size is not None else w.default_salt_size, w.default_salt_size}:
            if sz is not None and sz <= 64:
                add(f"salt_size={sz}", lambda sz=sz: h.using(salt_size=sz, **kw).hash(PW, **ctxkw))
    if "rounds" in h.setting_kwds and w.rounds_cost == "linear" and w.min_rounds <= 5000 <= (w.max_rounds or 10 ** 9):
        add("rounds=5000", lambda: h.using(rounds=5000).hash(PW, **ctxkw))     # sha-crypt's implicit-rounds encoding
    if name in ("bcrypt_sha256",):
        add("v1", lambda: h.using(version=1, **kw).hash(PW))
    if name == "scrypt":
        add("ident7", lambda: h.using(ident="$7$", **kw).hash(PW))
    return out


_CATS = {}


def cats_of(cname, ctx):
    if cname not in _CATS:
        try:
            _CATS[cname] = sorted({k.split("__")[0] for k in ctx.to_dict() if len(k.split("__")) == 3})
        except Exception:
            _CATS[cname] = []
    return _CATS[cname]


def run(chk):
    warnings.simplefilter("ignore")
    quick = chk.tier == "quick"
    rnd = random.Random(chk.seed)
    from passlib import registry
    ctxs = contexts()
    chk.rule = ("one case = one (context, producing scheme, generated hash) triple: attribution decided by TLC on the extracted matrix, then "
                "ctx.identify / ctx.verify(right) / ctx.verify(wrong) executed on the real context. non-trivial = distinct (context, scheme, variant)")
    order, made, claims = {}, [], set()
    hashes = {}          # hid -> (text, scheme)
    cache = {}
    skipped = []
    ident_cache = {}
    for cname, ctx in sorted(ctxs.items()):
        if isinstance(ctx, Exception):
            chk.violation(f"context:{cname}:unloadable", f"exported context {cname} cannot be built: {type(ctx).__name__}: {ctx}", {"context": cname})
            continue
        try:
            names = list(ctx.schemes())
        except Exception as e:
            chk.violation(f"context:{cname}:unloadable", f"exported context {cname} cannot be initialised: {type(e).__name__}: {e}", {"context": cname})
            continue
        order[cname] = names
        local = []
        for s in names:
            if s not in cache:
                h = registry.get_crypt_handler(s)
                try:
                    if hasattr(h, "has_backend") and not h.has_backend():
                        cache[s] = None
                    else:
                        cache[s] = variants(s, h)
                except Exception:
                    cache[s] = None
                if not cache[s]:
                    skipped.append(s)
            for tag, text in cache[s] or []:
                hid = f"{s}/{tag}"
                hashes[hid] = (text, s)
                made.append((cname, s, hid))
                local.append(hid)
        for hid in local:
            for t in names:
                key = (t, hid)
                if key not in ident_cache:
                    try:
                        ident_cache[key] = bool(registry.get_crypt_handler(t).identify(hashes[hid][0]))
                    except Exception:
                        ident_cache[key] = False
                if ident_cache[key]:
                    claims.add(key)
    chk.extra["contexts"] = {c: o for c, o in order.items()}
    chk.extra["schemes_without_backend_or_hash"] = sorted(set(skipped))
    R = tlc.Raw
    ordexpr = "[" + ", ".join(f'c{i} |-> {tlc.tla_val(o)}' for i, (c, o) in enumerate(sorted(order.items()))) + "]"
    cid = {c: f"c{i}" for i, (c, o) in enumerate(sorted(order.items()))}
    hidn = {h: i for i, h in enumerate(sorted(hashes))}
    madeexpr = "{" + ", ".join(f'<<"{cid[c]}", "{s}", {hidn[h]}>>' for c, s, h in made) + "}"
    clexpr = "{" + ", ".join(f'<<"{t}", {hidn[h]}>>' for t, h in sorted(claims)) + "}"
    r = tlc.run_instance("Presets", dict(Order=R(ordexpr), Made=R(madeexpr), Claims=R(clexpr)), name="C17_mc", action_constraint="Emit",
                         workers=1, coverage=False, timeout=1200)
    chk.add_tlc("Presets: first-claimant attribution over the extracted claim matrix", r)
    rev_c = {v: k for k, v in cid.items()}
    rev_h = {v: k for k, v in hidn.items()}
    if len(r.emits) != len(set(made)):
        raise tlc.MachineryError(f"TLC decided {len(r.emits)} triples, expected {len(set(made))}")
    for e in r.emits:
        cname, s, hid = rev_c[e["ctx"]], e["scheme"], rev_h[e["hid"]]
        text = hashes[hid][0]
        ctx = ctxs[cname]
        first = e["first"]
        chk.count((cname, s, hid))
        chk.action("attribute")
        # extracted-model verdict
        if first != s:
            chk.violation(f"{cname}:{s}:claimed-by:{first}", f"{cname}: a {s} hash ({hid.split('/')[1]}) is attributed to {first}, which precedes it in the scheme list",
                          {"context": cname, "order": order[cname], "scheme": s, "hash": text, "first_claimant": first})
        # binding to CryptContext itself
        got = ctx.identify(text) or "unidentified"
        if got != first:
            chk.violation(f"{cname}:identify-differs-from-first-claimant", f"{cname}.identify gives {got}, first claimant per handler.identify() is {first}",
                          {"context": cname, "order": order[cname], "hash": text, "identify": got, "first_claimant": first})
        elif first == s and s not in ("unix_disabled", "django_disabled"):
            pw = PW2 if hid.endswith("/second") else PW
            special = PW_OF.get((s, hid.split("/", 1)[1]))
            if special is not None:
                pw = special
            kw = {}
            hd = registry.get_crypt_handler(s)
            if "user" in hd.context_kwds:
                kw["user"] = "user"
            if "realm" in hd.context_kwds:
                kw["realm"] = "realm"
            try:
                ok1 = ctx.verify(pw, text, **kw)
                ok2 = ctx.verify("X" + pw, text, **kw)
                # contexts that define user categories: attribution and verification are the same for every category, and the record of a
                # scheme under a category is a variant of that very scheme
                for cat in cats_of(cname, ctx):
                    if ctx.identify(text, category=cat) != s or ctx.handler(s, category=cat).name != s or ctx.verify(pw, text, category=cat, **kw) is not True \
                            or ctx.verify("X" + pw, text, category=cat, **kw) is not False:
                        ok1 = f"under category {cat!r}: identify={ctx.identify(text, category=cat)}, handler={ctx.handler(s, category=cat).name}"
                        break
            except Exception as ex:
                ok1, ok2 = f"{type(ex).__name__}: {ex}"[:100], None
            chk.evaluations += 2
            if ok1 is not True or ok2 is not False:
                chk.violation(f"{cname}:{s}:verify", f"{cname}: own {s} hash verifies right/wrong password as {ok1}/{ok2}",
                              {"context": cname, "scheme": s, "hash": text, "right": ok1, "wrong": ok2})
    chk.traces += len(r.emits)
    if r.emits:
        e = r.emits[len(r.emits) // 3]
        chk.sample({"context": rev_c[e["ctx"]], "order": order[rev_c[e["ctx"]]], "scheme": e["scheme"], "hash": hashes[rev_h[e["hid"]]][0], "first_claimant": e["first"]})
    # ---- registry -------------------------------------------------------------------------
    names = sorted(registry.list_crypt_handlers())
    r = tlc.run_instance("Registry", dict(Names=set(names[:4]), MaxOps=4, DoEmit=False), name="C17_reg_mc", invariants=["InvSameObject", "InvDistinct"],
                         properties=["Idempotent"], action_constraint="Emit", coverage=False)
    chk.add_tlc("Registry exhaustive (4 names, 4 accesses)", r)
    nb = 6 if quick else 40
    r = tlc.run_instance("Registry", dict(Names=set(names), MaxOps=40, DoEmit=True), name="C17_reg_sim", invariants=["InvSameObject", "InvDistinct"],
                         action_constraint="Emit", next="SimNext", simulate=f"num={nb}", depth=40, seed=chk.seed + 9, workers=1, coverage=False)
    chk.add_tlc(f"Registry simulation ({nb} access sequences over {len(names)} names)", r)
    behs, cur = [], None
    for e in r.emits:
        if e["n"] == 0:
            cur = []
            behs.append(cur)
        cur.append(e)
    child = r'''
import sys, json, warnings
warnings.simplefilter("ignore")
sys.path.insert(0, %r)
steps = json.loads(sys.stdin.read())
from passlib import registry
import passlib.hash as H
ids, out = {}, []
for st in steps:
    n = st["name"]
    form = {"plain": n, "upper": n.upper(), "dash": n.replace("_", "-")}[st["form"]]
    try:
        o = registry.get_crypt_handler(form) if st["op"] == "get" else getattr(H, n)
        k = ids.setdefault(id(o), len(ids) + 1)
        out.append([k, getattr(o, "name", None)])
    except Exception as e:
        out.append([type(e).__name__, str(e)[:80]])
names = sorted(registry.list_crypt_handlers())
bad = [n for n in names if getattr(registry.get_crypt_handler(n), "name", None) != n or getattr(H, n) is not registry.get_crypt_handler(n)]
out.append(["REGISTRY", names, bad])
print(json.dumps(out))
''' % chk.repo
    for b in behs:
        p = subprocess.run([sys.executable, "-c", child], input=json.dumps([{k: s[k] for k in ("op", "name", "form")} for s in b]),
                           capture_output=True, text=True, timeout=300)
        try:
            got = json.loads(p.stdout.strip().splitlines()[-1])
        except Exception:
            raise tlc.MachineryError(f"registry child failed: {p.stderr[-300:]}")
        chk.traces += 1
        tail = got.pop() if got and got[-1][0] == "REGISTRY" else None
        if tail is not None and (tail[1] != names or tail[2]):
            chk.violation("registry:enumeration-after-access", f"after the access sequence the registry lists {sorted(set(tail[1]) ^ set(names))} differently / names whose hasher carries another name: {tail[2]}",
                          {"sequence": [{k: s[k] for k in ('op', 'name', 'form')} for s in b], "extra_or_missing": sorted(set(tail[1]) ^ set(names)), "mismatched": tail[2]})
        for st, g in zip(b, got):
            chk.count(("registry", st["op"], st["form"], st["name"]))
            chk.action("registry." + st["op"])
            if g != [st["res"], st["name"]]:
                chk.violation(f"registry:{st['op']}:{st['form']}", f"registry access {st['op']}({st['name']}, {st['form']}) gave object #{g[0]} named {g[1]!r}; "
                              f"spec: object #{st['res']} named {st['name']!r}", {"sequence": [{k: s[k] for k in ('op', 'name', 'form', 'res')} for s in b], "got": got})
                break
    from . import x_patchmanager
    x_patchmanager.run(chk, quick, rnd)
    chk.extra["extensions"] = ["PatchManager.tla: passlib.ext.django._PatchManager (beyond the listed properties)"]
    chk.assumptions += ["host dependent: the htpasswd and host contexts contain whatever crypt() supports on this host; schemes without a usable backend "
                        "(argon2 here) contribute no hashes", "handler.identify() is the source of the extracted claim matrix"]


def replay(chk, path):
    v = json.loads(open(path).read())
    d = v["detail"]
    print(json.dumps(d, indent=1)[:3000])
    if "hash" in d and "context" in d:
        ctx = contexts()[d["context"]]
        print("identify now:", ctx.identify(d["hash"]))
    return 1
