"""C03 - all backends of a hash agree and every advertised backend works.

spec/Backend.tla + MC_Backend.tla (selection protocol) + Trace_Backend.tla (single-valued digest).
 1. TLC model-checks the selection protocol for each family configuration (backend order taken from the
    real class, availability probed independently of passlib).
 2. S->I: random behaviours of the protocol (set/has/get/hash on root, child, grandchild) are replayed on
    the real global hashers, each behaviour in a freshly forked process so that "nothing loaded yet" is real.
 3. I->S: every selectable backend of every family hashes a key sweep; independent providers (libxcrypt via
    legacycrypt, the bcrypt C library, hashlib.scrypt) hash the same keys; Trace_Backend checks that all
    events define one function key -> digest.
"""
from __future__ import annotations

import hashlib
import json
import multiprocessing as mp
import os
import random
import warnings

from .. import tlc
from ..common import VERIF

INHERIT = ["md5_crypt", "sha1_crypt", "sha256_crypt", "sha512_crypt", "des_crypt", "bsdi_crypt",
           "ldap_md5_crypt", "ldap_sha256_crypt", "ldap_des_crypt"]
SHARED = ["bcrypt", "bcrypt_sha256", "django_bcrypt", "django_bcrypt_sha256", "ldap_bcrypt", "scrypt"]

#: cheap config string per family for genhash("pw", config) and its libxcrypt form (None = not a crypt format)
CONFIGS = {
    "md5_crypt": "$1$abcdefgh$", "sha1_crypt": "$sha1$3$abcdefgh$", "sha256_crypt": "$5$rounds=1000$abcdefgh$",
    "sha512_crypt": "$6$rounds=1000$abcdefgh$", "des_crypt": "ab", "bsdi_crypt": "_1...abcd",
    "ldap_md5_crypt": "{CRYPT}$1$abcdefgh$", "ldap_sha256_crypt": "{CRYPT}$5$rounds=1000$abcdefgh$", "ldap_des_crypt": "{CRYPT}ab",
    "bcrypt": "$2b$04$abcdefghijklmnopqrstuu", "ldap_bcrypt": "{CRYPT}$2b$04$abcdefghijklmnopqrstuu",
    "django_bcrypt": "bcrypt$$2b$04$abcdefghijklmnopqrstuu",
    "bcrypt_sha256": "$bcrypt-sha256$v=2,t=2b,r=4$abcdefghijklmnopqrstuu",
    "django_bcrypt_sha256": "bcrypt_sha256$$2b$04$abcdefghijklmnopqrstuu",
    "scrypt": "$scrypt$ln=1,r=1,p=1$c2FsdA$",
}


def probe_avail():
    """Which backends this host demonstrably supports - established without passlib."""
    import legacycrypt
    av = {}
    vec = {"md5_crypt": ("$1$abcdefgh$", "$1$abcdefgh$"), "sha1_crypt": ("$sha1$3$abcdefgh$", "$sha1$3$abcdefgh$"),
           "sha256_crypt": ("$5$rounds=1000$abcdefgh$", "$5$rounds=1000$abcdefgh$"),
           "sha512_crypt": ("$6$rounds=1000$abcdefgh$", "$6$rounds=1000$abcdefgh$"),
           "des_crypt": ("ab", "ab"), "bsdi_crypt": ("_1...abcd", "_1...abcd"),
           "bcrypt": ("$2b$04$abcdefghijklmnopqrstuu", "$2b$04$abcdefghijklmnopqrstuu")}
    oscrypt = {}
    for fam, (cfg, pre) in vec.items():
        try:
            h = legacycrypt.crypt("pw", cfg)
            oscrypt[fam] = bool(h) and h.startswith(pre) and len(h) > len(pre) + 5
        except Exception:
            oscrypt[fam] = False
    try:
        import bcrypt as _b
        has_bcrypt = _b.hashpw(b"x" * 72, b"$2b$04$abcdefghijklmnopqrstuu").startswith(b"$2b$04$")
    except Exception:
        has_bcrypt = False
    for fam in INHERIT:
        base = fam.replace("ldap_", "")
        av[fam] = {"builtin"} | ({"os_crypt"} if oscrypt.get(base) else set())
    for fam in SHARED:
        if fam == "scrypt":
            av[fam] = {"builtin"} | ({"stdlib"} if hasattr(hashlib, "scrypt") else set())
            try:
                import scrypt  # noqa
                av[fam].add("scrypt")
            except ImportError:
                pass
        else:
            av[fam] = {"builtin"} | ({"os_crypt"} if oscrypt.get("bcrypt") else set()) | ({"bcrypt"} if has_bcrypt else set())
    return av


def get_handler(name):
    import passlib.hash
    return getattr(passlib.hash, name)


def eff_of(cls):
    if getattr(cls, "name", "") == "scrypt":
        import passlib.crypto.scrypt as s
        return s.backend or "none"
    w = getattr(cls, "wrapped", cls)
    return getattr(w, "_BackendMixin__backend", None) or "none"


def run_behaviour(task):
    """Executed in a freshly forked child: one behaviour on the real global hasher of `fam`."""
    fam, steps = task
    warnings.simplefilter("ignore")
    from passlib import exc
    out = []
    try:
        c1 = get_handler(fam)
        c2 = c1.using()
        c3 = c2.using()
        cls = {1: c1, 2: c2, 3: c3}
        for st in steps:
            c = cls[st["c"]]
            try:
                if st["op"] == "set":
                    r = c.set_backend(st["arg"], dryrun=st["dry"])
                    res = ["ok", r]
                elif st["op"] == "has":
                    res = ["ok", c.has_backend(st["arg"])]
                elif st["op"] == "get":
                    res = ["ok", c.get_backend()]
                else:
                    h = c.genhash("pw", CONFIGS[fam])
                    res = ["ok", h]
            except exc.MissingBackendError:
                res = ["MissingBackendError"]
            except ValueError as e:
                res = ["ValueError", type(e).__name__, str(e)[:100]]
            except Exception as e:
                res = ["InternalError", type(e).__name__, str(e)[:100]]
            out.append({"res": res, "eff": [eff_of(cls[k]) for k in (1, 2, 3)]})
    except Exception as e:
        out.append({"res": ["HarnessError", type(e).__name__, str(e)[:200]], "eff": []})
    return out


def hash_sweep(task):
    """Forked child: select `backend` on family `fam` and hash all keys; returns digests."""
    fam, backend, keys = task
    warnings.simplefilter("ignore")
    out = []
    try:
        h = get_handler(fam)
        h.set_backend(backend)
        active = h.get_backend()
        for kid, secret_hex, cfg in keys:
            secret = bytes.fromhex(secret_hex)
            try:
                out.append((kid, "ok", h.genhash(secret, cfg)))
            except Exception as e:
                out.append((kid, type(e).__name__, str(e)[:100]))
        return {"active": active, "results": out}
    except Exception as e:
        return {"active": None, "error": f"{type(e).__name__}: {e}"[:300], "results": []}


SECRETS = [b"", b"a", b"password", b"\xe9\xff", b"\xff\xfe\x80", "é€😀".encode(), b"x" * 7, b"x" * 8, b"y" * 9, b"Z" * 15 + b"!",
           b"k" * 55, b"k" * 56, b"m" * 63, b"m" * 64, b"m" * 65, b"n" * 127, b"n" * 128, b"n" * 129,   # digest block/padding boundaries
           b"0123456789" * 7 + b"AB", b"0123456789" * 7 + b"ABC", b"q" * 96, b"r" * 97, bytes(range(1, 128)), b"s" * 255,
           (b"0123456789" * 26)[:255], b"t" * 256, bytes(range(1, 256)) * 2,
           # valid UTF-8 text whose multi-byte characters straddle the boundaries backends cut at (8, 72 bytes)
           ("a" * 71 + "\xe9z").encode(), ("b" * 70 + "\u20acxyz").encode(), ("c" * 7 + "\xe9" + "d" * 20).encode(), ("\u043f\u0430\u0440\u043e\u043b\u044c" * 7).encode(),
           ("e" * 69 + "\U0001F600" + "tail").encode(), ("f" * 100 + "\xe9" * 10).encode(), ("g" * 15 + "\xe9" + "h" * 112).encode()]


NUL_SECRETS = [b"stub\0stub", b"password\0", b"x" * 20 + b"\0tail", b"\0"]


def key_sweep(fam, rnd, quick):
    """(secret, config) pairs for a family; configs vary salt size/alphabet ends, rounds, idents."""
    h64 = "./0123456789ABCDEFGHIJKLMNOPQRSTUVWXYZabcdefghijklmnopqrstuvwxyz"
    base = fam.replace("ldap_", "")
    pre = "{CRYPT}" if fam.startswith("ldap_") else ""
    cfgs = []
    if base == "md5_crypt":
        cfgs = ["$1$$", "$1$a$", "$1$zzzzzzzz$", "$1$....////$", "$1$abcdefgh$"]
    elif base in ("sha256_crypt", "sha512_crypt"):
        i = "$5$" if base == "sha256_crypt" else "$6$"
        cfgs = [i + "rounds=1000$$", i + "rounds=1001$a$", i + "rounds=1041$zzzzzzzzzzzzzzzz$", i + "rounds=1042$./AZaz09$",
                i + "rounds=1043$abcdefgh$", i + "saltsalt$"] + ([] if quick else [i + "rounds=1084$abc$", i + "rounds=1999$abcd$"])
        # the implementation works in blocks of 42 rounds with a remainder loop: one configuration per remainder
        residues = [f"{i}rounds={1008 + r}${h64[r] * (r % 17)}$" for r in range(42)]
    elif base == "sha1_crypt":
        cfgs = ["$sha1$1$$", "$sha1$2$a$", "$sha1$3$abcdefgh$", "$sha1$41$" + "z" * 64 + "$", "$sha1$1000$./AZaz09$"]
    elif base == "des_crypt":
        cfgs = ["ab", "..", "zz", "/9", "Az"]
    elif base == "bsdi_crypt":
        cfgs = ["_1...abcd", "_3.......", "_5...zzzz", "_7C/.Bf/4", "_z0..A9./"]
    elif fam in ("bcrypt", "ldap_bcrypt"):
        cfgs = [f"${i}$0{c}${s}" for i, c, s in (("2b", 4, "abcdefghijklmnopqrstuu"), ("2a", 4, "." * 22), ("2y", 5, "9" * 21 + "u"),
                                                         ("2", 4, "abcdefghijklmnopqrstuu"), ("2a", 5, "zzzzzzzzzzzzzzzzzzzzzu"))]
    elif fam == "django_bcrypt":
        cfgs = ["bcrypt$$2b$04$abcdefghijklmnopqrstuu", "bcrypt$$2a$04$" + "." * 22]
    elif fam == "bcrypt_sha256":
        cfgs = ["$bcrypt-sha256$v=2,t=2b,r=4$abcdefghijklmnopqrstuu", "$bcrypt-sha256$2a,4$abcdefghijklmnopqrstuu",
                "$bcrypt-sha256$v=2,t=2b,r=5$" + "." * 22]
    elif fam == "django_bcrypt_sha256":
        cfgs = ["bcrypt_sha256$$2b$04$abcdefghijklmnopqrstuu"]
    elif fam == "scrypt":
        cfgs = ["$scrypt$ln=1,r=1,p=1$c2FsdA$", "$scrypt$ln=2,r=2,p=1$$", "$scrypt$ln=3,r=1,p=2$" + "QUJD" * 8 + "$",
                "$scrypt$ln=4,r=8,p=1$c2FsdHNhbHQ$", "$7$0/..../....c2FsdA$"]
    cfgs = [pre + c for c in cfgs]
    straddle = SECRETS[-7:]            # multi-byte characters across the cut points
    secrets = SECRETS if not quick else SECRETS[:20] + SECRETS[21:23] + straddle[2:4] + straddle[6:]
    if fam in ("bcrypt", "ldap_bcrypt", "django_bcrypt", "bcrypt_sha256", "django_bcrypt_sha256") and quick:
        secrets = SECRETS[:10] + [SECRETS[13], SECRETS[18], SECRETS[19], SECRETS[24]] + straddle[:2] + straddle[3:5]
    keys = [(f"{fam}|{CONFIGS[fam]}|first-use", b"pw".hex(), CONFIGS[fam])]
    # passwords with a NUL byte, inside and beyond the part a truncating format looks at: every backend gives the same answer
    # (the same refusal, or the same digest)
    for s in NUL_SECRETS:
        keys.append((f"{fam}|{cfgs[0]}|{s.hex()[:40]}|{len(s)}", s.hex(), cfgs[0]))
    for ci, cfg in enumerate(cfgs):
        for si, s in enumerate(secrets):
            if quick and (ci + si) % 2 and ci > 0:
                continue
            keys.append((f"{fam}|{cfg}|{s.hex()[:40]}|{len(s)}", s.hex(), cfg))
    if base in ("sha256_crypt", "sha512_crypt"):
        for r, cfg in enumerate(residues):
            for s in (SECRETS[r % len(SECRETS)], b"pw", ("p\u00e9" * (1 + r % 9)).encode()):
                keys.append((f"{fam}|{pre + cfg}|{s.hex()[:40]}|{len(s)}", s.hex(), pre + cfg))
    if fam in ("bcrypt", "ldap_bcrypt"):
        # the legacy "$2$" identifier repeats the password to 72 bytes: lengths whose 72nd byte falls inside a multi-byte character
        for cfg in (c for c in cfgs if "$2$" in c):
            cands = ["\u00e9" * 5 + "abc", "p\u00e4ssw\u00f6rd-\u20ac", "a\u00e9aa"]
            for L, ch in ((5, "\u00e9"), (7, "\u20ac"), (11, "\U0001F600"), (13, "\u00df"), (23, "\u20ac"), (35, "\U00010000"), (50, "\u00e9")):
                r = 72 % L              # the repetition is cut after r bytes of a copy: put a character across that point
                pre_n = max(0, r - 1)
                cands.append("a" * pre_n + ch + "a" * max(0, L - pre_n - len(ch.encode())))
            cands.append("\u00e9" * 35)
            cut = []
            for s in cands:
                b = s.encode()
                try:
                    (b * 72)[:72].decode()
                except UnicodeDecodeError:
                    cut.append(s)
            if len(cut) < 4:
                raise tlc.MachineryError("C03: too few passwords whose 72-byte repetition ends inside a character")
            for s in cut + cands[-1:]:
                b = s.encode()
                keys.append((f"{fam}|{cfg}|{b.hex()[:40]}|{len(b)}", b.hex(), cfg))
    return keys


def independent(fam, keys):
    """Digests from providers that are not passlib."""
    import legacycrypt
    out = []
    base = fam.replace("ldap_", "")
    pre = "{CRYPT}" if fam.startswith("ldap_") else ""
    for kid, sh, cfg in keys:
        secret = bytes.fromhex(sh)
        if b"\0" in secret:
            continue
        raw = cfg[len(pre):]
        if base in ("md5_crypt", "sha1_crypt", "sha256_crypt", "sha512_crypt", "des_crypt", "bsdi_crypt", "bcrypt"):
            try:
                s = secret.decode("utf-8")
            except UnicodeDecodeError:
                s = None
            if s is not None and "$2$" not in raw[:3]:
                try:
                    h = legacycrypt.crypt(s, raw)
                except Exception:
                    h = None
                if h and not h.startswith("*"):
                    out.append((kid, "libxcrypt", pre + h))
        if fam in ("bcrypt", "ldap_bcrypt") and not raw.startswith("$2$"):
            import bcrypt as _b
            try:
                out.append((kid, "bcrypt-C", pre + _b.hashpw(secret[:72], raw.encode()).decode()))
            except Exception:
                pass
        if fam == "scrypt" and cfg.startswith("$scrypt$"):
            import base64
            parts = cfg.split("$")
            prm = dict(x.split("=") for x in parts[2].split(","))
            salt = base64.b64decode(parts[3] + "=" * (-len(parts[3]) % 4))
            n, r, p = 1 << int(prm["ln"]), int(prm["r"]), int(prm["p"])
            dk = hashlib.scrypt(secret, salt=salt, n=n, r=r, p=p, dklen=32, maxmem=2 ** 30)
            out.append((kid, "hashlib.scrypt", cfg + base64.b64encode(dk).decode().rstrip("=")))
    return out


def run(chk):
    quick = chk.tier == "quick"
    rnd = random.Random(chk.seed)
    warnings.simplefilter("ignore")
    avail = probe_avail()
    ctx = mp.get_context("fork")
    chk.rule = ("S->I: behaviours of the selection protocol replayed step by step on the real global hashers in fresh processes "
                "(outcome + effective backend of root/child/grandchild compared after every step); I->S: digest events from every "
                "selectable backend and every independent provider checked single-valued per key by Trace_Backend. "
                "non-trivial = distinct (family, op, argument, outcome class, pre-state) steps + distinct keys with >= 2 providers")
    fams = INHERIT + SHARED
    orders = {f: list(get_handler(f).backends) for f in fams}
    chk.extra["families"] = {f: {"order": orders[f], "avail_probed": sorted(avail[f])} for f in fams}
    invs = ["AvailSelectable", "AvailReported", "OnlyAvail", "HashWorks"]
    props = ["DryRunsPure", "SetThenGet", "Frame"]
    # 1 + 2: per distinct (order, avail, discipline) configuration: model check, then simulate behaviours
    configs = {}
    for f in fams:
        disc = "inherit" if f in INHERIT else "shared"
        configs.setdefault((tuple(orders[f]), tuple(sorted(avail[f])), disc, f == "scrypt"), []).append(f)
    tasks, expect = [], []
    for (order, av, disc, preloaded), members in configs.items():
        consts = dict(Order=list(order), Avail=tlc.Raw(tlc.tla_val(set(av))) if av else tlc.Raw("{}"), Discipline=disc,
                      MaxSteps=4 if quick else 5, DoEmit=False)
        r = tlc.run_instance("MC_Backend", consts, name="C03_mc", invariants=invs, properties=props, action_constraint="Emit",
                             view="View", init="InitLoaded" if preloaded else "Init")
        chk.add_tlc(f"MC_Backend {disc} order={order} avail={av}", r)
        nb = (6 if quick else 40) * len(members) if disc == "shared" else (25 if quick else 200) * len(members)
        consts.update(DoEmit=True, MaxSteps=7)
        r = tlc.run_instance("MC_Backend", consts, name="C03_sim", invariants=invs, action_constraint="Emit", next="SimNext",
                             init="InitLoaded" if preloaded else "Init",
                             simulate=f"num={nb}", depth=7, seed=chk.seed + len(tasks) + 1, workers=1, coverage=False)
        chk.add_tlc(f"MC_Backend simulation {disc} order={order}", r)
        behs, cur = [], None
        for e in r.emits:
            if e["n"] == 0:
                cur = []
                behs.append(cur)
            cur.append(e)
        for bi, b in enumerate(behs):
            fam = members[bi % len(members)]
            tasks.append((fam, [{k: s[k] for k in ("op", "c", "arg", "dry")} for s in b]))
            expect.append((fam, b, preloaded))
    with ctx.Pool(16, maxtasksperchild=1) as pool:
        results = pool.map(run_behaviour, tasks, chunksize=1)
    lazy_events = []
    for (fam, beh, preloaded), got in zip(expect, results):
        chk.traces += 1
        pre = ["none"] * 3
        for k, (st, g) in enumerate(zip(beh, got + [None] * (len(beh) - len(got)))):
            if g is None:
                chk.violation(f"{fam}:protocol:aborted", "behaviour aborted", {"family": fam, "behaviour": beh, "got": got})
                break
            exp = st["res"]
            gr = g["res"]
            ok = gr[0] == exp[0]
            if ok and exp[0] == "ok":
                if st["op"] == "set":
                    ok = gr[1] in (exp[1], None) if fam == "scrypt" else gr[1] == exp[1]
                elif st["op"] in ("has", "get"):
                    ok = gr[1] == exp[1]
                else:
                    ok = isinstance(gr[1], str) and gr[1].startswith(CONFIGS[fam][:len(CONFIGS[fam]) - 1])
                    # the digest produced through the lazy first-use path joins the digest events below
                    lazy_events.append({"key": f"{fam}|{CONFIGS[fam]}|first-use", "provider": f"passlib:{fam}:behaviour-step{k}:{g['eff'][0]}",
                                        "digest": gr[1], "family": fam})
            eff_ok = list(g["eff"]) == list(st["eff"]) or fam == "scrypt" and g["eff"][0] == st["eff"][0]
            chk.count((fam, st["op"], st["arg"], st["dry"], exp[0], tuple(pre), st["c"]))
            chk.action(f"{st['op']}->{exp[0]}")
            if not ok or not eff_ok:
                kind = "result" if not ok else "state"
                chk.violation(f"{fam}:{st['op']}:{st['arg'] if st['op'] != 'hash' else ''}:{gr[0]}:{kind}",
                              f"{fam}.{st['op']}({st['arg']}) after {k} steps: spec says {exp} with backends {st['eff']}, "
                              f"code gave {gr[:2]} with {g['eff']}",
                              {"family": fam, "behaviour": beh[:k + 1], "step": k, "expected": st, "got": g,
                               "order": orders[fam], "avail_probed": sorted(avail[fam])})
                break
            pre = st["eff"]
    chk.sample({"replayed_behaviour": {"family": expect[0][0], "steps": expect[0][1][:4]}})
    # 3. digests: all backends x independent providers
    evs = []
    sweeps = []
    secret_of = {}
    for f in fams:
        keys = key_sweep(f, rnd, quick)
        secret_of.update({k[0]: k[1] for k in keys})
        heavy = []
        if f == "scrypt":
            # legal costs around the memory sizes at which the C providers start to ask for an explicit limit (16, 32, 64 MiB): only for
            # the compiled backends (the pure-Python one would take minutes), against hashlib.scrypt with a generous limit
            heavy = [(f"{f}|{c}|7077|2", b"pw".hex(), c) for c in ("$scrypt$ln=14,r=8,p=1$c2FsdA$", "$scrypt$ln=15,r=8,p=1$c2FsdA$", "$scrypt$ln=16,r=4,p=1$c2FsdA$",
                                                                  "$scrypt$ln=14,r=16,p=2$c2FsdA$", "$scrypt$ln=13,r=32,p=1$c2FsdA$", "$scrypt$ln=16,r=8,p=1$c2FsdA$",
                                                                  "$scrypt$ln=15,r=8,p=3$c2FsdA$")]
        for b in orders[f]:
            if b in avail[f]:
                sweeps.append((f, b, keys + (heavy if b != "builtin" else [])))
        for kid, prov, dig in independent(f, keys + heavy):
            evs.append({"key": kid, "provider": prov, "digest": dig, "family": f})
    with ctx.Pool(16, maxtasksperchild=1) as pool:
        outs = pool.map(hash_sweep, sweeps, chunksize=1)
    for (f, b, keys), o in zip(sweeps, outs):
        if o["active"] != b:
            chk.violation(f"{f}:select:{b}", f"backend {b!r} is supported by the host (probed independently) but cannot be selected: {o.get('error')}",
                          {"family": f, "backend": b, "error": o.get("error"), "active": o["active"]})
            continue
        for kid, status, val in o["results"]:
            chk.action("digest")
            if status == "ok":
                evs.append({"key": kid, "provider": f"passlib:{b}", "digest": val, "family": f})
            elif any(("|" + x.hex()[:40] + "|") in kid for x in NUL_SECRETS) and status in ("NullPasswordError", "PasswordValueError", "ValueError"):
                evs.append({"key": kid, "provider": f"passlib:{b}", "digest": "(refused: NUL in the password)", "family": f})
            else:
                secret_len = int(kid.rsplit("|", 1)[1])
                sh = secret_of.get(kid)
                try:
                    bytes.fromhex(sh or "").decode("utf-8")
                    cls = "utf8" if sh is not None else "unknown"
                except UnicodeDecodeError:
                    cls = "not-utf8"
                # (the class of the password is part of the key: a refusal of well-formed text is another matter than the
                # recorded refusal of bytes that are not UTF-8)
                chk.violation(f"{f}:{b}:hash-error:{status}:{cls}", f"{f} with backend {b} failed to hash a {secret_len}-byte password ({cls}): {status} {val}",
                              {"family": f, "backend": b, "key": kid, "secret_hex": sh, "error": [status, val]})
    evs += lazy_events
    evs.sort(key=lambda e: (e["key"], not e["provider"].startswith("passlib"), "behaviour-step" in e["provider"]))
    wd = tlc.WORK / "C03_trace_in"
    wd.mkdir(parents=True, exist_ok=True)
    (wd / "events.json").write_text(json.dumps(evs))
    r = tlc.run("Trace_Backend", "INIT Init\nNEXT Next\n", name="C03_trace", workers=1, env={"TRACE_FILE": str(wd / "events.json")},
                coverage=False, timeout=3000)
    chk.add_tlc("Trace_Backend over digest events", r)
    if r.distinct != len(evs) + 1:
        raise tlc.MachineryError("digest trace not fully consumed")
    byk = {}
    for e in evs:
        byk.setdefault(e["key"], set()).add(e["provider"])
    for k, ps in byk.items():
        if len(ps) >= 2:
            chk.count(("digest", k))
    chk.evaluations += len(evs)
    chk.traces += len(byk)
    chk.sample({"digest_events_for_one_key": [e for e in evs if e["key"] == evs[len(evs) // 2]["key"]]})
    for b in r.emits:
        e = evs[b["ev"] - 1]
        chk.violation(f"{e['family']}:digest:{b['provider']}!={b['boundby']}",
                      f"{e['family']}: {b['provider']} and {b['boundby']} disagree on the digest of the same password/settings",
                      {"key": b["key"], "digest": b["digest"], "provider": b["provider"], "other_digest": b["bound"], "other": b["boundby"]})
    chk.extra["digest_events"] = len(evs)
    chk.extra["keys_with_2plus_providers"] = sum(1 for ps in byk.values() if len(ps) >= 2)
    from . import x_utf8cut
    x_utf8cut.run(chk, quick, rnd)
    chk.assumptions += ["libxcrypt (legacycrypt), the bcrypt C library and hashlib.scrypt are the independent providers",
                        "availability of a backend is what the independent probe says (known-vector hash via the provider itself)"]


def replay(chk, path):
    v = json.loads(open(path).read())
    d = v["detail"]
    if "behaviour" in d:
        ctx = mp.get_context("fork")
        with ctx.Pool(1) as pool:
            got = pool.map(run_behaviour, [(d["family"], [{k: s[k] for k in ("op", "c", "arg", "dry")} for s in d["behaviour"]])])[0]
        for s, g in zip(d["behaviour"], got):
            print(s["op"], s["c"], s["arg"], "spec:", s["res"], s["eff"], "code:", g["res"][:2], g["eff"])
        return 1
    print(json.dumps(d, indent=1))
    return 1
