"""C12 - binary-to-text encodings are exact inverses and match their alphabets.

spec/Codec.tla (+ MC_Codec, MC_B32, Trace_Codec).
 1. TLC model-checks the codec laws exhaustively (A == D, inverses, repair, ints).
 2. S->I: every transition TLC explored in the emitting instance is replayed on the real
    encoders (passlib.utils.binary engines, fresh Base64Engine objects, b64s/ab64 helpers,
    libpass copies).
 3. I->S: events recorded from the real encoders on random inputs of every length 0..200,
    transposition tables taken from the hashers, base32 and 30/64-bit integers are
    re-computed by the spec (Trace_Codec).
"""
from __future__ import annotations

import base64
import json
import random

from .. import tlc
from ..common import VERIF

INVS = ["InvArithEqualsDef", "InvAlphabetAndLength", "InvRoundTrip", "InvRepairCanonical", "InvChop",
        "InvStdBase64", "InvAb64Translates", "InvBadRejected", "InvIntRoundTrip", "InvIntShape"]


def cfg(maxlen, bytevals, engs, intjobs, emit):
    lines = ["INIT Init", "NEXT Next", "CONSTANTS",
             f"  MaxLen = {maxlen}", f"  ByteVals = {tlc.tla_val(set(bytevals))}",
             f"  EngNames = {tlc.tla_val(set(engs))}", f"  IntJobs = {tlc.tla_val(set(intjobs))}",
             "  BadChars = {33, 32, 255}",
             f"  DoEmit = {'TRUE' if emit else 'FALSE'}"]
    lines += [f"INVARIANT {i}" for i in INVS]
    lines += ["ACTION_CONSTRAINT Emit"]
    return "\n".join(lines) + "\n"


def outcome(fn, *a):
    try:
        return ("ok", fn(*a))
    except ValueError as e:
        return ("ValueError", type(e).__name__)
    except TypeError as e:
        return ("TypeError", type(e).__name__)
    except Exception as e:  # internal error
        return ("InternalError", type(e).__name__)


class Targets:
    """The real implementations bound to each engine name of the spec."""

    def __init__(self):
        from passlib.utils import binary as pb
        import passlib.utils as pu
        from libpass._utils import binary as lb
        from libpass._utils import deprecated as ld
        self.pb, self.lb, self.ld = pb, lb, ld
        eng = {}
        eng["h64"] = [("passlib.utils.binary.h64", pb.h64), ("Base64Engine(HASH64)", pb.Base64Engine(pb.HASH64_CHARS)),
                      ("passlib.utils.h64", pu.h64)]
        eng["h64big"] = [("passlib.utils.binary.h64big", pb.h64big),
                         ("Base64Engine(HASH64,big)", pb.Base64Engine(pb.HASH64_CHARS, big=True))]
        eng["bcrypt64"] = [("passlib.utils.binary.bcrypt64", pb.bcrypt64),
                           ("Base64Engine(BCRYPT,big)", pb.Base64Engine(pb.BCRYPT_CHARS, big=True))]
        # a full engine over the base64 / ab64 alphabets as well (same class, other charmap)
        eng["b64s"] = [("Base64Engine(BASE64,big)", pb.Base64Engine(pb.BASE64_CHARS, big=True))]
        eng["ab64"] = [("Base64Engine(AB64,big)", pb.Base64Engine(pb.AB64_CHARS, big=True))]
        self.engines = eng
        self.enc_only = {"h64": [("libpass._utils.binary.h64_engine", lb.h64_engine)]}
        self.helpers = {
            "b64s": [("passlib b64s", pb.b64s_encode, pb.b64s_decode), ("libpass b64s", ld.b64s_encode, ld.b64s_decode)],
            "ab64": [("passlib ab64", pb.ab64_encode, pb.ab64_decode), ("libpass ab64", ld.ab64_encode, ld.ab64_decode)],
        }


def bits_to_int(vb):
    return sum(b << i for i, b in enumerate(vb))


def int_to_bits(v, n):
    return [(v >> i) & 1 for i in range(n)]


def replay_emit(chk, T: Targets, ev):
    """Execute one spec transition on every real implementation of that engine."""
    op, e = ev["op"], ev["eng"]
    data = ev["data"]
    text = bytes(ev["text"])
    tin = bytes(ev["tin"])
    back = ev["back"]
    exp_back = ("ok", bytes(back[1])) if back and back[0] == "ok" else (back[0] if back else None,)

    def bad(target, call, expected, got, key):
        chk.violation(key, f"{target}.{call} disagrees with Codec.tla",
                      {"engine": e, "op": op, "input": ev, "expected": expected, "got": got, "target": target})

    nontriv = (op, e, len(data), len(text) % 4)
    if op == "enc":
        d = bytes(data)
        for name, eng in T.engines[e] + T.enc_only.get(e, []):
            got = outcome(eng.encode_bytes, d)
            chk.count(nontriv)
            if got != ("ok", text):
                bad(name, "encode_bytes", text, got, f"{e}:encode_bytes")
        for name, enc, _ in T.helpers.get(e, []):
            got = outcome(enc, d)
            chk.count(nontriv)
            if got != ("ok", text):
                bad(name, "encode", text, got, f"{e}:helper-encode")
        if e == "b64s":  # independent provider for the spec's own StdB64 definition
            std = base64.b64encode(d).rstrip(b"=")
            chk.count()
            if std != text:
                raise tlc.MachineryError(f"Codec.tla b64s differs from stdlib base64 on {d!r}")
    elif op in ("dec", "ddec", "chop", "bad"):
        plus = e == "ab64" and 43 in text     # '+' for '.' is a feature of the ab64 helper only
        for name, eng in ([] if plus else T.engines[e]):
            got = outcome(eng.decode_bytes, text)
            chk.count(nontriv)
            if got[0] == "ok":
                ok = got == exp_back
            else:
                ok = got[0] == exp_back[0]
            if not ok:
                bad(name, "decode_bytes", exp_back, got, f"{e}:decode_bytes:{op}")
        for name, _, dec in T.helpers.get(e, []):
            forms = [text]
            if all(c < 128 for c in text):
                forms.append(text.decode("ascii"))
            for f in forms:
                got = outcome(dec, f)
                chk.count(nontriv)
                if got[0] == "ok":
                    ok = got == exp_back
                else:
                    ok = got[0] == exp_back[0]
                if not ok:
                    if op == "bad" and got[0] == "TypeError":
                        key = f"{e}:helper-decode:invalid-char:TypeError"
                    else:
                        key = f"{e}:helper-decode:{op}"
                    bad(name, "decode", exp_back, got, key)
    elif op == "dirty":
        # tin = canonical text, text = same with unused bits set
        for name, eng in T.engines[e]:
            for conv in (bytes, lambda b: b.decode("latin-1")):
                got = outcome(eng.check_repair_unused, conv(text))
                chk.count(nontriv)
                if got != ("ok", (True, conv(tin))):
                    bad(name, "check_repair_unused(dirty)", (True, tin), got, f"{e}:repair")
                got = outcome(eng.check_repair_unused, conv(tin))
                chk.count(nontriv)
                if got != ("ok", (False, conv(tin))):
                    bad(name, "check_repair_unused(clean)", (False, tin), got, f"{e}:repair-clean")
    elif op == "repaired":
        for name, eng in T.engines[e]:
            got = outcome(eng.repair_unused, tin)
            chk.count(nontriv)
            if got != ("ok", text):
                bad(name, "repair_unused", text, got, f"{e}:repair")
    elif op == "intenc":
        n = len(data)
        v = bits_to_int(data)
        for name, eng in T.engines[e]:
            got = outcome(getattr(eng, f"encode_int{n}"), v)
            chk.count(("intenc", e, n, v % 64, v >> (n - 6) if n > 6 else 0))
            if got != ("ok", text):
                bad(name, f"encode_int{n}", text, got, f"{e}:encode_int{n}")
            # out of range values are refused
            for oob in (-1, 1 << n, -2, -(1 << n), -(1 << n) + 1, -(1 << n) - 1, (1 << n) + 1, 1 << (n + 1), -(1 << (n - 1))):
                got = outcome(getattr(eng, f"encode_int{n}"), oob)
                chk.count()
                if got[0] != "ValueError":
                    bad(name, f"encode_int{n}(out of range)", "ValueError", got, f"{e}:encode_int{n}:range")
    elif op == "intdec":
        n = len(data)
        v = bits_to_int(data)
        for name, eng in T.engines[e]:
            got = outcome(getattr(eng, f"decode_int{n}"), tin)
            chk.count(("intdec", e, n, v % 64))
            if got != ("ok", v):
                bad(name, f"decode_int{n}", v, got, f"{e}:decode_int{n}")
            for wrong in (tin[:-1], tin + tin[:1], tin[:-1] + b"!"):
                got = outcome(getattr(eng, f"decode_int{n}"), wrong)
                chk.count()
                if got[0] != "ValueError":
                    bad(name, f"decode_int{n}(malformed)", "ValueError", got, f"{e}:decode_int{n}:malformed")
    else:
        raise tlc.MachineryError(f"unknown emitted op {op}")
    chk.action("Codec." + op)


def replay_b32(chk, T, ev):
    pb = T.pb
    op = ev["op"]
    if op == "enc":
        got = outcome(pb.b32encode, bytes(ev["data"]))
        chk.count(("b32enc", len(ev["data"])))
        exp = bytes(ev["text"]).decode()
        if got != ("ok", exp):
            chk.violation("b32encode", "b32encode disagrees with Codec.tla", {"ev": ev, "got": got})
    elif op in ("dec", "bad"):
        text = bytes(ev["tin"] if op == "dec" else ev["text"])
        back = ev["back"]
        for form in (text, text.decode("latin-1")):
            got = outcome(pb.b32decode, form)
            chk.count(("b32dec", op, len(text) % 8))
            ok = (got == ("ok", bytes(back[1]))) if back[0] == "ok" else got[0] == back[0]
            if not ok:
                chk.violation(f"b32decode:{op}", "b32decode disagrees with Codec.tla", {"ev": ev, "got": got, "form": repr(form)})
    chk.action("B32." + op)


def record_events(T: Targets, rnd: random.Random, per_len: int, maxlen: int):
    """I->S: run the real code on random inputs and record what it answered."""
    from passlib.handlers import md5_crypt, sha2_crypt, sha1_crypt, sun_md5_crypt
    from libpass.hashers import sha_crypt as lsc
    evs = []

    def rec(op, eng, data, res, **kw):
        r = ["ok", list(res[1])] if res[0] == "ok" and isinstance(res[1], (bytes, bytearray)) else \
            (["ok", res[1]] if res[0] == "ok" else [res[0]])
        ev = {"id": len(evs), "op": op, "eng": eng, "data": list(data), "res": r}
        ev.update(kw)
        evs.append(ev)

    for n in range(0, maxlen + 1):
        for _ in range(per_len):
            d = bytes(rnd.randrange(256) for _ in range(n))
            for e in ("h64", "h64big", "bcrypt64"):
                eng = T.engines[e][0][1]
                r = outcome(eng.encode_bytes, d)
                rec("encode", e, d, r)
                if r[0] == "ok":
                    rec("decode", e, r[1], outcome(eng.decode_bytes, r[1]))
            for e in ("b64s", "ab64"):
                _, enc, dec = T.helpers[e][rnd.randrange(2)]
                r = outcome(enc, d)
                rec("encode", e, d, r)
                if r[0] == "ok":
                    rec("decode", e, r[1], outcome(dec, r[1]))
            rec("stdb64", "b64s", d, ("ok", base64.b64encode(d)))
            if n <= 64:
                r = outcome(T.pb.b32encode, d)
                rec("b32enc", "b32", d, ("ok", r[1].encode()) if r[0] == "ok" else r)
                if r[0] == "ok":
                    t = r[1].lower() if rnd.random() < .5 else r[1]
                    t = t.replace("B", "8") if rnd.random() < .5 else t.replace("O", "0")
                    rec("b32dec", "b32", t.encode(), outcome(T.pb.b32decode, t))
    # transposition with the offset tables the hashes use (taken from the code)
    def G(owner, *path):
        for a in path:
            owner = getattr(owner, a, None)
        return owner
    tables = [("md5_crypt", G(md5_crypt, "_transpose_map")), ("sha256_crypt", G(sha2_crypt, "_256_transpose_map")),
              ("sha512_crypt", G(sha2_crypt, "_512_transpose_map")), ("sha1_crypt", G(sha1_crypt, "sha1_crypt", "_chk_offsets")),
              ("sun_md5_crypt", G(sun_md5_crypt, "_chk_offsets")),
              ("libpass sha256", G(lsc, "_256_transpose_map")), ("libpass sha512", G(lsc, "_512_transpose_map"))]
    # projections of other sizes than the hashes use: none, one, two offsets; repeated offsets
    tables += [("projection-0", []), ("projection-1", [0]), ("projection-1b", [5]), ("projection-2", [1, 0]), ("projection-rep", [2, 2, 0, 1])]
    for tname, offs in tables:
        if offs is None:        # (an internal table that was renamed away: nothing to transpose with)
            chk.uncovered.append(f"transposition table of {tname} not found under its usual name")
            continue
        offs = list(offs)
        size = max(offs) + 1 if offs else 3
        eng = T.lb.h64_engine if tname.startswith("libpass") else T.pb.h64
        for k in range(max(2, per_len)):
            d = bytes(rnd.randrange(256) for _ in range(size))
            r = outcome(eng.encode_transposed_bytes, d, offs)
            rec("enctr", "h64", d, r, offs=offs, table=tname)
            if r[0] == "ok" and sorted(offs) == list(range(len(offs))) and not tname.startswith("libpass"):
                rec("dectr", "h64", r[1], outcome(T.pb.h64.decode_transposed_bytes, r[1], offs), offs=offs, table=tname)
    # 30/64-bit integers
    for e in ("h64", "h64big", "bcrypt64"):
        eng = T.engines[e][0][1]
        for n in (6, 12, 24, 30, 64):
            for _ in range(max(4, per_len * 4)):
                v = rnd.getrandbits(n)
                r = outcome(getattr(eng, f"encode_int{n}"), v)
                rec("encint", e, int_to_bits(v, n), r)
                if r[0] == "ok":
                    r2 = outcome(getattr(eng, f"decode_int{n}"), r[1])
                    evs.append({"id": len(evs), "op": "decint", "eng": e, "data": list(r[1]), "bits": n,
                                "res": ["ok", int_to_bits(r2[1], n)] if r2[0] == "ok" else [r2[0]]})
    return evs


def run(chk):
    quick = chk.tier == "quick"
    rnd = random.Random(chk.seed)
    T = Targets()
    chk.rule = ("S->I: every transition explored by TLC in the emitting instances of MC_Codec/MC_B32 is executed on each real "
                "implementation of that engine; I->S: events from the real code on random inputs re-computed by Trace_Codec. "
                "non-trivial = distinct (op, engine, input length, tail class[, low/high digit]) combinations")
    engs = ["h64", "h64big", "bcrypt64", "b64s", "ab64"]
    # 1. exhaustive model check, no emission
    if quick:
        r = tlc.run("MC_Codec", cfg(2, range(0, 256, 1) if False else list(range(0, 256, 5)) + [255, 254, 127, 128, 63, 64],
                                    engs, [6, 12, 24, 30, 64], False), name="C12_mc")
    else:
        r = tlc.run("MC_Codec", cfg(2, range(256), engs, [6, 12, 24, 30, 64], False), name="C12_mc", timeout=3000)
    chk.add_tlc("MC_Codec exhaustive (no emission)", r)
    for a in ("EncodeA", "CorruptA", "RepairA", "DecodeA", "ChopDecodeA", "BadCharA", "PlusA", "EncIntA", "DecIntA"):
        if r.coverage.get(a, (0, 0))[1] == 0:
            raise tlc.MachineryError(f"vacuity: action {a} never taken in MC_Codec")
    # 2. emitting instances + replay
    vals3 = [0, 1, 0x3F, 0x40, 0x80, 0xFF] if quick else [0, 1, 2, 0x3E, 0x3F, 0x40, 0x7F, 0x80, 0xAA, 0xFE, 0xFF]
    runs = [("all single bytes", cfg(1, range(256), engs, [6, 12], True)),
            ("3-byte groups over boundary values", cfg(3 if quick else 4, vals3, engs, [24, 30, 64], True))]
    nemit = 0
    for label, c in runs:
        r = tlc.run("MC_Codec", c, name="C12_emit", workers=1, coverage=False)
        chk.add_tlc(f"MC_Codec emitting: {label}", r)
        for ev in r.emits:
            replay_emit(chk, T, ev)
            nemit += 1
            if nemit % 4001 == 1:
                chk.sample({"spec_transition": ev})
    c32 = "INIT Init\nNEXT Next\nCONSTANTS\n  MaxLen = %d\n  ByteVals = %s\n  DoEmit = TRUE\n" \
          "INVARIANT InvRoundTrip\nINVARIANT InvAlphabet\nINVARIANT InvBad\nACTION_CONSTRAINT Emit\n"
    r = tlc.run("MC_B32", c32 % (5 if quick else 6, tlc.tla_val({0, 0x0F, 0x71, 0xFF} if quick else {0, 8, 0x0F, 0x71, 0xFF})),
                name="C12_b32", workers=1, coverage=False)
    chk.add_tlc("MC_B32 emitting", r)
    for k, ev in enumerate(r.emits):
        replay_b32(chk, T, ev)
        if k == 7:
            chk.sample({"b32_transition": ev})
    chk.traces += nemit + len(r.emits)
    # 3. I->S trace validation
    evs = record_events(T, rnd, 1 if quick else 12, 200)
    wd = tlc.WORK / "C12_trace_in"
    wd.mkdir(parents=True, exist_ok=True)
    tf = wd / "events.json"
    tf.write_text(json.dumps(evs))
    r = tlc.run("Trace_Codec", "INIT Init\nNEXT Next\nPOSTCONDITION Done\n", name="C12_trace", workers=1,
                env={"TRACE_FILE": str(tf)}, coverage=False, timeout=3000)
    chk.add_tlc("Trace_Codec over recorded events", r)
    chk.traces += len(evs)
    chk.sample({"recorded_event": evs[len(evs) // 2]})
    for b in r.emits:
        ev = evs[b["bad"] - 1]
        key = f"trace:{ev['op']}:{ev['eng']}"
        if ev["op"] == "stdb64":
            raise tlc.MachineryError(f"Codec.tla StdB64 differs from stdlib: {ev}")
        chk.violation(key, "recorded call of the real encoder is not what Codec.tla computes",
                      {"event": ev, "expected": b["expected"], "got": b["got"]})
    for ev in evs:
        chk.count(("trace", ev["op"], ev["eng"], min(len(ev["data"]), 12), len(ev["data"]) % 3))
        chk.action("trace." + ev["op"])
    chk.assumptions += ["Python's base64 module (used only to cross-check the spec's own StdB64 definition)",
                        "TLC evaluates Codec.tla correctly"]
    chk.extra["emitted_transitions_replayed"] = nemit
    chk.extra["recorded_events_validated"] = len(evs)


def replay(chk, path):
    v = json.loads(open(path).read())
    d = v["detail"]
    T = Targets()
    if "input" in d:
        replay_emit(chk, T, d["input"])
    elif "ev" in d:
        replay_b32(chk, T, d["ev"])
    else:
        print("replay: trace-validation mismatch; event:", json.dumps(d.get("event")))
        print("expected:", d.get("expected"), "got:", d.get("got"))
        return 1
    return chk.finish()
