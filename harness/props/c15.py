"""C15 - a TOTP configuration survives every serialisation.

spec/TotpSerial.tla + MC_TotpSerial.tla.
 1. TLC: for every object, every class default set and every format, loading what was written gives the same
    configuration (absent fields mean the FORMAT's defaults, not the class's); every corrupted source is refused.
 2. S->I: every (object, class defaults, format, corruption) case TLC enumerated is executed on real classes made by
    TOTP.using(**defaults): to_uri / to_dict / to_json, textual corruption of the real source, from_source; the six
    fields and the tokens at three times are compared; URIs are also read by an independent urllib.parse reader
    (hostile label / issuer characters must survive quoting).
"""
from __future__ import annotations

import base64
import json
import random
import urllib.parse as up
import warnings

from .. import tlc

INVS = ["InvRoundTrip", "InvRefused", "InvLabelNeeded"]
KEYS = {"k1": "S3JDVB7QD2R7JPXX", "k2": "GEZDGNBVGY3TQOJQGEZDGNBVGY3TQOJQ"}
LABELS = {"l1": ["alice@example.org", "bob"], "l2": ["a b/c%d&e=f+g#h?i \xe9€@x", "50%/off&more=less", "sp ace", "/alice", "//a/", "%41lice", "+a+", "?x#y"]}
ISSUERS = {"i1": ["Example Corp", "acme"], "i2": ["is\xdf/ue%r&x=y+z", "a&b=c d", "/Acme", "%2Facme/", "?who#"]}
OTHER_KEY = "JBSWY3DPEHPK3PXPJBSWY3DPEHPK3PXP"
TIMES = [59, 1111111109, 20000000000]
CORR = ["none", "no-type", "bad-type", "fragment-type", "no-version", "future-version", "old-version", "not-an-object", "no-key", "bad-scheme", "no-label", "issuer-conflict",
        "dup-secret", "dup-issuer", "dup-digits", "dup-period", "dup-algorithm"]
DUP = {"dup-secret": "secret", "dup-issuer": "issuer", "dup-digits": "digits", "dup-period": "period", "dup-algorithm": "algorithm"}


def fields(t):
    return dict(key=t.base32_key, alg=t.alg, digits=t.digits, period=t.period, label=t.label, issuer=t.issuer)


def corrupt_uri(uri, cor, obj):
    if cor == "none":
        return uri
    if cor == "bad-scheme":
        return uri.replace("otpauth://", "http://", 1)
    if cor == "bad-type":
        return uri.replace("otpauth://totp/", "otpauth://xotp/", 1)
    if cor == "fragment-type":
        return uri.replace("otpauth://totp/", "otpauth://" + random.choice(["otp", "tot", "t", "to", "tp", ""]) + "/", 1)
    head, q = uri.split("?", 1)
    if cor == "no-label":
        return "otpauth://totp/?" + q
    if cor == "no-key":
        return head + "?" + "&".join(p for p in q.split("&") if not p.startswith("secret="))
    if cor in DUP:
        nm = DUP[cor]
        have = [p for p in q.split("&") if p.startswith(nm + "=")]
        dflt = {"digits": "6", "period": "30", "algorithm": "SHA1", "issuer": "dup-value"}
        return uri + ("&" + have[0] if have else f"&{nm}={dflt[nm]}&{nm}={dflt[nm]}")
    if cor == "issuer-conflict":
        path = head[len("otpauth://totp/"):]
        label = path.split(":", 1)[1] if ":" in path else path
        q2 = "&".join(p for p in q.split("&") if not p.startswith("issuer="))
        return "otpauth://totp/other-issuer:" + label + "?" + q2 + "&issuer=iss-x"
    raise tlc.MachineryError(cor)


def corrupt_dict(d, cor):
    d = dict(d)
    if cor == "no-type":
        d.pop("type")
    elif cor == "bad-type":
        d["type"] = "xotp"
    elif cor == "fragment-type":
        d["type"] = random.choice(["otp", "tot", "t", "", "to"])
    elif cor == "no-version":
        d.pop("v")
    elif cor == "future-version":
        d["v"] = random.choice([99, 2])
    elif cor == "old-version":
        d["v"] = random.choice([-1, 0, -7])
    elif cor == "no-key":
        d.pop("key", None)
        d.pop("enckey", None)
    return d


def run(chk):
    warnings.simplefilter("ignore")
    quick = chk.tier == "quick"
    rnd = random.Random(chk.seed)
    from passlib.totp import TOTP
    chk.rule = ("one case = one (object, class defaults, format, corruption) tuple enumerated by TLC, executed on real classes; "
                "non-trivial = distinct (format, corruption, which fields differ from the format defaults, which class defaults differ, label/issuer class)")
    consts = dict(Keys={"k1"}, Algs={"sha1", "sha256"} if quick else {"sha1", "sha256", "sha512"}, Digits={"6", "8"}, Periods={"30", "60"},
                  Labels={"l1", "l2"}, Issuers={"i1", "i2"}, Corruptions=set(CORR), Hists={"fresh", "rekeyed"}, DoEmit=True)
    r = tlc.run_instance("MC_TotpSerial", consts, name="C15_mc", invariants=INVS, action_constraint="Emit", workers=1, coverage=False, timeout=1800)
    chk.add_tlc("MC_TotpSerial exhaustive (every object x class defaults x format x corruption)", r)
    cases = r.emits
    if quick and len(cases) > 9000:
        cases = rnd.sample(cases, 9000)
    classes = {}
    for e in cases:
        o, D, fmt, cor, res = e["o"], e["D"], e["fmt"], e["cor"], e["res"]
        d8 = rnd.choice([7, 8, 9, 10, 10])          # the model's non-default digit count stands for every other admissible one
        DG = {"6": 6, "8": d8}
        dk = json.dumps([D, d8], sort_keys=True)
        if dk not in classes:
            kw = dict(alg=D["alg"], digits=DG[D["digits"]], period=int(D["period"]))
            if D["issuer"] != "none":
                kw["issuer"] = ISSUERS[D["issuer"]][0]
            classes[dk] = TOTP.using(**kw)
        cls = classes[dk]
        v = rnd.randrange(2)
        label = None if o["label"] == "none" else rnd.choice(LABELS[o["label"]])
        issuer = None if o["issuer"] == "none" else ISSUERS[o["issuer"]][0 if o["issuer"] == D["issuer"] else rnd.randrange(len(ISSUERS[o["issuer"]]))]
        if o["issuer"] != "none" and o["issuer"] == D["issuer"]:
            issuer = ISSUERS[o["issuer"]][0]
        elif o["issuer"] != "none" and D["issuer"] != "none" and ISSUERS[o["issuer"]][0] == ISSUERS[D["issuer"]][0]:
            issuer = ISSUERS[o["issuer"]][1]
        if e["hist"] == "rekeyed":
            # made with another key, exported in every form, then given its key: only the current state may be written
            obj = cls(key=OTHER_KEY, alg=o["alg"], digits=DG[o["digits"]], period=int(o["period"]), label=label, issuer=issuer)
            obj.to_dict(), obj.to_json(), obj.pretty_key(), obj.hex_key, obj.generate(TIMES[0])
            if label:
                obj.to_uri()
            obj.key = base64.b32decode(KEYS[o["key"]])
        else:
            obj = cls(key=KEYS[o["key"]], alg=o["alg"], digits=DG[o["digits"]], period=int(o["period"]), label=label, issuer=issuer)
        want = fields(obj)
        detail = {"object": want, "class_defaults": D, "format": fmt, "corruption": cor, "history": e["hist"]}
        if want["key"] != KEYS[o["key"]]:
            chk.violation("rekey:base32_key-stale", f"after assigning a new key the object reports key {want['key']}", detail)
            continue
        key = (fmt, cor, e["hist"], o["alg"] != "sha1", o["digits"] != "6", o["period"] != "30", D["alg"] != "sha1", D["digits"] != "6", D["period"] != "30",
               o["label"], o["issuer"], D["issuer"])
        chk.count(key)
        chk.action(f"{fmt}:{cor}")
        try:
            if fmt == "uri":
                try:
                    src = obj.to_uri()
                except ValueError:
                    if res == ["ValueError-on-write"]:
                        continue
                    chk.violation("to_uri:refused", "to_uri() refused an object with a label", detail)
                    continue
                if res == ["ValueError-on-write"]:
                    chk.violation("to_uri:no-label-accepted", "to_uri() accepted an object without a label", detail)
                    continue
                # independent reader: quoting must carry label and issuer through
                pr = up.urlparse(src)
                path = up.unquote(pr.path[1:])
                q = dict(up.parse_qsl(pr.query))
                exp_path = (issuer + ":" if issuer else "") + label
                if path != exp_path or q.get("issuer") != issuer or q.get("secret") != obj.base32_key \
                        or ("digits" in q) != (obj.digits != 6) or ("period" in q) != (obj.period != 30) or ("algorithm" in q) != (obj.alg != "sha1"):
                    chk.violation("to_uri:independent-reader", f"urllib reads the URI as path={path!r} query={q}", dict(detail, uri=src))
                    continue
                src = corrupt_uri(src, cor, obj)
            else:
                d = corrupt_dict(obj.to_dict(), cor)
                src = d if fmt == "dict" else json.dumps(d)
                if cor == "not-an-object":
                    src = random.choice(["null", "[]", "0", "true", '"totp"', json.dumps([d]), "3.5", '""'])
                if fmt == "json" and cor == "none":
                    src = obj.to_json()
            detail["source"] = src
            try:
                snapshot = dict(src) if isinstance(src, dict) else None
                back = cls.from_source(src)
                got = ["ok", fields(back)]
                if snapshot is not None:
                    # loading must not consume the caller's record: it is unchanged and loads again to the same object
                    if src != snapshot:
                        chk.violation("dict:source-modified", f"from_source() changed the dict it was given: {sorted(set(snapshot) ^ set(src))} differ", detail)
                        continue
                    again = cls.from_source(src)
                    if fields(again) != got[1]:
                        chk.violation("dict:second-load-differs", "loading the same dict a second time gives another object", detail)
                        continue
            except ValueError as ex:
                got = ["ValueError", str(ex)[:80]]
        except Exception as ex:
            got = ["Internal:" + type(ex).__name__, str(ex)[:100]]
        if res[0] == "ok":
            wantf = dict(want)
            if fmt == "uri" and wantf["label"]:
                wantf["label"] = wantf["label"].strip()
            if got != ["ok", wantf]:
                diff = [k for k in wantf if got[0] != "ok" or got[1].get(k) != wantf[k]]
                chk.violation(f"{fmt}:roundtrip:{','.join(diff) if got[0] == 'ok' else got[0]}",
                              f"{fmt} round trip under class defaults {D}: loaded {got}, original {wantf}", detail)
                continue
            for t in TIMES:
                if back.generate(t).token != obj.generate(t).token:
                    chk.violation(f"{fmt}:roundtrip:token", "reloaded object generates a different token", detail)
                    break
        else:
            if got[0] != "ValueError":
                chk.violation(f"{fmt}:{cor}:accepted", f"corrupted source ({cor}) was not refused with a value error: {got[0]}", detail)
    chk.traces += len(cases)
    if cases:
        chk.sample({"case": cases[len(cases) // 2]})
    from . import x_wallet
    x_wallet.run(chk, quick, rnd)
    chk.uncovered.append("AppWallet encrypted keys: no AES support (cryptography package) on this host - not exercised (the wallet's table of secrets is: Wallet.tla)")
    chk.assumptions += ["strings are abstract in the spec; percent-quoting is bound by the independent urllib.parse reader in the harness"]


def replay(chk, path):
    v = json.loads(open(path).read())
    print(json.dumps(v["detail"], indent=1, default=str)[:3000])
    return 1
