"""C08 - malformed or altered hash strings are rejected cleanly and never verify.

spec/HashFormat.tla (part Mutate) + Trace_HashFormat.tla.
 1. TLC evaluates the outcome rules of the spec over every recorded event (I->S): identify answers True/False, verify and
    needs_update answer or raise the documented value/type error - never an internal error - and a verify that answers
    True is admissible only if the mutant equals the original after the family's documented normalisation (hex case,
    bcrypt padding bits), which the SPEC applies to the recorded character codes itself.
 2. The events come from the real hashers: for each hasher valid hashes (cheapest and default-ish settings) are mutated at
    character level (every position: substitution from a probe set incl. NUL / non-ASCII / separators, deletion, insertion,
    truncation; the empty string) and at token level (dropped / duplicated fields and separators, zero-padded and oversized
    numbers, bare ident, hex case, padding bits), as str and bytes, through the hasher and through a CryptContext.
"""
from __future__ import annotations

import json
import random
import re
import warnings

from .. import tlc
from ..common import VERIF
from .c07 import HEXNORM, PADREPAIR, PADREPAIR_WRAPPED, swapcase_hex

PW = "p\xe4ss"
PROBE = ["$", "=", ",", ".", "/", "0", "A", "z", "\x00", "\xe9", " ", "{", "*", "!"]


def valid_hashes(name, h):
    w = getattr(h, "wrapped", h)
    kw = {}
    if "rounds" in h.setting_kwds:
        kw["rounds"] = 1 if name == "scrypt" else (w.min_rounds if w.rounds_cost == "log2" else max(w.min_rounds, 1))
    ctx = {}
    if "user" in h.context_kwds:
        ctx["user"] = "user"
    if "realm" in h.context_kwds:
        ctx["realm"] = "realm"
    out = []
    variants = [kw]
    for ident in (getattr(w, "ident_values", None) or ())[:3]:
        variants.append(dict(kw, ident=ident))
    if "salt_size" in h.setting_kwds and getattr(w, "min_salt_size", None) is not None and w.min_salt_size != w.default_salt_size:
        variants.append(dict(kw, salt_size=w.min_salt_size))
    if name == "cisco_type7":             # the offset field at both ends of its range
        variants = [dict(kw, salt=0), dict(kw, salt=52), kw]
    for v in variants:
        try:
            s = h.using(**v).hash(PW, **ctx)
            if s not in [x[0] for x in out]:
                out.append((s, ctx))
        except Exception:
            pass
    return out


def mutants(s, name, rnd, quick):
    """yield (kind, mutant text)"""
    n = len(s)
    pos = list(range(n))
    if quick and n > 40:
        pos = sorted(set(rnd.sample(pos, 28)) | {0, 1, 2, n - 1, n - 2} | {i for i, c in enumerate(s) if c in "$,="})
    for i in pos:
        for c in (PROBE if not quick else rnd.sample(PROBE, 5) + ["$"]):
            if c != s[i]:
                yield "subst", s[:i] + c + s[i + 1:]
        yield "delete", s[:i] + s[i + 1:]
        yield "insert", s[:i] + rnd.choice(PROBE) + s[i:]
        yield "truncate", s[:i]
    yield "insert", s + "$"
    yield "insert", s + "A"
    yield "empty", ""
    parts = s.split("$")
    if len(parts) > 2:
        for k in range(1, len(parts)):
            yield "drop-field", "$".join(parts[:k] + parts[k + 1:])
            yield "dup-sep", "$".join(parts[:k]) + "$$" + "$".join(parts[k:])
            yield "drop-field", "$".join(parts[:k] + parts[k + 1:][::-1])
        yield "bare-ident", "$".join(parts[:2]) + "$"
        yield "bare-ident", "$".join(parts[:2])
    for m in re.finditer(r"\d+", s):
        if m.start() > 0 and s[m.start() - 1] in "$=,|_" and len(m.group()) < 10:
            yield "zero-pad-number", s[:m.start()] + "0" + m.group() + s[m.end():]
            yield "huge-number", s[:m.start()] + "9" * 12 + s[m.end():]
            yield "huge-number", s[:m.start()] + "-" + m.group() + s[m.end():]
            n = int(m.group())
            for big in (2 ** 31 - 1, 2 ** 31, 2 ** 32 - 1, 2 ** 32):           # around what C integer types can hold
                yield "huge-number", s[:m.start()] + str(big) + s[m.end():]
            if len(m.group()) == 2 and n < 100:         # a two-digit field: every other value
                for alt in range(100):
                    if alt != n:
                        yield "other-number", s[:m.start()] + "%02d" % alt + s[m.end():]
            for alt in {n - 1, n + 1, n // 10, 1, 0} - {n}:
                if alt >= 0:
                    yield "other-number", s[:m.start()] + str(alt) + s[m.end():]
    for m in re.finditer(r"(?<=[A-Za-z])\d(?=[|$,}])", s):           # a one-digit selector ending a name ({FSHP1|, $sha1$, $md5$): every other digit
        for alt in "0123456789":
            if alt != m.group():
                yield "subst", s[:m.start()] + alt + s[m.end():]
    if name == "cisco_type7" and len(s) >= 2 and s[:2].isdigit():      # a leading two-digit offset, directly followed by hex digits
        for alt in range(100):
            if "%02d" % alt != s[:2]:
                yield "other-number", "%02d" % alt + s[2:]
    # name=value pairs: the name or the value blanked
    for m in re.finditer(r"([A-Za-z][A-Za-z0-9-]*)=([^,$|}]+)", s):
        yield "empty-name", s[:m.start(1)] + s[m.end(1):]
        yield "empty-value", s[:m.start(2)] + s[m.end(2):]
    sw = swapcase_hex(s)
    if sw != s:
        yield "case-hex", sw
        yield "case-hex", s.upper()
        yield "case-hex", s.lower()
    if name in PADREPAIR and len(s) >= 54:
        from passlib.utils.binary import bcrypt64
        i = len(s) - 32
        idx = bcrypt64.charmap.index(s[i]) if s[i] in bcrypt64.charmap else None
        if idx is not None:
            for b in (1, 7, 15):
                yield "pad-bits", s[:i] + bcrypt64.charmap[(idx & ~15) | b] + s[i + 1:]
            yield "subst", s[:i] + bcrypt64.charmap[idx ^ 16] + s[i + 1:]      # a USED bit of the salt: must not verify


B64ISH = set("ABCDEFGHIJKLMNOPQRSTUVWXYZabcdefghijklmnopqrstuvwxyz0123456789./+-_=")


def targeted(s):
    """deterministic probes of every known decoder leniency, at every place it could apply: (mechanism, mutant).
    The set of mechanisms a hasher accepts is a property of the code, not of a random sample."""
    yield "trailing-newline", s + "\n"
    yield "trailing-blank", s + " "
    yield "leading-blank", " " + s
    for m in re.finditer(r"\d+", s):
        if m.start() == 0 or s[m.start() - 1] in "$=,|_{}":
            a, b = m.start(), m.end()
            if b - a < 10:
                yield "number-blank-before", s[:a] + " " + s[a:]
                yield "number-blank-after", s[:b] + " " + s[b:]
                yield "number-leading-zero", s[:a] + "0" + s[a:]
                yield "number-plus-sign", s[:a] + "+" + s[a:]
                if s[a] == "0" and b - a > 1:
                    yield "number-blank-for-zero", s[:a] + " " + s[a + 1:]
                yield "number-underscore", s[:a] + s[a:b][:1] + "_" + s[a:b][1:] + s[b:] if b - a > 1 else s[:a] + s[a:b] + "_" + s[b:]
    # fields that look like radix-64 data
    pos = 0
    for part in re.split(r"([$,|}])", s):
        start = pos
        pos += len(part)
        if len(part) < 4 or not set(part) <= B64ISH or part.isdigit():
            continue
        end = start + len(part)
        mid = start + len(part) // 2
        for tag, i in (("start", start), ("middle", mid), ("end", end)):
            yield f"field-foreign-char-{tag}", s[:i] + "!" + s[i:]
            yield f"field-blank-{tag}", s[:i] + " " + s[i:]
        yield "field-nul", s[:mid] + "\x00" + s[mid:]
        yield "field-newline", s[:mid] + "\n" + s[mid:]
        yield "field-padding-added", s[:end] + "=" + s[end:]
        if part.endswith("="):
            yield "field-padding-dropped", s[:end - 1] + s[end:]
            last = end - 1 - (len(part) - len(part.rstrip("=")))
        else:
            last = end - 1
        for alt in "ABCDEFGHIJKLMNOPQRSTUVWXYZabcdefghijklmnopqrstuvwxyz0123456789./+":      # every digit: finds unused bits whatever the digest is
            if alt != s[last]:
                yield "field-last-digit", s[:last] + alt + s[last + 1:]
        for a, b in ((".", "+"), ("+", "."), ("/", "_"), ("_", "/"), ("-", "+"), ("+", "-"), (".", "/")):
            j = s.find(a, start, end)
            if j >= 0:
                yield "field-alt-punctuation", s[:j] + b + s[j + 1:]
    for m in re.finditer(r"\$", s):
        yield "separator-doubled", s[:m.start()] + "$$" + s[m.end():]
        yield "separator-dropped", s[:m.start()] + s[m.end():]


def documented_equivalent(name, m, s0):
    """spellings the FORMAT itself declares equivalent (beyond hex case and padding bits, which the model knows):
    django_des_crypt carries its salt twice - `crypt$<salt1>$<salt2><digest>` - and only salt2 feeds the digest; Django 1.0 wrote five
    characters into salt1, Django 1.4 leaves it empty, so everything in salt1 after a matching two-character start is not a setting"""
    if name == "django_des_crypt":
        a, b = m.split("$"), s0.split("$")
        return len(a) == 3 and len(b) == 3 and a[0] == b[0] and a[2] == b[2] and (a[1] == "" or a[1][:2] == a[2][:2])
    return False


def coarse(mech):
    """class of a leniency mechanism, shared between targeted probes and random mutants"""
    if "last-digit" in mech or mech.endswith(":last"):
        return "lastbits"
    if "blank" in mech or "newline" in mech:
        return "blank"
    if "zero" in mech:
        return "zero"
    if "plus-sign" in mech or "underscore" in mech:
        return "sign"
    if "last-digit" in mech or mech.endswith(":last"):
        return "lastbits"
    if "separator" in mech or mech in ("delete:foreign",):
        return "separator"
    if "digits" in mech:
        return "number-changed"
    if "foreign" in mech or "nul" in mech or "padding" in mech or "pad" in mech or "punct" in mech or "alnum" in mech:
        return "foreign"
    return "other"


def coarse2(mech, m, s0):
    """as coarse(), but a single changed character that is the last digit of a field is always the 'unused bits' mechanism"""
    if len(m) == len(s0):
        d = [i for i in range(len(m)) if m[i] != s0[i]]
        if len(d) == 1 and (d[0] == len(s0) - 1 or s0[d[0] + 1] in "$="):
            return "lastbits"
    return coarse(mech)


def leniency(mutant, original):
    """which decoder leniency lets `mutant` be read as `original` (classification of a finding, never pass/fail):
    <edit>:<class of the characters involved>[:last] - e.g. insert:blank (int() strips blanks), insert:zero (leading zeros),
    insert:foreign (base64 decoders skip characters outside their alphabet), replace:digits (a number was changed!)"""
    import difflib
    ops = [op for op in difflib.SequenceMatcher(None, original, mutant, autojunk=False).get_opcodes() if op[0] != "equal"]
    if len(ops) != 1:
        return "several-edits"
    tag, i1, i2, j1, j2 = ops[0]
    old, new = original[i1:i2], mutant[j1:j2]

    def cat(t):
        if not t:
            return ""
        if t.isdigit():
            return "zero" if set(t) == {"0"} else "digits"
        if t.isspace():
            return "blank"
        if t == "=":
            return "pad"
        if t.isalnum() and t.isascii():
            return "alnum"
        if all(c in "./+-_" for c in t):
            return "b64punct"
        return "foreign"
    # the last digit of a base64 FIELD (before a '$' or the end) carries unused bits
    where = ":last" if tag == "replace" and len(old) == 1 and (i2 == len(original) or original[i2] in "$=") else ""
    return f"{tag}:{cat(old)}>{cat(new)}{where}" if tag == "replace" else f"{tag}:{cat(new or old)}"


def parsed_settings(h, text):
    """the settings the library itself reads from a string (empty when it refuses the string) - through parsehash of the hasher,
    of the hasher it wraps, or the parsed object"""
    w = getattr(h, "wrapped", h)
    for attempt in (lambda: h.parsehash(text), lambda: w.parsehash(h._unwrap_hash(text if isinstance(text, str) else text.decode("latin-1"))),
                    lambda: vars_of(w.from_string(h._unwrap_hash(text) if hasattr(h, "wrapped") else text))):
        try:
            d = attempt()
            if isinstance(d, dict) and d:
                return d
        except Exception:
            continue
    return {}


def vars_of(o):
    return {k: getattr(o, k) for k in ("rounds", "block_size", "parallelism") if getattr(o, k, None) is not None}


def outcome(fn, *a, **k):
    try:
        return str(bool(fn(*a, **k))) if fn(*a, **k) in (True, False) else "Other"
    except ValueError:
        return "ValueError"
    except TypeError:
        return "TypeError"
    except Exception as e:
        return "Internal:" + type(e).__name__


class _Watchdog(Exception):
    pass


def _alarm(signum, frame):
    raise _Watchdog()


def call1(fn, *a, **k):
    """one public call under a watchdog: an altered string that makes the library grind for ages (e.g. an absurd cost taken
    at face value) has not been rejected cleanly"""
    import signal
    signal.signal(signal.SIGALRM, _alarm)
    signal.setitimer(signal.ITIMER_REAL, CALL_LIMIT_S)
    try:
        r = fn(*a, **k)
        return "True" if r is True else "False" if r is False else f"Other:{type(r).__name__}"
    except _Watchdog:
        return "NoAnswer"
    except ValueError:
        return "ValueError"
    except TypeError:
        return "TypeError"
    except Exception as e:   # internal error
        return "Internal:" + type(e).__name__
    finally:
        signal.setitimer(signal.ITIMER_REAL, 0)


CALL_LIMIT_S = 15


def run(chk):
    warnings.simplefilter("ignore")
    quick = chk.tier == "quick"
    rnd = random.Random(chk.seed)
    from passlib import registry
    from passlib.context import CryptContext
    chk.rule = ("one case = one public call (identify / verify / needs_update, on the hasher or through a CryptContext) on one mutant of a valid hash; "
                "non-trivial = distinct (hasher, mutation kind, call, outcome)")
    names = sorted(registry.list_crypt_handlers())
    skip = {"unix_disabled", "django_disabled", "plaintext", "ldap_plaintext", "roundup_plaintext"}
    if quick:
        keep = ["md5_crypt", "sha256_crypt", "sha512_crypt", "bcrypt", "bcrypt_sha256", "des_crypt", "bsdi_crypt", "phpass", "scrypt", "pbkdf2_sha256", "ldap_salted_sha1",
                "django_pbkdf2_sha256", "hex_md5", "mssql2005", "mysql41", "fshp", "scram", "sun_md5_crypt", "cisco_type7", "ldap_bcrypt", "sha1_crypt", "grub_pbkdf2_sha512",
                "oracle11", "lmhash", "dlitz_pbkdf2_sha1", "ldap_hex_sha1", "django_bcrypt_sha256", "cta_pbkdf2_sha1", "apr_md5_crypt", "atlassian_pbkdf2_sha1"]
        # every hasher is probed in the quick tier too; those outside `keep` with one valid hash and a thinner sample of positional mutants
        light = {n for n in names if n not in keep}
    else:
        light = set()
    agg = {}
    events = []
    total = 0
    restore = []
    skipped_expensive = [0]
    probed = []
    probe_seen = set()
    probe_later = []          # valid-looking strings with an enormous cost: verified in a child process under a hard time limit
    for name in names:
        if name in skip:
            continue
        try:
            h = registry.get_crypt_handler(name)
            if hasattr(h, "has_backend") and not h.has_backend():
                chk.uncovered.append(f"{name}: no backend")
                continue
        except Exception:
            continue
        fam = {"hexnorm": name in HEXNORM, "padrepair": name in PADREPAIR or name in PADREPAIR_WRAPPED}
        try:
            ctxobj = CryptContext(schemes=[name])
        except Exception:
            ctxobj = None
        vh = valid_hashes(name, h)[: (1 if name in light else 3 if quick else 5)]
        probed.append((name, h, vh))
        for s, ckw in vh:
            padpos = len(s) - PADREPAIR_WRAPPED.get(name, 31)
            orig_rounds = parsed_settings(h, s).get("rounds")
            log2 = getattr(getattr(h, "wrapped", h), "rounds_cost", "linear") == "log2"
            seen = set()
            for kind, m in mutants(s, name, rnd, quick):
                if m == s or (kind, m) in seen:
                    continue
                if name in light and kind in ("subst", "insert", "delete", "truncate") and 0 < len(m) and m != s + "A" and m != s + "$" and rnd.random() < .7:
                    continue
                seen.add((kind, m))
                by_form = {}
                for form in ("str", "bytes"):
                    if form == "bytes":
                        if not quick or rnd.random() < .25:
                            try:
                                mm = m.encode("latin-1")
                            except UnicodeEncodeError:
                                continue
                        else:
                            continue
                    else:
                        mm = m
                    vkw = dict(ckw, full=True) if name == "scram" else ckw      # scram checks only one stored digest unless full=True (documented)
                    calls = [("identify", lambda: h.identify(mm)), ("verify", lambda: h.verify(PW, mm, **vkw)), ("needs_update", lambda: h.needs_update(mm))]
                    if ctxobj is not None and form == "str" and name != "scram":
                        calls += [("ctx_verify", lambda: ctxobj.verify(PW, mm, **ckw)), ("ctx_needs_update", lambda: ctxobj.needs_update(mm))]
                    # a mutant that is a VALID string with a much higher cost is not malformed: computing it is legitimate (and slow), skip the computation
                    expensive = False
                    ph = parsed_settings(h, mm)
                    r1 = ph.get("rounds")
                    if isinstance(r1, int) and isinstance(orig_rounds, int):
                        expensive = r1 > orig_rounds + 3 if log2 else r1 > max(orig_rounds * 20, 20000)
                    if name == "scrypt" and (ph.get("block_size", 8) > 64 or ph.get("parallelism", 1) > 16):
                        expensive = True
                    if expensive and form == "str" and kind == "huge-number" and str(2 ** 31) in mm and (name, "2^31") not in probe_seen:
                        probe_seen.add((name, "2^31"))          # one per hasher: the first value a C long cannot hold
                        probe_later.append((name, mm, vkw))
                    for cname, fn in calls:
                        if expensive and cname in ("verify", "ctx_verify"):
                            skipped_expensive[0] += 1
                            continue
                        out = call1(fn)
                        if out == "NoAnswer":
                            skipped_expensive[0] += 1
                            continue
                        total += 1
                        by_form.setdefault(cname, {})[form] = out
                        key = (name, kind, cname, out)
                        a = agg.setdefault(key, {"n": 0, "witness": m, "form": form})
                        a["n"] += 1
                        if out == "True" and cname in ("verify", "ctx_verify") and documented_equivalent(name, m, s):
                            chk.count((name, "documented-equivalent", cname))
                            continue
                        if out == "True" and cname in ("verify", "ctx_verify"):
                            events.append({"fam": fam, "hasher": name, "kind": kind, "call": cname, "outcome": out, "padpos": padpos,
                                           "mutant": [ord(c) for c in m], "original": [ord(c) for c in s]})
                # a stored hash is text; ASCII bytes are the same string and must be decided the same way
                if m.isascii():
                    for cname, d in by_form.items():
                        if len(d) == 2 and d["str"] != d["bytes"]:
                            chk.violation(f"{name}:{cname}:bytes-differ:{d['str']}->{d['bytes']}",
                                          f"{name}.{cname} decides the {kind} mutant as {d['str']} when given as str and as {d['bytes']} when given as the same ASCII bytes",
                                          {"hasher": name, "mutant": m, "kind": kind})
            # the unaltered hash itself, as str and as ASCII bytes, through the hasher and the context
            for form, ss in (("str", s), ("bytes", s.encode("ascii"))):
                vkw = dict(ckw, full=True) if name == "scram" else ckw
                calls = [("identify", lambda: h.identify(ss), ("True",)), ("verify", lambda: h.verify(PW, ss, **vkw), ("True",)),
                         ("needs_update", lambda: h.needs_update(ss), ("True", "False"))]
                if ctxobj is not None and name != "scram":
                    calls += [("ctx_verify", lambda: ctxobj.verify(PW, ss, **ckw), ("True",)), ("ctx_needs_update", lambda: ctxobj.needs_update(ss), ("True", "False")),
                              ("ctx_verify_and_update", lambda: ctxobj.verify_and_update(PW, ss, **ckw)[0], ("True",))]
                for cname, fn, ok in calls:
                    out = call1(fn)
                    total += 1
                    chk.action("valid-hash:" + cname)
                    if out not in ok:
                        chk.violation(f"{name}:{cname}:valid-{form}:{out}", f"{name}.{cname} on its own valid hash given as {form}: {out}", {"hasher": name, "hash": s, "form": form})
    # enormous costs: the computation may legitimately take for ever (then the child is killed and nothing is concluded), but it must
    # not end in an internal error
    if probe_later:
        import subprocess
        import sys as _sys
        child = ("import sys, json, warnings, logging\nwarnings.simplefilter('ignore'); logging.disable(logging.WARNING)\nsys.path.insert(0, %r)\n"
                 "from passlib import registry\nname, m, kw = json.loads(sys.stdin.read())\n"
                 "try:\n    r = registry.get_crypt_handler(name).verify(%r, m, **kw); print('answer', r)\n"
                 "except (ValueError, TypeError) as e:\n    print('clean', type(e).__name__)\n"
                 "except BaseException as e:\n    print('internal', type(e).__name__, str(e)[:80])\n") % (chk.repo, PW)
        for name, m, vkw in probe_later:
            try:
                p = subprocess.run([_sys.executable, "-c", child], input=json.dumps([name, m, vkw]), capture_output=True, text=True, timeout=4)
                line = (p.stdout.strip().splitlines() or ["?"])[-1]
            except subprocess.TimeoutExpired:
                line = "timeout"
            total += 1
            chk.action("huge-cost-probe")
            chk.count((name, "huge-cost", line.split()[0]))
            if line.startswith("internal") or (line.startswith("answer") and "True" in line):
                chk.violation(f"{name}:verify:huge-cost:{line.split()[1] if len(line.split()) > 1 else line}",
                              f"{name}.verify on a string with an enormous cost field ended with: {line}", {"hasher": name, "mutant": m})
    # deterministic leniency probes (every hasher of the tier, every valid hash)
    found = {}                 # (hasher, mechanism) -> witness
    for name, h, hashes in probed:
        ww = getattr(h, "wrapped", h)
        for s0, ckw in hashes:
            vkw = dict(ckw, full=True) if name == "scram" else ckw
            try:
                canon0 = ww.from_string(h._unwrap_hash(s0) if hasattr(h, "wrapped") else s0).to_string() if hasattr(ww, "from_string") else s0
            except Exception:
                canon0 = None
            for mech, m in targeted(s0):
                if m == s0 or (name in HEXNORM and m.lower() == s0.lower()):
                    continue            # (hex case is normalised by documentation)
                if (name in PADREPAIR or name in PADREPAIR_WRAPPED) and len(m) == len(s0):
                    pidx = len(s0) - PADREPAIR_WRAPPED.get(name, 31) - 1
                    if [i for i in range(len(m)) if m[i] != s0[i]] == [pidx]:
                        continue        # (the padding bits of the salt's last digit are repaired by documentation)
                out = call1(lambda: h.verify(PW, m, **vkw))
                total += 1
                chk.action("targeted-" + mech.split("-")[0])
                if out == "True" and documented_equivalent(name, m, s0):
                    continue
                if out == "True":
                    try:
                        same = canon0 is not None and ww.from_string(h._unwrap_hash(m) if hasattr(h, "wrapped") else m).to_string() == canon0
                    except Exception:
                        same = False
                    found.setdefault((name, mech + ("@last" if coarse2(mech, m, s0) == "lastbits" and "last-digit" not in mech else ""), "same-value" if same else "OTHER-VALUE"), (m, s0))
                elif out.startswith("Internal"):
                    found.setdefault((name, mech, out), (m, s0))
    for (name, mech, what), (m, s0) in sorted(found.items()):
        chk.count((name, "targeted", mech, what))
        if what == "same-value":
            chk.violation(f"lenient-decoding:{name}:{coarse2(mech, m, s0)}", f"{name}.verify accepts an undocumented re-spelling of the same value ({mech}): {m!r}", {"hasher": name, "mechanism": mech, "mutant": m, "original": s0})
        elif what == "OTHER-VALUE":
            if name in ("scram",) and "last-digit" in mech:
                continue            # (scram lists one digest per algorithm; the last digit of a LIST ITEM's digest is judged through full=True above)
            chk.violation(f"{name}:verify:{mech}:True", f"{name}.verify answered True for an altered string ({mech}) that is not even a re-spelling of the same value: {m!r}", {"hasher": name, "mechanism": mech, "mutant": m, "original": s0})
        else:
            chk.violation(f"{name}:verify:{mech}:{what}", f"{name}.verify on a {mech} probe raised an internal error ({what}): {m!r}", {"hasher": name, "mechanism": mech, "mutant": m})
    # libpass's own hashers: the same deterministic probes (every one keeps the cost of the original string)
    try:
        from ..hashverify import libpass_hashers
        lp = libpass_hashers()
    except Exception as ex:
        lp = []
        chk.uncovered.append(f"libpass hashers: {type(ex).__name__}: {ex}"[:120])
    lp_found = {}
    for lname, LH, _k in lp:
        s0 = LH.hash(PW)
        for mech, m in targeted(s0):
            if m == s0:
                continue
            for form in (m, m.encode("latin-1") if all(ord(ch) < 256 for ch in m) else None):
                if form is None:
                    continue
                for cname, fn in (("verify", lambda: LH.verify(form, PW)), ("identify", lambda: LH.identify(form)), ("needs_update", lambda: LH.needs_update(form))):
                    out = call1(fn)
                    total += 1
                    chk.action("libpass-targeted-" + cname)
                    chk.count((lname, "targeted", cname, coarse2(mech, m, s0), out))
                    if cname == "verify" and out == "True":
                        lp_found.setdefault((lname, "lenient", coarse2(mech, m, s0)), (mech, m, s0))
                    elif out.startswith("Internal") or out == "NoAnswer" or (cname == "identify" and out not in ("True", "False")):
                        lp_found.setdefault((lname, cname, out), (mech, m, s0))
    for (lname, what, cls), (mech, m, s0) in sorted(lp_found.items()):
        if what == "lenient":
            chk.violation(f"lenient-decoding:{lname}:{cls}", f"{lname}.verify accepts an altered spelling of a stored hash ({mech}): {m!r}", {"hasher": lname, "mechanism": mech, "mutant": m, "original": s0})
        else:
            chk.violation(f"{lname}:{what}:{mech}:{cls}", f"{lname}.{what} on a {mech} probe: {cls}: {m!r}", {"hasher": lname, "mechanism": mech, "mutant": m})
    lenient_classes = {}
    for (name, mech, what), (m, s0) in found.items():
        if what == "same-value":
            lenient_classes.setdefault(name, set()).add(coarse2(mech, m, s0))
    chk.extra["lenient_mechanisms"] = sorted([n, m] for (n, m, w) in found if w == "same-value")
    chk.extra["lenient_classes"] = sorted({(n, coarse2(m, v[0], v[1])) for (n, m, w), v in found.items() if w == "same-value"})
    chk.extra["other_targeted_findings"] = sorted([n, m, w] for (n, m, w) in found if w != "same-value")
    for wb, old in restore:
        try:
            wb.set_backend(old)
        except Exception:
            pass
    # aggregated classes: one event per class (the outcome rules do not depend on the text)
    for (name, kind, cname, out), a in sorted(agg.items()):
        if out == "True" and cname in ("verify", "ctx_verify"):
            continue
        events.append({"fam": {"hexnorm": name in HEXNORM, "padrepair": name in PADREPAIR or name in PADREPAIR_WRAPPED}, "hasher": name, "kind": kind, "call": cname, "outcome": out.split(":")[0] if out.startswith("Other") else out,
                       "padpos": 0, "mutant": [], "original": [], "_n": a["n"], "_witness": a["witness"], "_form": a["form"]})
        chk.count((name, kind, cname, out))
    chk.evaluations = total
    chk.extra["verify_calls_skipped_as_valid_but_expensive"] = skipped_expensive[0]
    wd = tlc.WORK / "C08_trace_in"
    wd.mkdir(parents=True, exist_ok=True)
    (wd / "events.json").write_text(json.dumps([{k: v for k, v in e.items() if not k.startswith("_") and k != "hasher"} for e in events]))
    r = tlc.run("Trace_HashFormat", "INIT Init\nNEXT Next\n", name="C08_trace", workers=1, env={"TRACE_FILE": str(wd / "events.json")}, coverage=False, timeout=3000)
    chk.add_tlc("Trace_HashFormat over recorded mutation events", r)
    if r.distinct != len(events) + 1:
        raise tlc.MachineryError("mutation trace not fully consumed")
    chk.traces += len(events)
    for b in r.emits:
        e = events[b["ev"] - 1]
        wit = e.get("_witness") if "_witness" in e else "".join(map(chr, e["mutant"]))
        lenient = b["clause"].startswith("lenient decoding")
        if not lenient and e["outcome"] == "True" and e["original"]:
            # classification only (never pass/fail): does the library itself read mutant and original as the same value?
            try:
                hh = registry.get_crypt_handler(e["hasher"])
                ww = getattr(hh, "wrapped", hh)
                o, m2 = "".join(map(chr, e["original"])), "".join(map(chr, e["mutant"]))
                if hasattr(hh, "wrapped"):
                    o, m2 = hh._unwrap_hash(o), hh._unwrap_hash(m2)
                lenient = ww.from_string(m2).to_string() == ww.from_string(o).to_string()
            except Exception:
                lenient = False
        if e["hasher"] == "scram" and e["outcome"] == "True":
            continue        # a scram hash holding a subset of the digests is a valid hash of the same password
        if lenient:
            mech = leniency(wit, "".join(map(chr, e["original"])))
            if coarse(mech) in lenient_classes.get(e["hasher"], ()) or coarse(mech) not in ("number-changed", "other"):
                continue            # the deterministic probes above decide these mechanisms for every hasher; random mutants only add the rest
            chk.extra.setdefault("lenient_decoding", [])
            if [e["hasher"], mech] not in chk.extra["lenient_decoding"]:
                chk.extra["lenient_decoding"].append([e["hasher"], mech])
            chk.violation(f"lenient-decoding:{e['hasher']}:random:{coarse(mech)}", f"{e['hasher']}.{e['call']}: lenient decoding ({mech}): an undocumented re-spelling of the same value verified: {wit!r}",
                          {"hasher": e["hasher"], "kind": e["kind"], "call": e["call"], "outcome": e["outcome"], "mutant": wit, "original": "".join(map(chr, e["original"]))})
            continue
        chk.violation(f"{e['hasher']}:{e['call']}:{e['kind']}:{e['outcome']}",
                      f"{e['hasher']}.{e['call']} on a {e['kind']} mutant: {b['clause']} (outcome {e['outcome']})",
                      {"hasher": e["hasher"], "kind": e["kind"], "call": e["call"], "outcome": e["outcome"], "mutant": wit, "count": e.get("_n", 1),
                       "original": "".join(map(chr, e["original"]))})
    tv = [e for e in events if e["outcome"] == "True" and e["call"] in ("verify", "ctx_verify")]
    chk.extra["true_verifies_checked_by_spec"] = len(tv)
    chk.extra["mutant_calls"] = total
    if tv:
        chk.sample({"true_verify_event": {"hasher": tv[0]["hasher"], "kind": tv[0]["kind"], "mutant": "".join(map(chr, tv[0]["mutant"])), "original": "".join(map(chr, tv[0]["original"]))}})
    chk.sample({"aggregated_class": {k: v for k, v in events[-1].items() if k in ("hasher", "kind", "call", "outcome", "_n", "_witness")}})
    chk.assumptions += ["which families normalise hex case / repair padding bits comes from the documentation (HashFormat.tla applies the normalisation itself)"]


def replay(chk, path):
    v = json.loads(open(path).read())
    d = v["detail"]
    print(json.dumps(d, indent=1)[:2000])
    from passlib import registry
    h = registry.get_crypt_handler(d["hasher"])
    kw = {k: k for k in ("user", "realm") if k in h.context_kwds}
    fn = {"identify": lambda: h.identify(d["mutant"]), "verify": lambda: h.verify(PW, d["mutant"], **kw), "needs_update": lambda: h.needs_update(d["mutant"])}.get(d["call"])
    if fn:
        print("now:", call1(fn))
    return 1
