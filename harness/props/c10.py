"""C10 - context configuration survives export/import; a failed change changes nothing.

spec/Context.tla + MC_ContextLife.tla.
 1. TLC: load / update / copy / round trips on two context objects: live configurations stay valid, failed
    changes change nothing, update replaces exactly the given keys, an empty update is a no-op, the copy is
    independent of the original.
 2. S->I: random life-cycle behaviours (full loads, sparse updates, ~35% invalid, customisation faults injected
    through a registered test handler whose using() raises when armed, copies, dict/INI round trips) are replayed
    on two real CryptContext objects; after EVERY step - successful or failed - both objects' to_dict() and a
    decision probe (default scheme per category, deprecated flag and cost window of every scheme per category)
    are compared with the spec; INI text is additionally read by configparser independently.
"""
from __future__ import annotations

import configparser
import io
import json
import os
import random
import warnings

from .. import tlc
from .c04 import ALL_KWS, CATS, P, kw, rec_expr, UNSET

OBJ = {}          # scheme name -> hasher object, for schemes that are given to contexts as objects
INVS = ["InvLiveValid"]
PROPS = ["FailedChangesNothing", "Independent", "UpdateExact", "EmptyUpdateNoop"]
ARMED = {"on": False}


def scheme_table():
    import passlib.hash as H
    import passlib.utils.handlers as uh
    from passlib import registry
    t = {}
    # sha256_crypt is handed to the contexts as a PRE-CONFIGURED hasher object (own maximum and default), not by name
    pre = H.sha256_crypt.using(max_rounds=50000, default_rounds=40000)
    t["sha256_crypt"] = dict(base=pre, custom=True, P=dict(P(1000, 999999999, 40000), maxD=50000),
                             kws=[kw(minA=1500), kw(maxA=1500), kw(minA=1500, maxA=2500), kw(d=1800), kw(d=999), kw(minA=600000),
                                  kw(minA=3000, maxA=2500), kw(d=3000, maxA=2500), kw(varyK="int", varyV=100),
                                  kw(varyK="pct", varyV=10, minA=1900), kw(varyK="pct", varyV=25), kw(varyK="pct", varyV=100), kw(varyK="int", varyV=1),
                                  kw(rounds=2000), kw(rounds=2200), kw(rounds=2200, minA=1500)])
    t["bcrypt"] = dict(base=H.bcrypt, P=P(4, 31, H.bcrypt.default_rounds, cost="log2"),
                       kws=[kw(minA=5), kw(maxA=5), kw(minA=5, maxA=6), kw(d=4), kw(d=3), kw(minA=13), kw(minA=7, maxA=5), kw(varyK="int", varyV=1)])
    t["md5_crypt"] = dict(base=H.md5_crypt, P=None, kws=[kw(minA=5)])
    t["des_crypt"] = dict(base=H.des_crypt, P=None, kws=[kw(d=5)])
    t["postgres_md5"] = dict(base=H.postgres_md5, P=None, kws=[kw(minA=5)])        # takes a context keyword (user)

    try:
        faulty = registry.get_crypt_handler("faulty")
    except KeyError:
        class faulty(uh.StaticHandler):
            """test handler whose customisation can be made to fail (fault injection for C10)"""
            name = "faulty"
            _hash_prefix = "$faulty$"
            checksum_size = 4
            checksum_chars = uh.LOWER_HEX_CHARS

            @classmethod
            def using(cls, **kwds):
                if ARMED["on"]:
                    raise RuntimeError("injected customisation fault")
                return super().using(**kwds)

            def _calc_checksum(self, secret):
                return "abcd"
        registry.register_crypt_handler(faulty)
    t["faulty"] = dict(base=faulty, P=None, kws=[kw(minA=5)])

    class custom1(uh.StaticHandler):
        """a hasher that is NOT registered: it can only be given to a context as an object"""
        name = "custom1"
        _hash_prefix = "$custom1$"
        checksum_size = 4
        checksum_chars = uh.LOWER_HEX_CHARS

        def _calc_checksum(self, secret):
            return "beef"
    t["custom1"] = dict(base=custom1, custom=True, P=None, kws=[kw(minA=5)])
    OBJ.clear()
    OBJ.update({n: v["base"] for n, v in t.items() if v.get("custom")})
    for n, v in t.items():
        v["greedy"] = False
        ck = {"user": "user"} if "user" in v["base"].context_kwds else {}
        v["standing"] = v["base"].using(rounds=v["P"]["hmin"]).hash("pw") if v["P"] else v["base"].hash("pw", **ck)
    return t


def consts_for(T, emit, **extra):
    R = tlc.Raw
    names = list(T)
    norounds = rec_expr(P(0, 0, UNSET))
    facts = "[" + ", ".join(f'{n} |-> [hasRounds |-> {"TRUE" if T[n]["P"] else "FALSE"}, P |-> {rec_expr(T[n]["P"]) if T[n]["P"] else norounds}, '
                            f'greedy |-> FALSE]' for n in names) + "]"
    kwc = "[" + ", ".join([f'{n} |-> {{{", ".join(rec_expr(k) for k in T[n]["kws"])}}}' for n in names] + [f'all |-> {{{", ".join(rec_expr(k) for k in ALL_KWS)}}}']) + "]"
    c = dict(Facts=R(facts), Cats=set(CATS), KwChoices=R(kwc), MaxOps=10, DoEmit=emit, Faulty={"faulty"}, CtxKwNames={n for n in names if T[n]["base"].context_kwds}, ExPatches=R("{NoPatch}"))
    c.update(extra)
    return c


def render(cfg, rnd=None, partial=False, has_schemes=True):
    """γ: abstract configuration / patch -> keyword dict as a user would write it"""
    d = {}
    if has_schemes and (cfg["schemes"] or not partial):
        d["schemes"] = [OBJ.get(s, s) for s in cfg["schemes"]]
    for c in CATS:
        pre = "" if c == "none" else c + "__context__"
        if cfg["def"][c] != "unset":
            d[pre + "default"] = cfg["def"][c]
        k = cfg["depK"][c]
        if k == "auto":
            d[pre + "deprecated"] = ["auto"] if not rnd or rnd.random() < .5 else "auto"
        elif k == "list":
            dl = sorted(cfg["depL"][c])
            d[pre + "deprecated"] = dl if not rnd or rnd.random() < .6 else ", ".join(dl)
    for o in cfg["opts"]:
        pre = "" if o["cat"] == "none" else o["cat"] + "__"
        k = o["kw"]
        for fld, name in (("minA", "min_rounds"), ("maxA", "max_rounds"), ("def", "default_rounds"), ("rounds", "rounds")):
            if k[fld] != UNSET:
                d[f"{pre}{o['name']}__{name}"] = k[fld] if not rnd or rnd.random() < .7 else str(k[fld])
        vkey = f"{pre}{o['name']}__vary_rounds"
        if o["name"] == "all" and o["cat"] == "none" and rnd and rnd.random() < .6:
            vkey = "vary_rounds"              # the bare global spelling (exported as all__vary_rounds)
        if k["varyK"] == "int":
            d[vkey] = k["varyV"] if not rnd or rnd.random() < .7 else str(k["varyV"])
        elif k["varyK"] == "pct":
            d[vkey] = k["varyV"] * 0.01 if not rnd or rnd.random() < .5 else f"{k['varyV']}%"
    return d


def ini_text(d, section):
    """a change written by hand as an INI section (documented format: one `key = value` per line, lists comma separated, '%' doubled)"""
    lines = [f"[{section}]"]
    for k, v in d.items():
        if isinstance(v, (list, tuple)):
            v = ", ".join(getattr(x, "name", x) for x in v)
        lines.append(f"{k} = {str(v).replace('%', '%%')}")
    return "\n".join(lines) + "\n"


def same_number_other_type(chk):
    """ContextLife's Update replaces the given keys: a value that is numerically equal to the one in force but of another type
    (vary_rounds 1 = one round, 1.0 = 100 %) is a different setting and must take effect, by every route"""
    from passlib.context import CryptContext
    for key in ("sha256_crypt__vary_rounds", "all__vary_rounds", "vary_rounds"):
        for old_v, new_v in ((1, 1.0), (1.0, 1)):
            for route in ("kwds", "dict", "load-dict", "text"):
                chk.evaluations += 1
                chk.count(("same-number", key, str(old_v), route))
                chk.action("same-number-other-type")
                try:
                    ctx = CryptContext(schemes=["sha256_crypt", "md5_crypt"], sha256_crypt__default_rounds=3000, **{key: old_v})
                    if route == "kwds":
                        ctx.update(**{key: new_v})
                    elif route == "dict":
                        ctx.update({key: new_v})
                    elif route == "load-dict":
                        ctx.load({key: new_v}, update=True)
                    else:
                        ctx.update(f"[passlib]\n{key} = {new_v}\n")
                    v = ctx.handler("sha256_crypt").vary_rounds
                    fresh = CryptContext(schemes=["sha256_crypt", "md5_crypt"], sha256_crypt__default_rounds=3000, **{key: new_v})
                    got = (type(v).__name__, v, ctx.to_dict() == fresh.to_dict())
                except Exception as ex:
                    got = f"{type(ex).__name__}: {ex}"[:100]
                if got != (type(new_v).__name__, new_v, True):
                    chk.violation(f"update:same-number-other-type:{route}", f"context with {key}={old_v!r} updated ({route}) with {key}={new_v!r}: hasher vary_rounds / same export as a fresh context = {got}",
                                  {"key": key, "old": repr(old_v), "new": repr(new_v), "route": route})


MARKERS = ["!%locked%", "*%", "!a%%b", "!%(here)s", "!x;y", "!#x", "!a=b", "!a:b", "*\xe9\u20ac", "!100%", "*[x]"]


def string_options(chk):
    """ContextLife's Import(Export(cfg)) = cfg for free-form text values: a disabled-account marker containing characters that mean
    something to an INI reader survives every export/import route and an update with the context's own export is a no-op"""
    import tempfile
    from passlib.context import CryptContext
    for m in MARKERS:
        for cat in (None, "admin"):
            key = ("admin__" if cat else "") + "unix_disabled__marker"
            ctx = CryptContext(schemes=["sha256_crypt", "unix_disabled"], sha256_crypt__default_rounds=1000, **{key: m})
            routes = {}
            try:
                text = ctx.to_string()
                routes["from_string"] = lambda: CryptContext.from_string(text)
                routes["dict"] = lambda: CryptContext(**ctx.to_dict())

                def via_path(update):
                    with tempfile.NamedTemporaryFile("w", suffix=".ini", delete=False, encoding="utf-8") as fh:
                        fh.write(text)
                    try:
                        if update:
                            c = ctx.copy()
                            c.load_path(fh.name, update=True)
                            return c
                        return CryptContext.from_path(fh.name)
                    finally:
                        os.unlink(fh.name)
                routes["from_path"] = lambda: via_path(False)
                routes["load_path-update"] = lambda: via_path(True)

                def upd():
                    c = ctx.copy()
                    c.update(text)
                    return c
                routes["update-own-export"] = upd
                routes["copy"] = ctx.copy
            except Exception as ex:
                chk.violation("string-option:export", f"exporting a context whose marker is {m!r} raised {type(ex).__name__}: {ex}", {"marker": m, "category": cat})
                continue
            for rname, fn in routes.items():
                chk.evaluations += 1
                chk.count(("string-option", rname, cat, MARKERS.index(m)))
                chk.action("string-option:" + rname)
                try:
                    c2 = fn()
                    got = (c2.handler("unix_disabled", category=cat).default_marker if cat else c2.disable(), c2.to_dict() == ctx.to_dict())
                except Exception as ex:
                    got = f"{type(ex).__name__}: {ex}"[:100]
                if got != (m, True):
                    chk.violation(f"string-option:{rname}", f"marker {m!r} ({'admin' if cat else 'default'} category) through {rname}: disable() / same export = {got}, expected {(m, True)}",
                                  {"marker": m, "category": cat, "route": rname, "export": text})


def norm_dict(d):
    out = {}
    d = dict(d)
    for k in [k for k in d if k.endswith("__rounds")]:
        if isinstance(d[k], str) and d[k].isdigit():
            d[k] = int(d[k])        # (the alias is exported as it was given; a number written as text is the same setting)
    for k, v in d.items():
        if k == "schemes":
            v = [getattr(x, "name", x) for x in v]
        elif isinstance(v, float):
            v = ("float", round(v, 6))          # 1.0 (100 %) and 1 (one round) are different settings
        elif isinstance(v, tuple):
            v = list(v)
        out[k] = v
    return out


def probe(ctx, T):
    """decisions of a real context in the shape of the spec's Probe()"""
    names = list(ctx.schemes())
    if not names:
        return {"defaults": {}, "recs": {}, "ident": {}, "vkw": {}}
    out = {"defaults": {}, "recs": {}, "ident": {s: (ctx.identify(T[s]["standing"]) or "unset") for s in T}, "vkw": {}}
    for s in T:
        try:
            out["vkw"][s] = str(ctx.verify("pw", T[s]["standing"], user="user"))
        except ValueError:
            out["vkw"][s] = "ValueError"
        except Exception as e:
            out["vkw"][s] = type(e).__name__
    for c in CATS:
        rc = None if c == "none" else c
        for s in names:
            # a stored hash of scheme s is judged by s's record for the category: the record found by identifying the hash and the one found by
            # name are the same
            try:
                hd = ctx.handler(s, category=rc)
                if ctx.identify(T[s]["standing"]) == s and ctx.needs_update(T[s]["standing"], category=rc) != (bool(hd.deprecated) or bool(hd.needs_update(T[s]["standing"]))):
                    out["ident"][f"stale-record:{c}/{s}"] = "identified record differs from named record"
            except Exception as e:
                out["ident"][f"stale-record:{c}/{s}"] = type(e).__name__
        out["defaults"][c] = ctx.default_scheme(category=rc)
        for s in names:
            h = ctx.handler(s, category=rc)
            win = None
            if T[s]["P"]:
                def o(x):
                    return UNSET if x is None else x
                v = h.vary_rounds
                win = [o(h.min_desired_rounds), o(h.max_desired_rounds), o(h.default_rounds),
                       "unset" if v is None else ("pct" if isinstance(v, float) else "int"), 0 if v is None else (round(v * 100) if isinstance(v, float) else v)]
            out["recs"][f"{c}/{s}"] = [bool(h.deprecated), win]
    return out


def spec_probe(p, T):
    if not p["recs"]:
        return {"defaults": {}, "recs": {}, "ident": {}, "vkw": {}}
    out = {"defaults": dict(p["defaults"]), "recs": {}, "ident": dict(p["ident"]), "vkw": dict(p["vkw"])}
    for r in p["recs"]:
        q = r["p"]
        win = [q["minD"], q["maxD"], q["def"], q["varyK"], q["varyV"]] if T[r["name"]]["P"] else None
        out["recs"][f"{r['cat']}/{r['name']}"] = [r["dep"], win]
    return out


def run_behaviour(chk, T, beh, rnd):
    from passlib.context import CryptContext
    real = [CryptContext(), None]
    hist = []
    for k, st in enumerate(beh):
        op, i = st["op"], st["i"] - 1
        exp = st["res"]
        got, err = "ok", ""
        ARMED["on"] = st["armed"]
        try:
            if op == "load":
                d = render(st["patch"]["cfg"], rnd, has_schemes=st["patch"]["hasSchemes"])
                form = rnd.choice(["dict", "dict", "ctor", "string"]) if k else "dict"
                if form == "string" and any(s in OBJ for s in st["patch"]["cfg"]["schemes"]):
                    form = "ctor"          # an INI text can only name registered hashers
                if form == "ctor":
                    tmp = CryptContext(**d)      # raises before anything is touched; then load the object
                    real[i].load(tmp)
                elif form == "string" and "schemes" in d:
                    ARMED["on"] = False
                    section = rnd.choice(["passlib", "passlib", "myapp-policy"])
                    text = CryptContext(**d).to_string(section=section)
                    ARMED["on"] = st["armed"]
                    if rnd.random() < .4:
                        # through a file on disk, possibly next to other sections
                        import tempfile
                        with tempfile.NamedTemporaryFile("w", suffix=".ini", delete=False, encoding="utf-8") as fh:
                            fh.write("[other]\nschemes = nothing\n\n" + text + "\n[trailer]\nx = 1\n")
                        try:
                            real[i].load_path(fh.name, section=section)
                        finally:
                            __import__("os").unlink(fh.name)
                    else:
                        real[i].load(text, section=section)
                elif not d and k:
                    # nothing configured: given as an empty dict, an empty context, the export of one, or an INI section without entries
                    real[i].load(rnd.choice([{}, CryptContext(), CryptContext().to_dict(), CryptContext().to_string(), "[passlib]\n"]))
                else:
                    real[i].load(d)
            elif op == "update":
                d = render(st["patch"]["cfg"], rnd, partial=True, has_schemes=st["patch"]["hasSchemes"])
                if st["patch"]["hasSchemes"]:
                    d["schemes"] = [OBJ.get(s, s) for s in st["patch"]["cfg"]["schemes"]]
                route = rnd.choice(["kwds", "dict", "load-dict", "text", "load-text", "path"])
                if route in ("text", "load-text", "path") and any(not isinstance(x, str) for x in d.get("schemes", [])):
                    route = "load-dict"          # an INI text can only name registered hashers
                if route == "kwds":
                    real[i].update(**d)
                elif route == "dict":
                    real[i].update(d)
                elif route == "load-dict":
                    real[i].load(d, update=True)
                else:
                    section = rnd.choice(["passlib", "myapp-policy"])
                    text = ini_text(d, section)
                    if route == "text" and section == "passlib":
                        real[i].update(text)
                    elif route == "path":
                        import tempfile
                        with tempfile.NamedTemporaryFile("w", suffix=".ini", delete=False, encoding="utf-8") as fh:
                            fh.write("[other]\nschemes = nothing\n\n" + text + "\n[trailer]\nx = 1\n")
                        try:
                            real[i].load_path(fh.name, section=section, update=True)
                        finally:
                            __import__("os").unlink(fh.name)
                    else:
                        real[i].load(text, section=section, update=True)
            elif op == "copy":
                real[1] = real[0].copy()
            elif op == "to_dict":
                ARMED["on"] = False
                exported = real[i].to_dict()
                # the exported record belongs to the caller: scribbling over it (values included) does not reach the context
                import copy as _copy
                keep = _copy.deepcopy(exported)
                for v_ in exported.values():
                    if isinstance(v_, list):
                        v_.append("scribble")
                exported.clear()
                exported = real[i].to_dict()
                if exported != keep:
                    got, err = "export-aliased", f"a second to_dict() after the first result was edited gives {exported}, first was {keep}"
                    exported = keep
                if "schemes" in exported:      # the export names the hashers; objects are handed back as objects
                    exported["schemes"] = [OBJ.get(s, s) for s in exported["schemes"]]
                real[i] = CryptContext(**exported)
            elif op == "to_string":
                ARMED["on"] = False
                text = real[i].to_string()
                # independent reader of the INI text
                cp = configparser.ConfigParser()
                cp.read_file(io.StringIO(text))
                ini = dict(cp.items("passlib")) if cp.has_section("passlib") else {}
                td = real[i].to_dict()
                if set(ini) != set(td):
                    got, err = "ini-keys-differ", f"{sorted(ini)} vs {sorted(td)}"
                if any(s in OBJ for s in real[i].schemes()):
                    fresh = CryptContext.from_string(text.replace("schemes = ", "schemes_were = ", 1)) if False else None
                    # (the text is checked above; re-importing it would need the objects - done through the dict form instead)
                    exported = real[i].to_dict()
                    exported["schemes"] = [OBJ.get(s, s) for s in exported["schemes"]]
                    real[i] = CryptContext(**exported)
                else:
                    real[i] = CryptContext.from_string(text)
        except (KeyError, ValueError, TypeError, RuntimeError) as e:
            got = next(n for n, c in (("KeyError", KeyError), ("ValueError", ValueError), ("TypeError", TypeError), ("RuntimeError", RuntimeError)) if isinstance(e, c))
            err = str(e)[:100]
        except Exception as e:
            got, err = "Internal:" + type(e).__name__, str(e)[:100]
        finally:
            ARMED["on"] = False
        hist.append({"op": op, "ctx": i + 1, "armed": st["armed"], "spec": exp, "got": got, "err": err,
                     "arg": render(st["patch"]["cfg"], None, partial=(op == "update"), has_schemes=st["patch"]["hasSchemes"]) if op in ("load", "update") else None})
        chk.count((op, exp[0], tuple(sorted(exp[1])) if exp[0] == "error" else "", st["armed"] and exp[0] == "error" and "RuntimeError" in exp[1],
                   i, len(st["live"][i]["schemes"]), len(st["live"][i]["opts"])))
        chk.action(f"{op}->{exp[0]}")
        bad = None
        if exp[0] == "ok" and got != "ok":
            bad = (f"{op}:ok->{got}", f"{op} failed with {got} ({err}); spec accepts it")
        elif exp[0] == "error" and (got == "ok" or got not in exp[1]):
            bad = (f"{op}:{'/'.join(sorted(exp[1]))}->{got}", f"{op} should be refused with {exp[1]}, got {got} {err}")
        if not bad:
            # both objects must now look exactly like the spec's live configurations
            for j in (0, 1):
                if j == 1 and not st["has2"]:
                    continue
                want = norm_dict(render(st["live"][j]))
                if not st["live"][j]["schemes"]:
                    want.pop("schemes", None)
                have = norm_dict(real[j].to_dict())
                if have != want:
                    which = "target" if j == i else "other"
                    state = "after-failure" if exp[0] == "error" else "after-success"
                    bad = (f"{op}:{state}:{which}:to_dict", f"context {j + 1} exports {have}, spec {want}")
                    break
                hp, wp = probe(real[j], T), spec_probe(st["probe"][j], T)
                if hp != wp:
                    which = "target" if j == i else "other"
                    state = "after-failure" if exp[0] == "error" else "after-success"
                    diff = {a: (hp["recs"].get(a), wp["recs"].get(a)) for a in set(hp["recs"]) | set(wp["recs"]) if hp["recs"].get(a) != wp["recs"].get(a)}
                    bad = (f"{op}:{state}:{which}:decisions", f"context {j + 1} decides differently: defaults {hp['defaults']} vs {wp['defaults']}; identify {hp['ident']} vs {wp['ident']}; verify(user=..) {hp['vkw']} vs {wp['vkw']}; records {diff}")
                    break
        if bad:
            chk.violation(bad[0], bad[1], {"history": hist, "step": k})
            return


def split(emits):
    behs, cur = [], None
    for e in emits:
        if e["n"] == 0:
            cur = []
            behs.append(cur)
        cur.append(e)
    return behs


def run(chk):
    warnings.simplefilter("ignore")
    quick = chk.tier == "quick"
    rnd = random.Random(chk.seed)
    T = scheme_table()
    chk.rule = ("S->I: every step of every life-cycle behaviour is executed on two real CryptContext objects; after each step both to_dict() "
                "exports and the decision probe are compared with the spec. non-trivial = distinct (op, outcome, error classes, fault armed, "
                "target object, #schemes, #options) steps")
    R = tlc.Raw
    ex = R('{NoPatch, [hasSchemes |-> TRUE, cfg |-> [NoCfg EXCEPT !.schemes = <<"md5_crypt", "des_crypt">>]], '
           '[hasSchemes |-> TRUE, cfg |-> [NoCfg EXCEPT !.schemes = <<"faulty", "md5_crypt">>, !.depK = [c \\in Cats |-> IF c = "none" THEN "auto" ELSE "unset"]]], '
           '[hasSchemes |-> FALSE, cfg |-> [NoCfg EXCEPT !.def = [c \\in Cats |-> IF c = "admin" THEN "des_crypt" ELSE "unset"]]], '
           '[hasSchemes |-> FALSE, cfg |-> [NoCfg EXCEPT !.def = [c \\in Cats |-> IF c = "none" THEN "bcrypt" ELSE "unset"]]], '
           '[hasSchemes |-> FALSE, cfg |-> [NoCfg EXCEPT !.depK = [c \\in Cats |-> IF c = "none" THEN "list" ELSE "unset"], !.depL = [c \\in Cats |-> IF c = "none" THEN {"md5_crypt"} ELSE {}]]], '
           '[hasSchemes |-> TRUE, cfg |-> [NoCfg EXCEPT !.schemes = <<"sha256_crypt">>, !.opts = [k \\in Cats \\X OptNames |-> IF k = <<"admin", "sha256_crypt">> THEN [NoKw EXCEPT !.minA = 3000, !.maxA = 2500] ELSE NoKw]]]}')
    r = tlc.run_instance("MC_ContextLife", consts_for(T, False, ExPatches=ex, MaxOps=4 if quick else 5), name="C10_mc", invariants=INVS, properties=PROPS,
                         action_constraint="Emit", view="View", coverage=False, timeout=900)
    chk.add_tlc("MC_ContextLife exhaustive over a fixed patch set", r)
    nb = 1500 if quick else 15000
    r = tlc.run_instance("MC_ContextLife", consts_for(T, True), name="C10_sim", invariants=INVS, action_constraint="Emit", next="SimNext",
                         simulate=f"num={nb}", depth=10, seed=chk.seed + 3, workers=1, coverage=False, timeout=1800)
    chk.add_tlc(f"MC_ContextLife simulation ({nb} behaviours x 10 steps)", r)
    behs = split(r.emits)
    for b in behs:
        run_behaviour(chk, T, b, rnd)
        chk.traces += 1
    if behs:
        chk.sample({"behaviour_head": [{"op": s["op"], "ctx": s["i"], "armed": s["armed"], "res": s["res"],
                                        "patch": render(s["patch"]["cfg"], None, has_schemes=s["patch"]["hasSchemes"])} for s in behs[0][:4]]})
    chk.extra["behaviours"] = len(behs)
    string_options(chk)
    same_number_other_type(chk)
    chk.assumptions += ["the fault-injection handler 'faulty' is registered with passlib's registry for the duration of the check (no /repo change)",
                        "percent vary_rounds are limited to whole percents (INI export keeps two decimals)"]


def replay(chk, path):
    v = json.loads(open(path).read())
    print(json.dumps(v["detail"], indent=1)[:6000])
    return 1
