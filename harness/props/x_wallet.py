"""Extension beyond the listed properties: passlib.totp.AppWallet (reading of `secrets` in every presentation, tag rules, default
tag, get_secret) against spec/Wallet.tla, run as part of the C15 check.  TLC proves the properties of the definition over all
sources of the instance and enumerates source -> wallet; every case is built for real (mapping, JSON text, line text - also through
secrets_path) and the whole projected wallet is compared."""
from __future__ import annotations

import json
import os
import tempfile

from .. import tlc

INVS = ["InvShape", "InvKeysValid", "InvDefaultKnown", "InvDefaultMax", "InvFormsAgree", "InvOrderFree", "InvLastWins"]


def _tags(alphabet, n):
    out = [()]
    layer = [()]
    for _ in range(n):
        layer = [t + (c,) for t in layer for c in alphabet]
        out += layer
    return out


def _s(x):
    return "".join(x) if isinstance(x, (list, tuple)) else ""


def _key(p):
    t = _s(p["tag"])
    return int(t) if p["kind"] == "int" else t


def build_source(form, pairs, rnd):
    """the real `secrets` argument for a spec source; (value, is_text)"""
    if form == "none":
        return None, False
    if form == "dict":
        d = {}
        for p in pairs:
            d[_key(p)] = rnd.choice([p["sec"], p["sec"].encode()])
        return d, False
    if form == "list":
        return [(_key(p), p["sec"]) for p in pairs], False
    if form == "json":
        return "{" + ", ".join(f"{json.dumps(_s(p['tag']))}: {json.dumps(p['sec'])}" for p in pairs) + "}", True
    if form == "jsonlist":
        return "[" + ", ".join(f"[{json.dumps(_s(p['tag']))}, {json.dumps(p['sec'])}]" for p in pairs) + "]", True
    if form == "line":
        if not pairs:
            return "", True
        pad = lambda: rnd.choice(["", " ", "  ", "\t"])
        lines = []
        for p in pairs:
            if rnd.random() < 0.2:
                lines.append(rnd.choice(["", "   ", "# note: x", "  #c"]))
            lines.append(f"{pad()}{_s(p['tag'])}{pad()}:{pad()}{p['sec']}{pad()}")
        return "\n".join(lines) + "\n", True
    raise tlc.MachineryError(f"Wallet: unknown form {form}")


def observe(AppWallet, kw, probe_tags):
    try:
        w = AppWallet(**kw)
    except (ValueError, TypeError, KeyError) as ex:
        return {"res": "KeyError" if isinstance(ex, KeyError) else "TypeError" if isinstance(ex, TypeError) else "ValueError"}
    except Exception as ex:  # anything else is not an answer the specification knows
        return {"res": f"{type(ex).__name__}: {ex}"[:80]}
    tab = getattr(w, "_secrets", None)
    out = {"res": "ok", "has": bool(w.has_secrets), "dflt": w.default_tag}
    got = {}
    for t in probe_tags:
        try:
            v = w.get_secret(t)
            got[t] = v.decode() if isinstance(v, bytes) else f"not bytes: {v!r}"
        except KeyError:
            got[t] = "KeyError"
        except Exception as ex:
            got[t] = f"{type(ex).__name__}"
    out["get"] = got
    out["tags"] = list(tab) if isinstance(tab, dict) else None
    return out


def run(chk, quick, rnd):
    try:
        from passlib.totp import AppWallet
    except Exception as ex:
        chk.uncovered.append(f"passlib.totp.AppWallet: {type(ex).__name__}: {ex}"[:120])
        return
    wide = [t for t in _tags(["1", "0", "a", "A", "_", "-", " ", "#"], 2)]
    curated = [tuple(t) for t in ("1", "01", "10", "9", "2", "a", "A", "_a", "a-", "b", "a1", "1a", "z.", "Z")]
    if quick:
        curated = [tuple(t) for t in ("1", "01", "10", "9", "a", "1a")]
    insts = [
        ("wide", dict(TagPool={tuple(t) for t in wide}, Secrets={"s1", "", "x:y"}, MaxPairs=1,
                      Forms={"none", "dict", "json", "line", "list", "jsonlist"}, Dflts={(), ("a",)}, DoEmit=True)),
        ("pairs", dict(TagPool={("1",), ("a",), (" ", "a"), ("#", "a"), ("-",), ()} | (set() if quick else {("a", " "), ("0", "1"), ("A",), ("a", "#"), (" ",), ("_",)}), Secrets={"s1", "", "x:y"}, MaxPairs=2,
                       Forms={"dict", "json", "line"}, Dflts={(), ("a",), ("1",)}, DoEmit=True)),
        ("order", dict(TagPool=set(curated), Secrets={"s1", "s2"}, MaxPairs=3,
                       Forms={"dict", "json", "line"}, Dflts={(), ("1",), ("b",)}, DoEmit=True)),
    ]
    total = 0
    seen_res = {}
    tmp = tempfile.mkdtemp(prefix="wallet_")
    path = os.path.join(tmp, "secrets.txt")
    try:
        for iname, consts in insts:
            r = tlc.run_instance("Wallet", consts, name=f"C15_wallet_{iname}", invariants=INVS + ["EmitInv"], workers=1, coverage=False, timeout=2400)
            chk.add_tlc(f"Wallet[{iname}]: properties of the definition over all sources; every source emitted", r)
            emits = r.emits
            if quick and len(emits) > 14000:
                emits = rnd.sample(emits, 14000)
            pool = sorted({_s(t) for t in consts["TagPool"]})
            for e in emits:
                form, w = e["form"], e["w"]
                pairs = e["src"] if isinstance(e["src"], list) else []
                dflt = _s(e["dflt"]) or None
                want_tags = [_s(t) for t in w["tags"]] if isinstance(w["tags"], list) else []
                want_secs = list(w["secs"]) if isinstance(w["secs"], list) else []
                src, is_text = build_source(form, pairs, rnd)
                kw = {"secrets": src}
                via_path = is_text and rnd.random() < 0.3
                if via_path:
                    with open(path, "w", encoding="utf-8", newline="") as fh:
                        fh.write(src)
                    kw = {"secrets_path": path}
                if dflt is not None:
                    kw["default_tag"] = dflt
                probe = sorted(set(want_tags) | set(rnd.sample(pool, min(3, len(pool)))) | {"zz9"})
                probe = [t for t in probe if t]
                got = observe(AppWallet, kw, probe)
                total += 1
                chk.evaluations += 1
                seen_res[(form, w["res"])] = seen_res.get((form, w["res"]), 0) + 1
                chk.count(("wallet", form, w["res"], len(pairs), len(want_tags), dflt is not None))
                chk.action("wallet:" + form)
                ctx = {"form": form, "source": src if not isinstance(src, dict) else {repr(k): repr(v) for k, v in src.items()},
                       "via_secrets_path": via_path, "default_tag": dflt, "expected": {"res": w["res"], "tags": want_tags, "secrets": want_secs, "default": _s(w["dflt"]) or None}}
                if isinstance(src, list):
                    ctx["source"] = repr(src)
                if got["res"] != w["res"]:
                    chk.violation(f"wallet:outcome:{form}", f"AppWallet({kw!r}) -> {got['res']}, Wallet.tla: {w['res']}", ctx)
                    continue
                if w["res"] != "ok":
                    continue
                want_d = _s(w["dflt"]) or None
                exp_get = {t: (want_secs[want_tags.index(t)] if t in want_tags else "KeyError") for t in probe}
                if got["has"] != bool(w["has"]) or got["dflt"] != want_d:
                    chk.violation(f"wallet:default:{form}", f"AppWallet({kw!r}): default_tag {got['dflt']!r} / has_secrets {got['has']}, Wallet.tla: {want_d!r} / {w['has']}", ctx)
                elif got["get"] != exp_get:
                    chk.violation(f"wallet:get_secret:{form}", f"AppWallet({kw!r}).get_secret: {got['get']}, Wallet.tla: {exp_get}", ctx)
                elif got["tags"] is not None and got["tags"] != want_tags:
                    chk.violation(f"wallet:table:{form}", f"AppWallet({kw!r}) table order {got['tags']}, Wallet.tla: {want_tags}", ctx)
        # secrets and secrets_path together are refused, whatever they hold
        with open(path, "w") as fh:
            fh.write("1: s1\n")
        try:
            AppWallet(secrets={"1": "s1"}, secrets_path=path)
            chk.violation("wallet:both", "AppWallet(secrets=.., secrets_path=..) was accepted", {"source": "both"})
        except TypeError:
            pass
        except Exception as ex:
            chk.violation("wallet:both", f"AppWallet(secrets=.., secrets_path=..) raised {type(ex).__name__}, not a type error", {"source": "both"})
    finally:
        try:
            os.remove(path)
        except OSError:
            pass
        os.rmdir(tmp)
    chk.traces += total
    needed = {("dict", "ok"), ("json", "ok"), ("line", "ok"), ("line", "ValueError"), ("dict", "ValueError"), ("dict", "KeyError"), ("list", "TypeError"), ("none", "ok")}
    missing = needed - set(seen_res)
    if total < 2000 or missing:
        raise tlc.MachineryError(f"Wallet: {total} cases, outcome classes never produced: {sorted(missing)}")
    chk.extra.setdefault("extensions", []).append(
        f"Wallet.tla: AppWallet secrets in six presentations, tag rules, default tag, get_secret ({total} sources executed; outcome classes {len(seen_res)}; beyond the listed properties)")
