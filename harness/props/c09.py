"""C09 - using() gives a hasher that honours its settings; the original is untouched.

spec/Hasher.tla + MC_Hasher.tla.
 1. TLC: exhaustive chains of using() over a small hard window (linear, log2 and "odd" cost kinds, int and
    percent vary_rounds): every derived hasher is well formed, fresh costs lie inside window and hard limits,
    fresh hashes need no update, strict mode never clamps, existing hashers are never modified (frame).
 2. S->I: random behaviours (using / hash / needs_update on any node of the derivation tree) are replayed
    (a) on handlers built in the harness from passlib.utils.handlers mix-ins with exactly the model's limits and
    (b) on the real hashers with the model instantiated from their real limits; after every step the attributes
    of EVERY node (incl. the global passlib.hash object) are compared with the spec tree, fresh hashes are parsed
    back (cost, salt size) with the random source forced, needs_update compared.
"""
from __future__ import annotations

import hashlib
import json
import random
import warnings

from .. import tlc

INVS = ["InvWellFormed", "InvGenInWindow", "InvFreshNoUpdate", "InvSaltInLimits"]
PROPS = ["Frame", "StrictExact"]
UNSET = -1
VKS = tlc.Raw('{<<"unset",0>>,<<"int",1>>,<<"int",3>>,<<"pct",50>>,<<"pct",100>>,<<"pct",25>>}')


def base_expr(hmin, hmax, minD, maxD, d, cost, quirk, varyK="unset", varyV=0):
    return tlc.Raw('[hmin |-> %d, hmax |-> %d, minD |-> %d, maxD |-> %d, def |-> %d, varyK |-> "%s", varyV |-> %d, cost |-> "%s", quirk |-> "%s"]'
                   % (hmin, hmax, minD, maxD, d, varyK, varyV, cost, quirk))


def make_framework_handlers():
    import passlib.utils.handlers as uh
    from passlib.utils.binary import h64

    class _Fw(uh.HasRounds, uh.HasSalt, uh.GenericHandler):
        setting_kwds = ("salt", "salt_size", "rounds")
        checksum_size = 22
        checksum_chars = uh.HASH64_CHARS
        min_salt_size, max_salt_size, default_salt_size = 2, 8, 4
        salt_chars = uh.HASH64_CHARS
        min_rounds, max_rounds, default_rounds = 2, 6, 4

        @classmethod
        def from_string(cls, hash):
            rounds, salt, chk = uh.parse_mc3(hash, cls.ident, handler=cls)
            return cls(rounds=rounds, salt=salt, checksum=chk)

        def to_string(self):
            return uh.render_mc3(self.ident, self.rounds, self.salt, self.checksum)

        def _calc_checksum(self, secret):
            if isinstance(secret, str):
                secret = secret.encode()
            d = hashlib.md5(secret + self.salt.encode() + bytes([self.rounds])).digest()
            return h64.encode_bytes(d).decode()[:22]

    class FwLinear(_Fw):
        name = "verif_fw_linear"
        ident = "$vfl$"
        rounds_cost = "linear"

    class FwLog2(_Fw):
        name = "verif_fw_log2"
        ident = "$vf2$"
        rounds_cost = "log2"

    return {"fw_linear": FwLinear, "fw_log2": FwLog2}


#: real hashers: (name, cost values that are cheap enough to really hash with, quirk)
REAL = [("bcrypt", 5, "none"), ("sha256_crypt", 3000, "none"), ("sha512_crypt", 3000, "none"), ("sha1_crypt", 3000, "none"), ("pbkdf2_sha256", 5000, "none"),
        ("pbkdf2_sha1", 5000, "none"), ("bcrypt", 5, "none"), ("bsdi_crypt", 3001, "odd"), ("phpass", 9, "none"),
        ("md5_crypt", 0, "none"), ("django_pbkdf2_sha256", 5000, "none"), ("ldap_sha256_crypt", 3000, "none"),
        ("grub_pbkdf2_sha512", 3000, "none"), ("fshp", 3000, "none"), ("cta_pbkdf2_sha1", 3000, "none"), ("scram", 3000, "none")]


def handler_facts(h):
    w = getattr(h, "wrapped", h)
    has_rounds = "rounds" in h.setting_kwds
    f = dict(has_rounds=has_rounds)
    if has_rounds:
        f.update(hmin=w.min_rounds, hmax=w.max_rounds or 0, d=w.default_rounds if w.default_rounds is not None else UNSET,
                 cost=w.rounds_cost)
    f["trunc"] = getattr(w, "truncate_size", None)
    f.update(smin=getattr(w, "min_salt_size", 0) or 0, smax=getattr(w, "max_salt_size", 0) or 0,
             sdef=getattr(w, "default_salt_size", None))
    return f


def abstract_node(cls):
    w = getattr(cls, "wrapped", cls)

    def o(x):
        return UNSET if x is None else x
    v = getattr(w, "vary_rounds", None)
    if v is None:
        vk, vv = "unset", 0
    elif isinstance(v, float):
        vk, vv = "pct", round(v * 100)
    else:
        vk, vv = "int", v
    return dict(minD=o(getattr(w, "min_desired_rounds", None)), maxD=o(getattr(w, "max_desired_rounds", None)),
                d=o(getattr(w, "default_rounds", None)), varyK=vk, varyV=vv, sdef=getattr(w, "default_salt_size", None),
                te=bool(getattr(w, "truncate_error", False)) if getattr(w, "truncate_size", None) else False)


def spec_node(t):
    p, s = t["p"], t["s"]
    return dict(minD=p["minD"], maxD=p["maxD"], d=p["def"], varyK=p["varyK"], varyV=p["varyV"], sdef=s["sdef"], te=t["te"])


def parse_rounds_salt(cls, h):
    w = getattr(cls, "wrapped", cls)
    if hasattr(cls, "wrapped"):
        h = cls._unwrap_hash(h)
    o = w.from_string(h)
    salt = getattr(o, "salt", None)
    return getattr(o, "rounds", None), (len(salt) if salt is not None else None)


class ForcedRng:
    """forces passlib's shared random source for the duration of one hash() call"""

    def __init__(self, want):
        self.want = want

    def __enter__(self):
        import passlib.utils as pu
        self.rng = pu.rng
        self.calls = []
        want = self.want

        def randint(a, b):
            self.calls.append((a, b))
            return min(max(want, a), b)
        self.rng.randint = randint
        return self

    def __exit__(self, *a):
        del self.rng.randint


def kwargs_from(kw, size, relaxed, rnd, has_salt):
    out = {}

    def val(v):
        return str(v) if rnd.random() < .25 else v
    for fld, name in (("minA", "min_rounds"), ("minB", "min_desired_rounds"), ("maxA", "max_rounds"), ("maxB", "max_desired_rounds"),
                      ("def", "default_rounds"), ("rounds", "rounds")):
        if kw[fld] != UNSET:
            out[name] = val(kw[fld])
    if kw["varyK"] == "int":
        out["vary_rounds"] = val(kw["varyV"])
    elif kw["varyK"] == "pct":
        out["vary_rounds"] = f"{kw['varyV']}%" if rnd.random() < .5 else kw["varyV"] * 0.01
    if size != UNSET and has_salt:
        out["salt_size" if rnd.random() < .6 else "default_salt_size"] = val(size)
    if relaxed:
        out["relaxed"] = True
    return out


def replay_beh(chk, label, root, beh, facts, cheap, rnd):
    """replay one behaviour on the derivation tree rooted at `root` (node 1)"""
    nodes = {1: root}
    has_salt = facts["sdef"] is not None
    hist = []
    for k, st in enumerate(beh):
        op = st["op"]
        cls = nodes.get(st["node"])
        if cls is None:      # derived from a node the model created beyond MaxNodes: cannot happen
            return
        before = {i: abstract_node(c) for i, c in nodes.items()}
        got = None
        detail = {}
        if op == "using":
            kws = kwargs_from(st["kw"], st["size"], st["relaxed"], rnd, has_salt)
            if st["te"] != "unset":
                kws["truncate_error"] = rnd.choice([st["te"] == "true", st["te"]])
            detail["kwargs"] = {a: repr(b) for a, b in kws.items()}
            try:
                new = cls.using(**kws)
                got = "ok"
            except TypeError as e:
                got, detail["err"] = "TypeError", str(e)[:120]
            except ValueError as e:
                got, detail["err"] = "ValueError", str(e)[:120]
            except Exception as e:
                got, detail["err"] = "Internal:" + type(e).__name__, str(e)[:120]
            exp = st["res"][0]
            if not has_salt and st["size"] != UNSET:
                pass
            if got == "ok" and st["newnode"]:
                nodes[st["newnode"]] = new
        elif op == "hash":
            exp = st["res"][0]
            r = st["r"]
            if exp == "ok" and r > cheap:
                chk.count()
                continue
            try:
                with ForcedRng(st["x"]) as fr:
                    h = cls.hash("pw")
                ivals = [tuple(iv) for iv in st["ivals"]]
                drawn = [c for c in fr.calls]
                rr, ss = parse_rounds_salt(cls, h)
                got = "ok"
                if facts.get("trunc"):
                    from passlib.exc import PasswordTruncateError
                    n = facts["trunc"]
                    # the limit counts BYTES: one byte too many as text, as bytes, as fewer characters of two bytes each, as bytes that are no text
                    probes = [("text", "x" * (n + 1)), ("bytes", b"x" * (n + 1)), ("wide-text", "\xfc" * (n // 2 + 1)), ("non-utf8-bytes", b"\xff\xfe" * (n // 2 + 1))]
                    for pname, ppw in probes:
                        try:
                            cls.hash(ppw[:1] * 2)
                        except Exception:
                            continue            # this kind of password is not admissible for the hasher at all
                        try:
                            with ForcedRng(st["x"]):
                                cls.hash(ppw)
                            refused = False
                        except PasswordTruncateError:
                            refused = True
                        if refused != st["tree"][st["node"] - 1]["te"]:
                            got = f"truncate-policy({pname})=" + str(refused)
                            break
                detail.update(hash=h, rounds=rr, salt_size=ss)
                if rr != r:
                    got = f"rounds={rr}"
                elif any(c not in ivals for c in drawn) or (not drawn and any(a < b for a, b in ivals)):
                    got = f"range={drawn}"
                    detail["spec_intervals"] = ivals
                elif has_salt and ss is not None and ss != st["size"] and facts.get("salt_in_chars", True):
                    got = f"salt_size={ss}"
                elif cls.needs_update(h) != st["fresh_needs"]:
                    # (spec: a fresh hash needs no update, except in the degenerate "odd cost, window without odd number" case)
                    got = "fresh-hash-needs-update" if not st["fresh_needs"] else "fresh-hash-not-flagged"
                elif not cls.verify("pw", h) or cls.verify("pw2", h):
                    got = "fresh-hash-does-not-verify"
            except TypeError as e:
                got, detail["err"] = "TypeError", str(e)[:120]
            except ValueError as e:
                got, detail["err"] = "ValueError", str(e)[:120]
            except Exception as e:
                got, detail["err"] = "Internal:" + type(e).__name__, str(e)[:120]
        else:  # needs
            r = st["r"]
            exp = st["res"][0]
            if r < facts["hmin"] or (facts["hmax"] and r > facts["hmax"]):
                chk.count()
                continue
            tmpl = facts["template"]
            try:
                w = getattr(cls, "wrapped", cls)
                if hasattr(root, "wrapped"):
                    tmpl = root._unwrap_hash(tmpl)
                o = getattr(root, "wrapped", root).from_string(tmpl)
                o.rounds = r
                got = None
                # the stored hash may carry any identifier of the format: the verdict on its cost is the same for each
                for ident in (getattr(type(o), "ident_values", None) or (None,)):
                    if ident == "$2x$":
                        continue                # (documented as not supported)
                    if ident is not None:
                        o.ident = ident
                    hs = o.to_string()
                    if hasattr(cls, "wrapped"):
                        hs = cls._wrap_hash(hs)
                    g1 = "True" if cls.needs_update(hs) else "False"
                    if got is None or g1 != exp:
                        got = g1
                        detail["hash"] = hs
                    if g1 != exp:
                        break
            except Exception as e:
                got, detail["err"] = "Internal:" + type(e).__name__, str(e)[:120]
        hist.append(dict(op=op, node=st["node"], kw={a: b for a, b in st["kw"].items() if b not in (UNSET, "unset", 0)} if op == "using" else None,
                         size=st["size"], relaxed=st["relaxed"], r=st["r"], spec=st["res"], got=got, **detail))
        key = (label if label.startswith("fw") else "real", op, exp, st["relaxed"],
               tuple(sorted(a for a, b in st["kw"].items() if b not in (UNSET, "unset", 0))) if op == "using" else st["r"] - facts["hmin"],
               st["size"] != UNSET, st["node"])
        chk.count(key)
        chk.action(f"{op}->{exp}")
        problems = []
        if got != exp:
            problems.append((f"{op}:{exp}->{got.split('=')[0]}", f"{label}: {op} gave {got}, spec says {exp}"))
        # every node (the new one, its ancestors, the global hasher) must look like the spec tree
        for i, c in nodes.items():
            want = spec_node(st["tree"][i - 1])
            have = abstract_node(c)
            if not has_salt:
                want["sdef"] = have["sdef"]
            if have != want:
                which = "new" if (op == "using" and i == st["newnode"]) else "existing"
                diff = sorted(a for a in want if want[a] != have[a])
                problems.append((f"{which}-node:{','.join(diff)}", f"{label}: node {i} ({which}) has {have}, spec {want}"))
        if problems:
            for kcls, msg in problems[:2]:
                chk.violation(f"{'fw' if label.startswith('fw') else label}:{kcls}", msg,
                              {"hasher": label, "limits": {a: b for a, b in facts.items() if a != "template"}, "history": hist, "step": k})
            return
    return


def split_behaviours(emits):
    behs, cur = [], None
    for e in emits:
        if e["n"] == 0:
            cur = []
            behs.append(cur)
        cur.append(e)
    return behs


def vals_for(f, cheap):
    hmin, hmax, d = f["hmin"], f["hmax"], f["d"]
    V = {hmin, hmin + 1, hmin + 2, hmin + 3}
    if hmin > 0:
        V.add(hmin - 1)
    if f["cost"] == "log2":
        V |= {min(cheap, hmax or cheap), max(hmin, cheap - 1)}
        if hmax and hmax < 2 ** 30:
            V |= {hmax - 1, hmax, hmax + 1}
    else:
        V |= {cheap, cheap - 1, cheap - 7, max(hmin, cheap // 2)}
        if hmax and hmax < 2 ** 31 - 2:
            V |= {hmax - 1, hmax, hmax + 1}
    if d != UNSET and d < 2 ** 31 - 1:
        V.add(d)
    return {v for v in V if 0 <= v < 2 ** 31 - 1}


def run(chk):
    warnings.simplefilter("ignore")
    quick = chk.tier == "quick"
    rnd = random.Random(chk.seed)
    chk.rule = ("S->I: every step of every behaviour is executed on the real class tree and ALL nodes' attributes are compared with the "
                "spec tree; hash() results are parsed back with the random source forced to the cost the spec chose. non-trivial = "
                "distinct (handler kind, op, expected outcome, relaxed, keyword set or cost offset, salt keyword?, node) steps")
    sb = tlc.Raw('[smin |-> 2, smax |-> 8, sdef |-> 4]')
    # 1. exhaustive
    for cost, quirk, vals in (("linear", "none", range(0, 9)), ("log2", "none", {2, 3, 4, 5, 6, 7}), ("linear", "odd", range(1, 8))):
        consts = dict(Base=base_expr(2, 6, UNSET, UNSET, 4, cost, quirk), SBase=sb, Vals=set(vals) if not quick else {1, 2, 3, 5, 6, 7},
                      SVals={0, 2, 5, 8, 9}, Pcts={10, 50, 100}, VKs=VKS, HasTrunc=False, MaxNodes=2, MaxSteps=2, DoEmit=False)
        r = tlc.run_instance("MC_Hasher", consts, name="C09_mc", invariants=INVS, properties=PROPS, action_constraint="Emit", view="View",
                             coverage=False, timeout=3000)
        chk.add_tlc(f"MC_Hasher exhaustive cost={cost} quirk={quirk}", r)
    # 2a. framework handlers with exactly the model's limits
    fw = make_framework_handlers()
    import passlib.hash as PH
    targets = []
    for label, cls in fw.items():
        f = handler_facts(cls)
        f["template"] = cls.hash("pw")
        targets.append((label, cls, f, 6, "none", set(range(0, 9)), {0, 2, 5, 8, 9}))
    for name, cheap, quirk in REAL:
        h = getattr(PH, name)
        f = handler_facts(h)
        if not f["has_rounds"]:
            f.update(hmin=0, hmax=0, d=UNSET, cost="linear")
        f["salt_in_chars"] = name not in ("pbkdf2_sha256", "pbkdf2_sha1", "django_pbkdf2_sha256", "grub_pbkdf2_sha512", "fshp", "cta_pbkdf2_sha1", "scram")
        try:
            kw = {"rounds": max(f["hmin"], min(cheap, 1000) if f["cost"] == "linear" else f["hmin"])} if f["has_rounds"] else {}
            f["template"] = h.using(**kw).hash("pw")
        except Exception as e:
            chk.uncovered.append(f"{name}: cannot make a template hash: {e}")
            continue
        V = vals_for(f, cheap) if f["has_rounds"] else {0}
        SV = {0, f["smin"], f["smin"] + 1, f["smax"], f["smax"] + 1} if f["sdef"] is not None else {0}
        targets.append((name, h, f, cheap, quirk, V, {v for v in SV if v >= 0}))
    nb = (120 if quick else 1200)
    runs = []
    for t in targets:
        label, root, f, cheap, quirk, V, SV = t
        if not f["has_rounds"]:
            continue
        if f["cost"] == "log2" and max(V) > 29:
            # 2^cost must stay a TLC integer when a percentage is applied: hard-maximum edge without percentages,
            # percentages without the edge
            runs.append((t, V, tlc.Raw("{}")))
            runs.append((t, {v for v in V if v <= 29}, {10, 50, 100}))
        else:
            runs.append((t, V, {10, 25, 50, 100} if f["cost"] == "linear" else {10, 50, 100}))
    for ti, ((label, root, f, cheap, quirk, _, SV), V, pcts) in enumerate(runs):
        sexpr = tlc.Raw('[smin |-> %d, smax |-> %d, sdef |-> %d]' % (f["smin"], f["smax"], f["sdef"] if f["sdef"] is not None else 0))
        a0 = abstract_node(root)
        consts = dict(Base=base_expr(f["hmin"], f["hmax"] if f["hmax"] < 2 ** 31 - 1 else 0, a0["minD"], a0["maxD"], a0["d"] if a0["d"] < 2 ** 31 - 1 else UNSET,
                                     f["cost"], quirk, a0["varyK"], a0["varyV"]),
                      SBase=sexpr, Vals=V, SVals=SV, Pcts=pcts, VKs=VKS, HasTrunc=bool(f.get("trunc")), MaxNodes=4, MaxSteps=8, DoEmit=True)
        n = nb * (3 if label.startswith("fw") else 1)
        r = tlc.run_instance("MC_Hasher", consts, name="C09_sim", invariants=INVS, action_constraint="Emit", next="SimNext",
                             simulate=f"num={n}", depth=8, seed=chk.seed + 100 + ti, workers=1, coverage=False, timeout=3000)
        chk.add_tlc(f"MC_Hasher simulation for {label}", r)
        behs = split_behaviours(r.emits)
        for b in behs:
            replay_beh(chk, label, root, b, f, cheap, rnd)
            chk.traces += 1
        if ti == 0 and behs:
            chk.sample({"handler": label, "behaviour_head": [{k: s[k] for k in ("op", "node", "kw", "size", "relaxed", "res", "r")} for s in behs[0][:3]]})
    chk.extra["handlers"] = [t[0] for t in targets]
    from . import c09_kw
    c09_kw.run(chk, quick, rnd)
    chk.assumptions += ["hard maxima >= 2^31-1 (pbkdf2, sha1_crypt) are treated as 'no maximum' (TLC integers are 32-bit)",
                        "hashing is only executed for costs up to a per-hasher cheap bound; larger costs are compared on attributes only"]


def replay(chk, path):
    v = json.loads(open(path).read())
    print(json.dumps(v["detail"], indent=1)[:6000])
    return 1


