"""Thin driver around TLC (tla2tools 1.8.0).

All spec sources live in /verif/spec; generated wrappers / cfg files and TLC's
metadir go to a scratch directory under /verif/out/work (git-ignored), never to
/tmp-only locations that a registered command would need afterwards.
"""
from __future__ import annotations

import json
import os
import re
import shutil
import subprocess
import time
from dataclasses import dataclass, field
from pathlib import Path

VERIF = Path(__file__).resolve().parent.parent
SPEC = VERIF / "spec"
# one scratch directory per process: concurrent checks (other properties, other trees, other tiers) never share TLC work files
WORK = VERIF / "out" / "work" / f"p{os.getpid()}"


def cleanup_work():
    if not os.environ.get("VERIF_KEEP_WORK"):
        shutil.rmtree(WORK, ignore_errors=True)
JARS = "/opt/veriftools/tla/tla2tools.jar:/opt/veriftools/tla/CommunityModules-deps.jar"


class MachineryError(Exception):
    """Raised for failures of the verification machinery itself (exit code 2)."""


@dataclass
class TlcResult:
    generated: int = 0
    distinct: int = 0
    depth: int = 0
    emits: list = field(default_factory=list)
    prints: list = field(default_factory=list)
    coverage: dict = field(default_factory=dict)
    error: str | None = None
    wall_s: float = 0.0
    output: str = ""
    cmd: str = ""


_EMIT = re.compile(r'^<<"EMIT", (".*")>>$')
_STATS = re.compile(r"^(\d+) states generated, (\d+) distinct states found")
_DEPTH = re.compile(r"^The depth of the complete state graph search is (\d+)")
_COV = re.compile(r"^<(\w+) line \d+, col \d+ to line \d+, col \d+ of module (\w+)>: (\d+):(\d+)")
_SIMSTAT = re.compile(r"The number of states generated: (\d+)")


def workdir(name: str) -> Path:
    d = WORK / name
    if d.exists():
        shutil.rmtree(d)
    d.mkdir(parents=True)
    return d


def run(module: str, cfg: str, *, name: str | None = None, workers: int | str = "auto",
        simulate: str | None = None, depth: int | None = None, seed: int | None = None,
        timeout: int = 1800, coverage: bool = True, deadlock: bool = False,
        env: dict | None = None, extra_tla: dict[str, str] | None = None,
        java_props: dict | None = None, expect_ok: bool = True, heap: str = "8g") -> TlcResult:
    """Run TLC on spec/<module>.tla (or a generated module in extra_tla) with cfg text.

    extra_tla maps file names to module text; they are written into the work dir,
    which precedes /verif/spec on the TLA library path.
    """
    wd = workdir(name or module)
    for fn, text in (extra_tla or {}).items():
        (wd / fn).write_text(text)
    src = wd / f"{module}.tla"
    if not src.exists():
        orig = next((d / f"{module}.tla" for d in (SPEC, SPEC / "prim", SPEC / "algo") if (d / f"{module}.tla").exists()), None)
        if orig is None:
            raise MachineryError(f"no such module {module}")
        # TLC resolves the root module relative to cwd; copy root, library for the rest
        shutil.copy(orig, src)
    (wd / f"{module}.cfg").write_text(cfg)
    props = {"TLA-Library": f"{SPEC}:{SPEC / 'prim'}:{SPEC / 'algo'}"}
    props.update(java_props or {})
    cmd = ["java", "-XX:+UseParallelGC", f"-Xmx{heap}", "-Xss64m"]
    cmd += [f"-D{k}={v}" for k, v in props.items()]
    cmd += ["-cp", JARS, "tlc2.TLC", "-metadir", str(wd / "meta"), "-noGenerateSpecTE"]
    cmd += ["-workers", str(workers)]
    if coverage and not simulate:
        cmd += ["-coverage", "1"]
    if not deadlock:
        cmd += ["-deadlock"]
    if simulate is not None:
        cmd += ["-simulate", simulate]
    if depth is not None:
        cmd += ["-depth", str(depth)]
    if seed is not None:
        cmd += ["-seed", str(seed)]
    cmd += ["-config", f"{module}.cfg", f"{module}.tla"]
    e = dict(os.environ)
    e.update(env or {})
    t0 = time.time()
    try:
        p = subprocess.run(cmd, cwd=wd, env=e, capture_output=True, text=True, timeout=timeout)
    except subprocess.TimeoutExpired as ex:
        raise MachineryError(f"TLC timeout after {timeout}s on {module}") from ex
    res = TlcResult(wall_s=time.time() - t0, output=p.stdout + p.stderr, cmd=" ".join(cmd))
    err_lines = []
    for line in p.stdout.splitlines():
        m = _EMIT.match(line)
        if m:
            try:
                res.emits.append(json.loads(json.loads(m.group(1))))
            except Exception as ex:  # pragma: no cover
                raise MachineryError(f"bad EMIT line: {line[:200]}") from ex
            continue
        m = _STATS.match(line)
        if m:
            res.generated, res.distinct = int(m.group(1)), int(m.group(2))
            continue
        m = _DEPTH.match(line)
        if m:
            res.depth = int(m.group(1))
            continue
        m = _COV.match(line)
        if m:
            key = m.group(1)
            d, t = int(m.group(3)), int(m.group(4))
            old = res.coverage.get(key, (0, 0))
            res.coverage[key] = (old[0] + d, old[1] + t)
            continue
        m = _SIMSTAT.search(line)
        if m:
            res.generated = max(res.generated, int(m.group(1)))
        if line.startswith("Error:") or "is violated" in line or "Exception" in line:
            err_lines.append(line)
        elif line.startswith("<<") or line.startswith('"') or line.startswith("["):
            res.prints.append(line)
    if err_lines:
        res.error = "\n".join(err_lines[:6])
    elif p.returncode != 0:
        res.error = f"TLC exit code {p.returncode}"
    (wd / "tlc.out").write_text(res.output)
    if expect_ok and res.error:
        raise MachineryError(f"TLC failed on {module} ({name}): {res.error}\n(see {wd / 'tlc.out'})")
    return res


def tla_seq(xs) -> str:
    return "<<" + ", ".join(tla_val(x) for x in xs) + ">>"


def tla_val(x) -> str:
    """Python value -> TLA+ literal (ints, bools, strs, lists/tuples, sets, dicts with str keys)."""
    if isinstance(x, Raw):
        return str(x)
    if isinstance(x, bool):
        return "TRUE" if x else "FALSE"
    if isinstance(x, int):
        if abs(x) >= 2 ** 31:
            raise MachineryError(f"int {x} exceeds TLC range")
        return str(x)
    if isinstance(x, str):
        return json.dumps(x)
    if isinstance(x, (list, tuple)):
        return tla_seq(x)
    if isinstance(x, (set, frozenset)):
        return "{" + ", ".join(sorted(tla_val(v) for v in x)) + "}"
    if isinstance(x, dict):
        if not x:
            return "<<>>"
        return "[" + ", ".join(f"{k} |-> {tla_val(v)}" for k, v in x.items()) + "]"
    if x is None:
        return '"None"'
    raise MachineryError(f"cannot render {x!r} as TLA+")


def instance(module: str, consts: dict, *, invariants=(), properties=(), action_constraint=None,
             constraint=None, view=None, init="Init", next="Next", postcondition=None, spec=None):
    """Build (root_module_name, extra_tla, cfg_text) for `module` with constants given as TLA+ expressions.

    Constants are defined in a generated wrapper module and substituted with `<-`, so negative
    numbers, tuples and large literal sets are all fine (the cfg parser is limited).
    """
    root = f"I_{module}"
    defs = "\n".join(f"c_{k} == {tla_val(v)}" for k, v in consts.items())
    text = f"---- MODULE {root} ----\nEXTENDS {module}\n{defs}\n====\n"
    lines = []
    if spec:
        lines.append(f"SPECIFICATION {spec}")
    else:
        lines += [f"INIT {init}", f"NEXT {next}"]
    if consts:
        lines.append("CONSTANTS")
        lines += [f"  {k} <- c_{k}" for k in consts]
    lines += [f"INVARIANT {i}" for i in invariants]
    lines += [f"PROPERTY {p}" for p in properties]
    if action_constraint:
        lines.append(f"ACTION_CONSTRAINT {action_constraint}")
    if constraint:
        lines.append(f"CONSTRAINT {constraint}")
    if view:
        lines.append(f"VIEW {view}")
    if postcondition:
        lines.append(f"POSTCONDITION {postcondition}")
    return root, {f"{root}.tla": text}, "\n".join(lines) + "\n"


def run_instance(module, consts, *, name=None, **kw):
    ikeys = ("invariants", "properties", "action_constraint", "constraint", "view", "init", "next", "postcondition", "spec")
    ikw = {k: kw.pop(k) for k in ikeys if k in kw}
    root, extra, cfg = instance(module, consts, **ikw)
    extra.update(kw.pop("extra_tla", None) or {})
    return run(root, cfg, name=name or module, extra_tla=extra, **kw)


class Raw(str):
    """A TLA+ expression given verbatim (not quoted as a string)."""
