"""Deterministic thread scheduler for small concurrency scenarios (C19).

Real Python threads, but exactly one runs at a time.  Yield points are the bytecode instructions of a chosen set of
code objects (sys.monitoring INSTRUCTION events, Python 3.12) plus lock operations of cooperative locks installed in
place of the library's locks.  A schedule is a list of preemptions [(global step, thread to switch to)]; without a
preemption the running thread continues until it finishes or blocks on a lock.  All schedules with at most k
preemptions can be enumerated (preemption-bounded search).
"""
from __future__ import annotations

import sys
import threading

TOOL = 3
E = sys.monitoring.events
_real_RLock = threading.RLock
_real_Lock = threading.Lock


class Deadlock(Exception):
    pass


class Run:
    """one execution of N thread bodies under one schedule"""

    current = None        # the Run in progress (scheduler is process-global)

    def __init__(self, bodies, preemptions, max_steps=20000):
        self.bodies = bodies
        self.n = len(bodies)
        self.pre = dict(preemptions)          # step -> thread
        self.step = 0
        self.sems = [threading.Semaphore(0) for _ in bodies]
        self.done = [False] * self.n
        self.blocked = [None] * self.n        # lock the thread waits for
        self.results = [None] * self.n
        self.trace = []                       # (step, thread, event)
        self.tl = threading.local()
        self.running = None
        self.finished = threading.Event()
        self.max_steps = max_steps
        self.error = None
        self.alive_at = {}                    # step -> tuple of threads that could be switched to

    # ---- called from managed threads -------------------------------------------------
    def me(self):
        return getattr(self.tl, "idx", None)

    def runnable(self, exclude=None):
        return [i for i in range(self.n) if not self.done[i] and self.blocked[i] is None and i != exclude]

    def switch_to(self, t, u):
        """thread t hands the processor to thread u and waits until it is scheduled again"""
        self.running = u
        self.sems[u].release()
        self.sems[t].acquire()
        self.running = t

    def yield_point(self, label):
        t = self.me()
        if t is None or Run.current is not self:
            return
        self.step += 1
        s = self.step
        if s > self.max_steps:
            self.error = "step limit"
            raise Deadlock("step limit exceeded")
        others = self.runnable(exclude=t)
        self.alive_at[s] = tuple(others)
        self.trace.append((s, t, label))
        u = self.pre.get(s)
        if u is not None and u in others:
            self.trace.append((s, t, f"preempted->{u}"))
            self.switch_to(t, u)

    def block_on(self, lock):
        """current thread cannot take `lock`: let somebody else run"""
        t = self.me()
        self.blocked[t] = lock
        others = self.runnable(exclude=t)
        if not others:
            self.error = "deadlock"
            self.blocked[t] = None
            raise Deadlock(f"thread {t} waits for a lock nobody can release")
        self.trace.append((self.step, t, "blocks-on-lock"))
        self.switch_to(t, others[0])

    def thread_main(self, i):
        self.tl.idx = i
        self.sems[i].acquire()
        self.running = i
        try:
            self.results[i] = ("ok", self.bodies[i]())
        except Deadlock as e:
            self.results[i] = ("deadlock", str(e))
        except BaseException as e:       # noqa: BLE001 - the scenario's outcome
            self.results[i] = ("error", type(e).__name__, str(e)[:160])
        finally:
            self.done[i] = True
            self.trace.append((self.step, i, "finished"))
            nxt = self.runnable()
            if nxt:
                self.running = nxt[0]
                self.sems[nxt[0]].release()
            elif all(self.done):
                self.finished.set()
            else:
                # everybody left is blocked on a lock: wake them so that they can notice
                waiting = [k for k in range(self.n) if not self.done[k]]
                for k in waiting:
                    self.blocked[k] = None
                self.running = waiting[0]
                self.sems[waiting[0]].release()

    def execute(self, timeout=20):
        Run.current = self
        ths = [threading.Thread(target=self.thread_main, args=(i,), daemon=True) for i in range(self.n)]
        for t in ths:
            t.start()
        self.running = 0
        self.sems[0].release()
        ok = self.finished.wait(timeout)
        Run.current = None
        if not ok:
            self.error = self.error or "timeout"
            for i in range(self.n):            # let stuck threads die
                self.sems[i].release()
        for t in ths:
            t.join(0.5)
        return self


class SchedLock:
    """re-entrant lock that cooperates with the scheduler (drop-in for threading.RLock / Lock)"""

    def __init__(self, *a, **k):
        self.owner = None
        self.count = 0
        self._real = _real_RLock()

    def acquire(self, blocking=True, timeout=-1):
        run = Run.current
        t = run.me() if run else None
        if t is None:
            return self._real.acquire(blocking, timeout)
        run.yield_point("lock.acquire")
        while self.owner is not None and self.owner != t:
            if not blocking:
                return False
            run.block_on(self)
        self.owner = t
        self.count += 1
        return True

    def release(self):
        run = Run.current
        t = run.me() if run else None
        if t is None:
            return self._real.release()
        self.count -= 1
        if self.count == 0:
            self.owner = None
            for k in range(run.n):
                if run.blocked[k] is self:
                    run.blocked[k] = None
        run.yield_point("lock.release")

    __enter__ = acquire

    def __exit__(self, *a):
        self.release()

    def _is_owned(self):
        return self.owner is not None


def _cb(code, offset):
    run = Run.current
    if run is not None:
        run.yield_point(f"{code.co_name}@{offset}")


_installed = set()


def instrument(code_objects):
    """(re-)install INSTRUCTION monitoring on exactly these code objects"""
    mon = sys.monitoring
    if mon.get_tool(TOOL) is None:
        mon.use_tool_id(TOOL, "verif-sched")
        mon.register_callback(TOOL, E.INSTRUCTION, _cb)
    for c in list(_installed):
        if c not in code_objects:
            mon.set_local_events(TOOL, c, 0)
            _installed.discard(c)
    for c in code_objects:
        if c not in _installed:
            mon.set_local_events(TOOL, c, E.INSTRUCTION)
            _installed.add(c)


def uninstrument():
    instrument([])


def explore(make_bodies, bound, budget=None, rnd=None, sample_second=None):
    """enumerate schedules with <= bound preemptions, level by level (every single preemption before any pair, so that a budget
    never cuts off the late positions of a long initialisation); yields (preemptions, Run).
    make_bodies() must return fresh thread bodies over a fresh object each time.
    budget: maximal number of runs; sample_second: if set, at depth >= 2 only this many random positions are tried per parent."""
    level = [[]]
    runs = 0
    depth = 0
    while level:
        nxt = []
        for pre in level:
            r = Run(make_bodies(), pre).execute()
            runs += 1
            yield pre, r
            if budget is not None and runs >= budget:
                return
            if len(pre) < bound and r.error is None:
                last = pre[-1][0] if pre else 0
                cands = []
                for s in range(last + 1, r.step + 1):
                    for u in r.alive_at.get(s, ()):
                        cands.append(pre + [(s, u)])
                if pre and sample_second is not None and rnd is not None and len(cands) > sample_second:
                    cands = rnd.sample(cands, sample_second)
                nxt.extend(cands)
        depth += 1
        if depth == 1 and budget is not None and rnd is not None and len(nxt) > (budget - runs) * 3 // 4:
            nxt = sorted(rnd.sample(nxt, max(1, (budget - runs) * 3 // 4)))     # too long for the budget: positions sampled over the whole run
        if depth >= 2 and rnd is not None:
            rnd.shuffle(nxt)             # the budget may end inside this level: spread it over all parents
        level = nxt
