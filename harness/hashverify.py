"""Shared binding of spec/HashVerify.tla to every hasher the library ships (C01 and C05)."""
from __future__ import annotations

import json
import random
import warnings

from . import tlc

INVS = ["InvSelf", "InvExact", "InvExactPlain", "InvDisabled", "InvNoSilentTruncation", "InvTruncBytes", "InvSize", "InvNul"]
SYMS = {"a": b"a", "A": b"A", "b": b"b", "sp": b" ", "hi": b"\xe1", "m2": "é".encode(), "nul": b"\x00", "tb": b"\t", "nl": b"\n", "ff": b"\x0c"}
HOW_CTR = [0]
BLANK_SYMS = {"tb", "nl", "ff"}          # only enumerated for the class that ignores blanks


def cls_expr(i, trunc=0, strip8=False, fold=False, blanks=False, nul="allow", reject=False, disabled=False):
    return '[id |-> "%s", trunc |-> %d, strip8 |-> %s, fold |-> %s, blanks |-> %s, nul |-> "%s", reject |-> %s, disabled |-> %s]' % (
        i, trunc, *(str(x).upper() for x in (strip8, fold, blanks)), nul, str(reject).upper(), str(disabled).upper())


#: model classes (trunc = TM model bytes stands for the real limit; γ places it with a filler prefix).  TM is 3 in the thorough tier
#: (passwords of up to 3 model symbols) and 2 in the quick tier (up to 2 symbols), so that one-byte symbols cross the limit in both
TM = [3]


def classes():
    t = TM[0]
    return {
        "exact": cls_expr("exact"), "exact_nulrej": cls_expr("exact_nulrej", nul="reject"),
        "trunc": cls_expr("trunc", trunc=t, nul="reject"), "trunc_nulok": cls_expr("trunc_nulok", trunc=t),
        "des": cls_expr("des", trunc=t, strip8=True, nul="reject"), "des_all": cls_expr("des_all", strip8=True, nul="reject"),
        "lm": cls_expr("lm", trunc=t, fold=True), "fold": cls_expr("fold", fold=True), "blanks": cls_expr("blanks", blanks=True),
        "reject": cls_expr("reject", trunc=t, reject=True), "dis": cls_expr("dis", disabled=True),
    }


class _Classes(dict):
    def __getitem__(self, k):
        return classes()[k]


CLASSES = _Classes()

#: documented class of every hasher: (model class, real limit, flags)   flags: t = text only (bytes must be valid UTF-8 / ASCII),
#: n = NUL policy undocumented (either answer accepted), u = needs user, e = needs encoding-safe symbols only (no multi-byte)
TABLE = {
    "des_crypt": ("des", 8, ""), "ldap_des_crypt": ("des", 8, ""), "django_des_crypt": ("des", 8, ""), "crypt16": ("des", 16, ""),
    "bigcrypt": ("des_all", 0, ""), "bsdi_crypt": ("des_all", 0, ""), "ldap_bsdi_crypt": ("des_all", 0, ""),
    "bcrypt": ("trunc", 72, ""), "ldap_bcrypt": ("trunc", 72, ""), "django_bcrypt": ("trunc", 72, ""),
    "bcrypt_sha256": ("exact", 0, ""), "django_bcrypt_sha256": ("exact", 0, ""),
    "md5_crypt": ("exact_nulrej", 0, ""), "apr_md5_crypt": ("exact_nulrej", 0, ""), "ldap_md5_crypt": ("exact_nulrej", 0, ""),
    "sha1_crypt": ("exact_nulrej", 0, ""), "ldap_sha1_crypt": ("exact_nulrej", 0, ""),
    "sha256_crypt": ("exact_nulrej", 0, ""), "sha512_crypt": ("exact_nulrej", 0, ""), "ldap_sha256_crypt": ("exact_nulrej", 0, ""),
    "ldap_sha512_crypt": ("exact_nulrej", 0, ""), "sun_md5_crypt": ("exact", 0, ""),
    "lmhash": ("lm", 14, "tez"), "cisco_pix": ("reject", 16, "uz"), "cisco_asa": ("reject", 32, "uz"),
    "mysql323": ("blanks", 0, ""), "mssql2000": ("fold", 0, "t"), "oracle10": ("fold", 0, "tuz"),
    "unix_disabled": ("dis", 0, ""), "django_disabled": ("dis", 0, ""),
    "nthash": ("exact", 0, "t"), "bsd_nthash": ("exact", 0, "t"), "msdcc": ("exact", 0, "tu"), "msdcc2": ("exact", 0, "tu"),
    "mssql2005": ("exact", 0, "t"), "oracle11": ("exact", 0, "t"), "postgres_md5": ("exact", 0, "u"), "htdigest": ("exact", 0, "ur"),
    "scram": ("exact", 0, "tz"), "cisco_type7": ("exact", 0, ""), "ldap_plaintext": ("exact", 0, "tp"), "plaintext": ("exact", 0, "tp"),
    "roundup_plaintext": ("exact", 0, "tp"),
}
#: HMAC zero-pads its key: for formats that key an HMAC with the password, trailing NUL bytes are equivalent by the
#: published construction (RFC 2104) - NUL symbols are not used for them
for _n in ("pbkdf2_sha1", "pbkdf2_sha256", "pbkdf2_sha512", "ldap_pbkdf2_sha1", "ldap_pbkdf2_sha256", "ldap_pbkdf2_sha512", "django_pbkdf2_sha1",
           "django_pbkdf2_sha256", "grub_pbkdf2_sha512", "atlassian_pbkdf2_sha1", "cta_pbkdf2_sha1", "dlitz_pbkdf2_sha1", "fshp", "scrypt", "msdcc2"):
    TABLE[_n] = ("exact", 0, "z" + TABLE.get(_n, ("", 0, ""))[2])
DEFAULT = ("exact", 0, "")
CHEAP = {"scrypt": dict(rounds=1), "argon2": None, "django_argon2": None}


def error_class(e):
    from passlib import exc
    if isinstance(e, exc.PasswordTruncateError):
        return "TruncateError"
    if isinstance(e, exc.PasswordSizeError):
        return "SizeError"
    if isinstance(e, ValueError) and "NULL" in str(e).upper():
        return "NullError"
    if isinstance(e, (ValueError, TypeError)):
        return "Other:" + type(e).__name__
    return "Internal:" + type(e).__name__


def emit_cases(chk, klass, mode, quick, seed):
    """TLC: all (p, near q) pairs for one model class; returns the emitted transitions grouped by (te, p)"""
    consts = dict(Classes=tlc.Raw("{" + CLASSES[klass] + "}"), Sy=set(SYMS) - (set() if klass == "blanks" else BLANK_SYMS), MaxP=2 if quick else 3, MaxLen=TM[0] if mode == "size" else 50, DoEmit=True)
    r = tlc.run_instance("MC_HashVerify", consts, name=f"{chk.pid}_emit", invariants=INVS, action_constraint="Emit", workers=1, coverage=False, timeout=1800)
    chk.add_tlc(f"MC_HashVerify emitting class={klass} mode={mode}", r)
    groups = {}
    for e in r.emits:
        k = (e["te"], tuple(e["p"]))
        g = groups.setdefault(k, {"hash": None, "verifies": []})
        if e["v"] == "pending":
            g["hash"] = e["h"]
        else:
            g["verifies"].append((tuple(e["q"]), e["v"]))
    return groups


def concretise(p, filler, text_ok):
    raw = filler + b"".join(SYMS[s] for s in p)
    return raw


def handlers(chk, only=None):
    from passlib import registry
    out = []
    for name in sorted(registry.list_crypt_handlers()):
        if only and name not in only:
            continue
        try:
            h = registry.get_crypt_handler(name)
            if hasattr(h, "has_backend") and not h.has_backend():
                chk.uncovered.append(f"{name}: no backend on this host")
                continue
        except Exception as e:
            chk.uncovered.append(f"{name}: {type(e).__name__}")
            continue
        out.append((name, h))
    return out


def cheap_settings(name, h):
    w = getattr(h, "wrapped", h)
    kw = {}
    if "rounds" in h.setting_kwds:
        if name == "scrypt":
            kw["rounds"] = 1
        elif w.rounds_cost == "log2":
            kw["rounds"] = w.min_rounds
        else:
            kw["rounds"] = max(w.min_rounds, 1) if w.min_rounds > 1000 or (w.max_rounds or 10 ** 9) < 1000 else max(w.min_rounds, 1)
    return kw


def libpass_hashers():
    from libpass.hashers.sha_crypt import SHA256Hasher, SHA512Hasher
    from libpass.hashers.pbkdf2 import PBKDF2SHA256Handler, PBKDF2SHA512Handler
    from libpass.hashers.bcrypt import BcryptHasher, BcryptSHA256Hasher
    return [("libpass.SHA256Hasher", SHA256Hasher(rounds=1000), "exact"), ("libpass.SHA512Hasher", SHA512Hasher(rounds=1000), "exact"),
            ("libpass.PBKDF2SHA256", PBKDF2SHA256Handler(rounds=1), "exact"), ("libpass.PBKDF2SHA512", PBKDF2SHA512Handler(rounds=1), "exact"),
            ("libpass.BcryptHasher", BcryptHasher(rounds=4), "exact72"), ("libpass.BcryptSHA256Hasher", BcryptSHA256Hasher(rounds=4), "exact")]


def disabled_marker_edges(chk, name, h):
    """disabled-account hashers configured with their own marker (text or bytes): hash() is that marker as ASCII text, identified, and nothing verifies"""
    if "marker" not in getattr(h, "setting_kwds", ()):
        return
    for marker in ("*", "!", "*LK*", b"*LK*", b"!", "!locked"):
        chk.count((name, "marker", repr(marker)))
        chk.action("disabled-marker")
        try:
            hh = h.using(marker=marker)
            got = hh.hash("pw")
            want = marker.decode() if isinstance(marker, bytes) else marker
            facts = (got == want and isinstance(got, str), hh.identify(got), hh.verify("pw", got), hh.verify("", got), hh.verify(want, got))
            d2 = hh.disable("$1$abcdefgh$IQtUouv7y7Q9dRWkQEPCc.") if hasattr(hh, "disable") else want + "x"
            facts += (isinstance(d2, str) and d2.startswith(want), hh.verify("pw", d2))
        except Exception as e:
            facts = f"{type(e).__name__}: {e}"[:100]
        chk.evaluations += 5
        if facts != (True, True, False, False, False, True, False):
            chk.violation(f"{name}:edge:marker", f"{name}.using(marker={marker!r}): hash()==marker as text / identify / verify(pw) / verify('') / verify(marker) / disable(hash) keeps marker / verify = {facts}",
                          {"hasher": name, "marker": repr(marker)})
            break


def edge_passwords(chk, name, h, w, klass, flags):
    """the shortest passwords (p = <<>>, <<a>> and the near miss <<a, b>> of the model) under EVERY ident / variant of the hasher,
    without the filler prefix the truncating classes otherwise get"""
    if klass == "dis":
        return
    # ($2x$ is recognised but documented as not supported for hashing)
    idents = [i for i in (getattr(w, "ident_values", None) or [None]) if i != "$2x$"]
    ctxkw = {}
    if "u" in flags:
        ctxkw["user"] = "user"
    if "r" in flags:
        ctxkw["realm"] = "realm"
    base = cheap_settings(name, h)
    combos = [dict(ident=i) if i else {} for i in idents] + VARIANTS.get(name, [])
    for extra in combos:
        ident = extra.get("ident") or ",".join(f"{k}={v}" for k, v in extra.items()) or None
        kw = dict(base)
        kw.update(extra)
        try:
            hh = h.using(**kw) if kw else h
        except Exception:
            continue
        for pw, other in ((b"", b"a"), (b"a", b"ab"), (b"a", b"")):
            if "p" in flags and not pw:
                continue
            chk.count((name, "edge", ident or "", len(pw), len(other)))
            chk.action("edge")
            try:
                stored = hh.hash(pw, **ctxkw)
                res = (hh.verify(pw, stored, **ctxkw), hh.verify(other, stored, **ctxkw), h.verify(pw, stored, **ctxkw))
            except Exception as e:
                chk.violation(f"{name}:edge:{ident or '-'}:{type(e).__name__}", f"{name} (ident {ident}): hashing / verifying the {len(pw)}-byte password raised {type(e).__name__}: {e}",
                              {"hasher": name, "ident": ident, "password": repr(pw), "other": repr(other)})
                continue
            chk.evaluations += 3
            # the older entry points compute the same function: genhash(pw, stored) reproduces stored, for another password it does not
            if hasattr(hh, "genhash") and res == (True, False, True) and name not in ("django_disabled", "unix_disabled"):
                try:
                    g1, g2 = hh.genhash(pw, stored, **ctxkw), hh.genhash(other, stored, **ctxkw)
                    if isinstance(g1, bytes):
                        g1, g2 = g1.decode("ascii"), g2.decode("ascii")
                    if g1 != stored or g2 == stored:
                        chk.violation(f"{name}:edge:genhash", f"{name} (ident {ident}): genhash(pw, hash) {'differs from' if g1 != stored else 'equals'} the hash / genhash(other, hash) {'equals' if g2 == stored else 'differs from'} it",
                                      {"hasher": name, "ident": ident, "hash": stored, "genhash": g1})
                except Exception as e:
                    chk.violation(f"{name}:edge:genhash:{type(e).__name__}", f"{name} (ident {ident}): genhash(pw, its own hash) raised {type(e).__name__}: {e}", {"hasher": name, "hash": stored})
            if res != (True, False, True):
                chk.violation(f"{name}:edge:{ident or '-'}:{res}", f"{name} (ident {ident}): password {pw!r} / near miss {other!r} verify as {res}", {"hasher": name, "ident": ident, "hash": stored})


def expanding_fold_edges(chk, name, h, flags):
    """case-folding formats: passwords that differ in a character are different passwords also when folding the case makes the text
    longer (sharp s) or the differing character sits right behind an internal block boundary (7 characters for LM)"""
    ctxkw = {"user": "user"} if "u" in flags else {}
    pairs = [("Stra\xdfe1", "Stra\xdfe2"), ("\xdf" * 6 + "a", "\xdf" * 6 + "b"), ("abcdefg", "abcdefh"), ("abcdef\xdf", "abcdefs"), ("\xdfbcdefg1", "\xdfbcdefg2"),
             ("abcdefgh", "abcdefgi"), ("abcdef\xe9", "abcdef\xe4")]
    for a, b in pairs:
        chk.count((name, "expanding-fold", a))
        chk.action("expanding-fold")
        try:
            ha, hb = h.hash(a, **ctxkw), h.hash(b, **ctxkw)
            res = (h.verify(a, ha, **ctxkw), h.verify(b, ha, **ctxkw), h.verify(b, hb, **ctxkw), h.verify(a, hb, **ctxkw))
        except Exception as e:
            res = f"{type(e).__name__}: {e}"[:100]
        chk.evaluations += 4
        if res != (True, False, True, False):
            chk.violation(f"{name}:edge:fold:{res}", f"{name}: passwords {a!r} / {b!r} (they differ in one character) hash and cross-verify as {res}",
                          {"hasher": name, "passwords": [a, b]})


#: settings under which the shortest passwords are tried as well (one hash + verify each)
VARIANTS = {"scrypt": [dict(block_size=64), dict(parallelism=65), dict(block_size=1, parallelism=1), dict(ident="$7$", block_size=64), dict(ident="$7$", parallelism=65),
                       dict(ident="$7$", block_size=4096 + 7)], "fshp": [dict(variant=0), dict(variant=2), dict(variant=3)],
            "bcrypt_sha256": [dict(version=1)], "sun_md5_crypt": [dict(rounds=0)], "phpass": [dict(ident="H")], "sha256_crypt": [dict(rounds=5000)],
            "pbkdf2_sha256": [dict(salt_size=0)], "ldap_salted_sha1": [dict(salt_size=4), dict(salt_size=16)], "cisco_type7": [dict(salt=0), dict(salt=52)]}


def policy_edges(chk, name, h, w, klass, limit, flags):
    """C05 edges stated by the class record, tried explicitly for every hasher (text and bytes forms):
    NUL is refused wherever it stands (nul = "reject"); a truncation policy switched on and off again is off;
    a context containing a disabled-account handler still applies the size limit and the type check"""
    from passlib.context import CryptContext
    ctxkw = {}
    if "u" in flags:
        ctxkw["user"] = "user"
    if "r" in flags:
        ctxkw["realm"] = "realm"
    base = cheap_settings(name, h)
    try:
        hh = h.using(**base) if base else h
    except Exception:
        return
    klass_rec = CLASSES[klass]
    if 'nul |-> "reject"' in klass_rec and "z" not in flags:
        good = hh.hash("abc", **ctxkw)
        for pw in ("a\0b", "\0", "abcdefgh\0", "x" * 20 + "\0", "\0abc"):
            for form in (pw, pw.encode()):
                for op in ("hash", "verify"):
                    chk.count((name, "nul-edge", op, type(form).__name__, pw.index("\0") >= 8))
                    chk.action("nul-edge")
                    try:
                        r = hh.hash(form, **ctxkw) if op == "hash" else hh.verify(form, good, **ctxkw)
                        got = "ok" if op == "hash" else str(r)
                    except Exception as e:
                        got = error_class(e)
                    chk.evaluations += 1
                    if got != "NullError":
                        chk.violation(f"{name}:{op}:NullError->{got}:nul-edge", f"{name}.{op} of a {type(form).__name__} password with NUL at index {pw.index(chr(0))} gave {got}, spec says NullError",
                                      {"hasher": name, "password": repr(form), "op": op})
    if klass in ("des", "trunc", "lm") and "truncate_error" in h.setting_kwds:
        # switched on, then off again on the derived hasher / through a context that overrides a strict hasher object
        long_pw = b"x" * (limit + 1)
        short_pw = long_pw[:limit]
        strict = hh.using(truncate_error=True)
        routes = {"using(on).using(off)": lambda: strict.using(truncate_error=False),
                  "context over a strict hasher object": lambda: CryptContext(schemes=[strict], **{f"{name}__truncate_error": False}).handler(name),
                  "using(off).using(on).using(off)": lambda: hh.using(truncate_error=False).using(truncate_error=True).using(truncate_error=False)}
        for label, mk in routes.items():
            chk.count((name, "te-off", label))
            chk.action("te-off")
            try:
                off = mk()
                st = off.hash(long_pw, **ctxkw)
                got = ("ok", off.verify(short_pw, st, **ctxkw))
            except Exception as e:
                got = (error_class(e), None)
            chk.evaluations += 1
            if got != ("ok", True):
                chk.violation(f"{name}:te-off:{got[0]}", f"{name}: truncate_error switched off again ({label}): hashing {limit + 1} bytes gave {got}; spec: truncates silently", {"hasher": name, "route": label})
        try:
            strict.hash(long_pw, **ctxkw)
            got = "ok"
        except Exception as e:
            got = error_class(e)
        if got != "TruncateError":
            chk.violation(f"{name}:te-on:{got}", f"{name}.using(truncate_error=True).hash of {limit + 1} bytes gave {got}", {"hasher": name})
    if klass == "dis":
        other = "md5_crypt"
        for order in ([name, other], [other, name]):
            cc = CryptContext(schemes=order)
            for stored in ("!", "*" if name == "unix_disabled" else "!x", cc.disable()):
                if not cc.identify(stored):
                    continue
                for secret, want in ((b"x" * 4097, "SizeError"), ("y" * 4097, "SizeError"), (None, "Other:TypeError"), (1, "Other:TypeError"), ("pw", "False")):
                    for op in ("verify", "verify_and_update"):
                        chk.count((name, "dis-ctx", op, want, order[0] == name))
                        chk.action("disabled-context")
                        try:
                            r = getattr(cc, op)(secret, stored)
                            got = str(r if op == "verify" else r[0])
                        except Exception as e:
                            got = error_class(e)
                        chk.evaluations += 1
                        if got != want:
                            chk.violation(f"{name}:ctx-{op}:{want}->{got}", f"CryptContext({order}).{op}({type(secret).__name__} secret of {len(secret) if hasattr(secret, '__len__') else '-'}, {stored!r}) gave {got}, spec {want}",
                                          {"schemes": order, "stored": stored, "secret_type": type(secret).__name__})


def size_and_form_edges(chk, name, h, w, klass, flags):
    """a password of exactly the maximum size is still a password; a text password and its UTF-8 bytes are the same password -
    also when the format prepares the text first (SASLprep)"""
    if klass in ("dis",) or "p" in flags:
        return
    ctxkw = {}
    if "u" in flags:
        ctxkw["user"] = "user"
    if "r" in flags:
        ctxkw["realm"] = "realm"
    base = cheap_settings(name, h)
    try:
        hh = h.using(**base) if base else h
    except Exception:
        return
    from passlib.utils import MAX_PASSWORD_SIZE
    if klass in ("exact", "exact_nulrej", "fold", "blanks") and name not in ("scram",) and "t" not in flags and "e" not in flags:
        big = b"x" * (MAX_PASSWORD_SIZE - 1) + b"y"
        chk.count((name, "max-size"))
        chk.action("max-size")
        try:
            st = hh.hash(big, **ctxkw)
            res = (hh.verify(big, st, **ctxkw), hh.verify(big[:-1] + b"z", st, **ctxkw), hh.verify(big[:-1], st, **ctxkw))
        except Exception as e:
            res = error_class(e)
        chk.evaluations += 3
        if res != (True, False, False):
            chk.violation(f"{name}:max-size:{res}", f"{name}: a password of exactly {MAX_PASSWORD_SIZE} bytes (the documented maximum): hash/verify gave {res}, spec (True, False, False)", {"hasher": name})
    if "e" not in flags and klass in ("exact", "exact_nulrej"):
        for text in ("I\u2168 e\u0301", "caf\xe9 \u20ac", "x\u00ady\u2113"):
            chk.count((name, "text-vs-bytes"))
            chk.action("text-vs-bytes")
            raw = text.encode("utf-8")
            try:
                a, b = hh.hash(text, **ctxkw), hh.hash(raw, **ctxkw)
                res = (hh.verify(raw, a, **ctxkw), hh.verify(text, b, **ctxkw), hh.verify(raw + b"!", a, **ctxkw))
            except Exception as e:
                if "t" in flags:
                    continue          # text-only formats may refuse bytes that are not plain ASCII
                res = error_class(e)
            chk.evaluations += 3
            if res != (True, True, False):
                chk.violation(f"{name}:text-vs-bytes:{res}", f"{name}: the text password {text!r} and its UTF-8 bytes verify against each other's hashes as {res}", {"hasher": name, "text": text})


FIRST_USE_CHILD = r'''
import sys, json, warnings, logging
warnings.simplefilter("ignore"); logging.disable(logging.WARNING)
sys.path.insert(0, %r)
name, order = json.loads(sys.stdin.read())
from passlib import registry
h = registry.get_crypt_handler(name)
kw = {"rounds": 4} if "rounds" in h.setting_kwds else {}
out = []
if order == "hash-first":
    s = h.using(**kw).hash("first pw")
    out = [h.verify("first pw", s), h.verify("other", s)]
else:
    good = %r[name]
    out = [h.verify("first pw", good), h.verify("other", good)]
print(json.dumps(out))
'''


def first_use_edges(chk):
    """the very first operation of a fresh interpreter (nothing loaded yet) on hashers layered over a lazily loaded backend"""
    import subprocess
    import sys
    import json as _json
    from passlib import registry
    names = ["bcrypt_sha256", "django_bcrypt_sha256", "bcrypt", "ldap_bcrypt"]
    good = {}
    for n in names:
        try:
            good[n] = registry.get_crypt_handler(n).using(rounds=4).hash("first pw")
        except Exception:
            pass
    for n in good:
        for order in ("hash-first", "verify-first"):
            chk.count((n, "first-use", order))
            chk.action("first-use")
            src = FIRST_USE_CHILD % (chk.repo, good)
            p = subprocess.run([sys.executable, "-c", src], input=_json.dumps([n, order]), capture_output=True, text=True, timeout=120)
            try:
                res = _json.loads(p.stdout.strip().splitlines()[-1])
            except Exception:
                res = ["child failed", p.stderr[-200:]]
            chk.evaluations += 2
            if res != [True, False]:
                chk.violation(f"{n}:first-use:{order}", f"{n}: as the first operation of a fresh interpreter ({order}) the right / a wrong password verify as {res}", {"hasher": n, "order": order})


def encoding_edges(chk, name, h, flags):
    """hashers taking an `encoding` context keyword: a text password and its encoded bytes are the same password"""
    if "encoding" not in getattr(h, "context_kwds", ()):
        return
    ctxkw = {}
    if "user" in h.context_kwds:
        ctxkw["user"] = "us\xe9r"
    if "realm" in h.context_kwds:
        ctxkw["realm"] = "r\xe9alm"
    for enc in ("latin-1", "utf-8", "cp1252"):
        for text in ("caf\xe9", "p\xe4ss w\xf6rd", "plain"):
            chk.count((name, "encoding", enc))
            chk.action("encoding")
            try:
                raw = text.encode(enc)
                a = h.hash(text, encoding=enc, **ctxkw)
                b = h.hash(raw, encoding=enc, **ctxkw)
                res = (h.verify(raw, a, encoding=enc, **ctxkw), h.verify(text, b, encoding=enc, **ctxkw), h.verify(text + "x", a, encoding=enc, **ctxkw))
            except Exception as e:
                chk.violation(f"{name}:encoding:{type(e).__name__}", f"{name} with encoding={enc}: {type(e).__name__}: {e}", {"hasher": name, "encoding": enc, "text": text})
                continue
            chk.evaluations += 3
            if res != (True, True, False):
                chk.violation(f"{name}:encoding:{enc}:{res}", f"{name} with encoding={enc}: text {text!r} and its encoded bytes verify against each other's hashes as {res[:2]} (extension: {res[2]})",
                              {"hasher": name, "encoding": enc, "text": text, "hash_of_text": a, "hash_of_bytes": b})


def run_shared(chk, focus):
    """focus = "C01": every hasher, all classes, near misses;  "C05": truncation / size / NUL policies"""
    warnings.simplefilter("ignore")
    quick = chk.tier == "quick"
    rnd = random.Random(chk.seed)
    from passlib.context import CryptContext
    TM[0] = 2 if quick else 3
    # 1. exhaustive model check over the class lattice
    lattice = tlc.Raw("{" + ", ".join(classes().values()) + "}")
    r = tlc.run_instance("MC_HashVerify", dict(Classes=lattice, Sy=set(SYMS) - BLANK_SYMS, MaxP=2 if quick else 3, MaxLen=5, DoEmit=False), name=f"{chk.pid}_mc",
                         invariants=INVS, action_constraint="Emit", coverage=False, timeout=1800)
    chk.add_tlc("MC_HashVerify exhaustive over the class lattice (all passwords x all near misses)", r)
    hs = handlers(chk)
    if focus == "C05":
        hs = [(n, h) for n, h in hs if TABLE.get(n, DEFAULT)[0] in ("des", "trunc", "lm", "reject", "des_all") or n in ("md5_crypt", "sha256_crypt", "pbkdf2_sha256", "hex_sha1", "mysql41", "plaintext", "sha512_crypt", "scram", "nthash", "ldap_salted_sha1", "unix_disabled", "django_disabled", "apr_md5_crypt")] + \
             [(n, h) for n, h in hs if TABLE.get(n, DEFAULT)[0] == "exact_nulrej" and n not in ("md5_crypt", "sha256_crypt", "sha512_crypt")]
    if focus == "C01":
        first_use_edges(chk)
    cases = {}
    per_hasher = (12 if quick else 60) if focus == "C01" else (9 if quick else 80)
    for name, h in hs:
        klass, limit, flags = TABLE.get(name, DEFAULT)
        w = getattr(h, "wrapped", h)
        if focus == "C01":
            if klass == "dis":
                disabled_marker_edges(chk, name, h)
            edge_passwords(chk, name, h, w, klass, flags)
            if klass == "exact":          # (case-folding formats treat text and bytes differently by design)
                encoding_edges(chk, name, h, flags)
            size_and_form_edges(chk, name, h, w, klass, flags)
            if klass in ("lm", "fold"):
                expanding_fold_edges(chk, name, h, flags)
        else:
            policy_edges(chk, name, h, w, klass, limit, flags)
        if getattr(w, "truncate_size", None) and klass not in ("des", "trunc", "lm", "reject", "trunc_nulok"):
            chk.uncovered.append(f"{name}: declares truncate_size={w.truncate_size} but is tabled as {klass}")
        modes = ["trunc"] if focus == "C01" else ["trunc", "size"]
        for mode in modes:
            key = (klass, mode)
            if key not in cases:
                cases[key] = emit_cases(chk, klass, mode, quick, chk.seed)
            groups = cases[key]
            keys = sorted(groups)
            # boundary-relevant passwords first: those whose byte length is around the model limit
            rnd.shuffle(keys)
            if klass in ("des", "trunc", "lm", "reject") or mode == "size":
                keys.sort(key=lambda k: abs(sum(len(SYMS[s]) for s in k[1]) - TM[0]))
            chosen = keys[:per_hasher]
            if klass in ("des", "trunc", "lm", "reject") or mode == "size":
                # ... and among them the ones whose BYTE length exceeds the limit while their CHARACTER count does not (two-byte symbols),
                # and the ones that exceed it with bytes that are no text: half of the budget each way
                def blen(k):
                    return sum(len(SYMS[x]) for x in k[1])
                special = [k for k in keys if ("m2" in k[1] or "hi" in k[1]) and TM[0] < blen(k) <= TM[0] + 2 and not (k[0] and focus == "C01")]
                plain = [k for k in keys if k not in special]
                chosen = special[:per_hasher // 2] + plain[:per_hasher - min(len(special), per_hasher // 2)]
            if klass in ("des", "trunc", "lm", "reject") and mode == "trunc" and focus == "C05":
                # every password whose BYTE length is limit-1, limit or limit+1 (1- and 2-byte characters), both policies
                chosen = [k for k in keys if TM[0] - 1 <= sum(len(SYMS[x]) for x in k[1]) <= TM[0] + 1]
            ctxkw = {}
            if "u" in flags:
                ctxkw["user"] = "user"
            if "r" in flags:
                ctxkw["realm"] = "realm"
            settings = cheap_settings(name, h)
            for te, p in chosen:
                if te and focus == "C01":
                    continue            # truncate_error policies are C05's subject
                g = groups[(te, p)]
                if g["hash"] is None:
                    continue
                if mode == "size":
                    filler = b"x" * (4096 - TM[0])
                elif klass in ("des", "trunc", "lm", "reject", "trunc_nulok"):
                    filler = b"x" * (limit - TM[0])
                else:
                    filler = b"x" * rnd.choice([0, 0, 5, 53, 61, 125])
                if "p" in flags and not p and not filler:
                    continue            # plaintext-style hashers cannot store the empty password
                syms_ok = lambda q: (not (("t" in flags or "e" in flags) and "hi" in q) and not ("e" in flags and "m2" in q)   # noqa: E731
                                     and not ("z" in flags and "nul" in q))
                truncating = klass in ("des", "trunc", "lm", "reject", "trunc_nulok")
                if mode == "size" and truncating and te:
                    continue            # beyond the real limit everything is a truncation matter: only plain size errors are compared
                if not syms_ok(p):
                    continue
                pw = concretise(p, filler, True)
                # settings drawn from the whole admissible space, case by case (the generated ones cover only part of it)
                if name == "cisco_type7":
                    settings = dict(salt=rnd.choice([rnd.randrange(53), rnd.randrange(16, 53), 52]))
                elif name == "fshp":
                    v_ = rnd.randrange(4)
                    nm_ = ("sha1", "sha256", "sha384", "sha512")[v_]
                    settings = dict(cheap_settings(name, h), variant=rnd.choice([v_, v_, str(v_), nm_, nm_.encode()]))      # number or documented alias, text or bytes
                elif getattr(w, "ident_values", None) and "ident" in h.setting_kwds and rnd.random() < .5:
                    settings = dict(cheap_settings(name, h), ident=rnd.choice([i for i in w.ident_values if i not in ("$2x$", "$2$")]))
                    if name == "bcrypt_sha256" and settings["ident"] != "$2b$":
                        settings["version"] = 1           # (version 2 is defined for $2b$ only)
                try:
                    hh = h.using(**settings, **({"truncate_error": True} if te else {})) if (settings or te) else h
                except Exception as e:
                    chk.violation(f"{name}:using:{type(e).__name__}", f"{name}.using({settings}) - admissible settings - raised {type(e).__name__}: {e}", {"hasher": name, "settings": repr(settings)})
                    break
                via_ctx = te and rnd.random() < .5
                detail_how = ""
                as_text = ("hi" not in p) and (rnd.random() < .5 or (te and "m2" in p)) and not (mode == "size" and "m2" in p)

                def form(b, text):
                    return b.decode("utf-8") if text else b
                try:
                    if via_ctx:
                        skw = {f"{name}__{k}": v for k, v in settings.items()}
                        HOW_CTR[0] += 1
                        how = ["update", "scheme", "copy", "global", "update-scheme"][HOW_CTR[0] % 5]
                        detail_how = how
                        if how == "scheme":
                            cc = CryptContext(schemes=[name], **skw, **{f"{name}__truncate_error": True})
                        elif how == "global":
                            cc = CryptContext(schemes=[name], **skw, truncate_error=True)
                        elif how == "update":          # the policy is switched on later, over an explicit "off"
                            cc = CryptContext(schemes=[name], **skw, truncate_error=False)
                            cc.update(truncate_error=True)
                        elif how == "copy":
                            cc = CryptContext(schemes=[name], **skw, truncate_error=False).copy(truncate_error=True)
                        else:
                            cc = CryptContext(schemes=[name], **skw, **{f"{name}__truncate_error": False})
                            cc.update(**{f"{name}__truncate_error": True})
                        stored = cc.hash(form(pw, as_text), **ctxkw)
                    else:
                        stored = hh.hash(form(pw, as_text), **ctxkw)
                    got_h = "ok"
                except Exception as e:
                    got_h = error_class(e)
                    stored = None
                exp_h = g["hash"]
                tag = f"{klass}/{mode}"
                detail = {"hasher": name, "class": klass, "mode": mode, "truncate_error": te, "via_context": (detail_how if via_ctx else False),
                          "password": repr(form(pw, as_text))[:80] + ("..." if len(pw) > 70 else ""), "password_bytes": len(pw), "abstract": list(p)}
                chk.count((name, mode, te, exp_h, len(p)))
                chk.action(f"hash->{exp_h}")
                nul_either = "n" in flags and "nul" in p
                if mode == "size" and truncating and exp_h != "SizeError" and got_h in ("ok", "SizeError", "TruncateError", "NullError"):
                    got_h = exp_h if got_h != "ok" else got_h       # (the real limit lies far below: not this mode's subject)
                    if stored is None:
                        continue
                if exp_h == "NullOrTruncateError" and got_h in ("NullError", "TruncateError"):
                    got_h = exp_h
                if got_h != exp_h and not (nul_either and {got_h, exp_h} <= {"ok", "NullError"}):
                    chk.violation(f"{name}:hash:{exp_h}->{got_h}:{mode}{':te' if te else ''}",
                                  f"{name}.hash of a {len(pw)}-byte password ({tag}, truncate_error={te}) gave {got_h}, spec says {exp_h}", detail)
                    continue
                if stored is None:
                    continue
                if not isinstance(stored, str) or (not stored.isascii() and "p" not in flags) or not h.identify(stored):
                    chk.violation(f"{name}:hash:shape", f"{name}.hash returned something it does not identify as its own / not ASCII text", dict(detail, hash=repr(stored)[:80]))
                    continue
                vs = g["verifies"]
                if len(chosen) > 40 and len(vs) > 8:
                    vs = [x for x in vs if x[0] == p] + rnd.sample(vs, 7)
                for q, exp_v in vs:
                    if not syms_ok(q):
                        continue
                    if mode == "size" and klass in ("des", "trunc", "lm", "reject", "trunc_nulok", "des_all") and exp_v in ("True", "False"):
                        continue            # beyond the real truncation limit: only the size errors are compared in this mode
                    qb = concretise(q, filler, True)
                    forms = [False] + ([True] if "hi" not in q and not (mode == "size" and "m2" in q) else [])
                    for text in forms:
                        try:
                            got_v = str(bool(hh.verify(form(qb, text), stored, **ctxkw)))
                        except Exception as e:
                            got_v = error_class(e)
                        chk.count((name, mode, te, exp_v, len(q), q == p))
                        chk.action(f"verify->{exp_v}")
                        if "n" in flags and "nul" in q and {got_v, exp_v} <= {"True", "False", "NullError"} and (got_v == "NullError" or exp_v == "NullError"):
                            continue
                        if got_v != exp_v:
                            kind = "te-verify-truncates" if (te and exp_v == "False" and got_v == "True" and len(qb) > limit > 0) else f"{exp_v}->{got_v}"
                            chk.violation(f"{name}:verify:{kind}:{mode}",
                                          f"{name}.verify({'text' if text else 'bytes'} {len(qb)} bytes) against the hash of a {len(pw)}-byte password ({tag}, "
                                          f"truncate_error={te}) gave {got_v}, spec says {exp_v}",
                                          dict(detail, candidate=repr(form(qb, text))[:80], candidate_bytes=len(qb), candidate_abstract=list(q), hash=stored))
                            break
                chk.traces += 1
    return hs


def replay(chk, path):
    v = json.loads(open(path).read())
    print(json.dumps(v["detail"], indent=1)[:3000])
    return 1
