"""Evaluator for the byte-string term language of spec/prim/Terms.tla.

Uses ONLY trusted primitives: hashlib's plain hash constructors (and, for the algorithm layer, hashlib.pbkdf2_hmac /
hashlib.scrypt / hmac when a specification names them as primitive symbols).  No passlib code is imported here.
"""
from __future__ import annotations

import base64
import hashlib
import hmac as _hmac

H64 = b"./0123456789ABCDEFGHIJKLMNOPQRSTUVWXYZabcdefghijklmnopqrstuvwxyz"


def _saslprep(text):
    """RFC 4013 for the strings used in the sweep (no prohibited output is ever generated there): map + NFKC"""
    import stringprep
    import unicodedata
    data = "".join(" " if stringprep.in_table_c12(c) else c for c in text if not stringprep.in_table_b1(c))
    return unicodedata.normalize("NFKC", data)


class EvalError(Exception):
    pass


def _hash(alg, data):
    if alg == "md4":
        raise EvalError("no trusted md4 on this host")
    return hashlib.new(alg, data).digest()


def evaluate(term, inputs, env=None, prims=None):
    """term: nested lists as printed by TLC (ToJson); inputs: name -> bytes; env: earlier definitions"""
    env = env if env is not None else {}
    prims = prims or {}
    stack_limit = 0

    def ev(t):
        op = t[0]
        if op == "in":
            return inputs[t[1]]
        if op == "lit":
            return bytes(t[1])
        if op == "ref":
            return env[t[1]]
        if op == "cat":
            return b"".join(ev(x) for x in t[1:])
        if op == "catseq":
            return b"".join(ev(x) for x in t[1])
        if op == "H":
            if t[1] in prims:
                return prims[t[1]](ev(t[2]))
            return _hash(t[1], ev(t[2]))
        if op == "xorb":
            return bytes(b ^ t[2] for b in ev(t[1]))
        if op == "xor":
            a, b = ev(t[1]), ev(t[2])
            if len(a) != len(b):
                raise EvalError("xor of unequal lengths")
            return bytes(x ^ y for x, y in zip(a, b))
        if op == "padz":
            a = ev(t[1])
            if len(a) > t[2]:
                raise EvalError("padz: longer than target")
            return a + b"\0" * (t[2] - len(a))
        if op == "take":
            return ev(t[1])[: t[2]]
        if op == "drop":
            return ev(t[1])[t[2]:]
        if op == "rep":
            a = ev(t[1])
            if t[2] == 0:
                return b""
            if not a:
                raise EvalError("rep of empty string")
            return (a * (t[2] // len(a) + 1))[: t[2]]
        if op == "str":
            return t[1].encode("ascii")
        if op == "repdyn":
            return ev(t[1]) * (t[2] + ev(t[3])[0])
        if op == "takelen":
            return ev(t[1])[: len(ev(t[2]))]
        if op == "hex":
            return ev(t[1]).hex().encode()
        if op == "upperhex":
            return ev(t[1]).hex().upper().encode()
        if op == "upper":           # upper-casing of text (Unicode aware when the bytes are UTF-8 text, ASCII otherwise)
            data = ev(t[1])
            try:
                return data.decode("utf-8").upper().encode("utf-8")
            except UnicodeDecodeError:
                return bytes(b - 32 if 97 <= b <= 122 else b for b in data)
        if op == "b64nopad":
            return base64.b64encode(ev(t[1])).rstrip(b"=")
        if op == "lower":
            return bytes(b + 32 if 65 <= b <= 90 else b for b in ev(t[1]))
        if op == "utf16le":
            return ev(t[1]).decode("utf-8").encode("utf-16-le")
        if op == "b64":
            return base64.b64encode(ev(t[1]))
        if op == "ab64":
            return base64.b64encode(ev(t[1])).rstrip(b"=").replace(b"+", b".")
        if op == "h64groups":
            data = ev(t[1])
            out = bytearray()
            for i2, i1, i0, n in t[2]:
                v = ((data[i2] if i2 >= 0 else 0) << 16) | ((data[i1] if i1 >= 0 else 0) << 8) | (data[i0] if i0 >= 0 else 0)
                for _ in range(n):
                    out.append(H64[v & 63])
                    v >>= 6
            return bytes(out)
        if op == "h64char":
            return bytes([H64[t[1]]])
        if op == "h64int":
            v, out = t[1], bytearray()
            for _ in range(t[2]):
                out.append(H64[v & 63])
                v >>= 6
            return bytes(out)
        if op == "select":
            data = ev(t[1])
            return bytes(data[i] for i in t[2])
        if op == "dec2":
            return b"%02d" % t[1]
        if op == "hexint":
            return b"%x" % t[1]
        if op == "xorkey":
            data, key = ev(t[1]), ev(t[2])
            return bytes(b ^ key[(t[3] + i) % len(key)] for i, b in enumerate(data))
        if op == "b64url":
            return base64.urlsafe_b64encode(ev(t[1]))
        if op == "saslprep":
            return _saslprep(ev(t[1]).decode("utf-8")).encode("utf-8")
        if op == "hmac":            # primitive symbol (algorithm layer): HMAC(alg, key, msg) via the stdlib
            return _hmac.new(ev(t[2]), ev(t[3]), t[1]).digest()
        if op == "pbkdf2":          # primitive symbol: PBKDF2-HMAC(alg, pw, salt, rounds, n) via hashlib
            return hashlib.pbkdf2_hmac(t[1], ev(t[2]), ev(t[3]), t[4], t[5] or None)
        if op == "scrypt":
            return hashlib.scrypt(ev(t[1]), salt=ev(t[2]), n=t[3], r=t[4], p=t[5], dklen=t[6], maxmem=2 ** 30)
        if op in prims:
            return prims[op](*[ev(x) if isinstance(x, list) else x for x in t[1:]])
        raise EvalError(f"unknown term operator {op!r}")
    return ev(term)


def run_program(prog, inputs, prims=None):
    """prog = {"defs": [[name, term], ...], "out": term} -> bytes, or ("error", class name)"""
    env = {}
    for name, term in prog["defs"] or []:
        env[name] = evaluate(term, inputs, env, prims)
    out = prog["out"]
    if out and out[0] == "error":
        return ("error", out[1])
    return evaluate(out, inputs, env, prims)
