"""Evaluator for the byte-string term language of spec/prim/Terms.tla.

Uses ONLY trusted primitives: hashlib's plain hash constructors (and, for the algorithm layer, hashlib.pbkdf2_hmac /
hashlib.scrypt / hmac when a specification names them as primitive symbols).  No passlib code is imported here.
"""
from __future__ import annotations

import hashlib
import hmac as _hmac


class EvalError(Exception):
    pass


def _hash(alg, data):
    if alg == "md4":
        raise EvalError("no trusted md4 on this host")
    return hashlib.new(alg, data).digest()


def evaluate(term, inputs, env=None, prims=None):
    """term: nested lists as printed by TLC (ToJson); inputs: name -> bytes; env: earlier definitions"""
    env = env if env is not None else {}
    prims = prims or {}
    stack_limit = 0

    def ev(t):
        op = t[0]
        if op == "in":
            return inputs[t[1]]
        if op == "lit":
            return bytes(t[1])
        if op == "ref":
            return env[t[1]]
        if op == "cat":
            return b"".join(ev(x) for x in t[1:])
        if op == "catseq":
            return b"".join(ev(x) for x in t[1])
        if op == "H":
            if t[1] in prims:
                return prims[t[1]](ev(t[2]))
            return _hash(t[1], ev(t[2]))
        if op == "xorb":
            return bytes(b ^ t[2] for b in ev(t[1]))
        if op == "xor":
            a, b = ev(t[1]), ev(t[2])
            if len(a) != len(b):
                raise EvalError("xor of unequal lengths")
            return bytes(x ^ y for x, y in zip(a, b))
        if op == "padz":
            a = ev(t[1])
            if len(a) > t[2]:
                raise EvalError("padz: longer than target")
            return a + b"\0" * (t[2] - len(a))
        if op == "take":
            return ev(t[1])[: t[2]]
        if op == "drop":
            return ev(t[1])[t[2]:]
        if op == "rep":
            a = ev(t[1])
            if t[2] == 0:
                return b""
            if not a:
                raise EvalError("rep of empty string")
            return (a * (t[2] // len(a) + 1))[: t[2]]
        if op == "hmac":            # primitive symbol (algorithm layer): HMAC(alg, key, msg) via the stdlib
            return _hmac.new(ev(t[2]), ev(t[3]), t[1]).digest()
        if op == "pbkdf2":          # primitive symbol: PBKDF2-HMAC(alg, pw, salt, rounds, n) via hashlib
            return hashlib.pbkdf2_hmac(t[1], ev(t[2]), ev(t[3]), t[4], t[5])
        if op == "scrypt":
            return hashlib.scrypt(ev(t[1]), salt=ev(t[2]), n=t[3], r=t[4], p=t[5], dklen=t[6], maxmem=2 ** 30)
        if op in prims:
            return prims[op](*[ev(x) if isinstance(x, list) else x for x in t[1:]])
        raise EvalError(f"unknown term operator {op!r}")
    return ev(term)


def run_program(prog, inputs, prims=None):
    """prog = {"defs": [[name, term], ...], "out": term} -> bytes, or ("error", class name)"""
    env = {}
    for name, term in prog["defs"] or []:
        env[name] = evaluate(term, inputs, env, prims)
    out = prog["out"]
    if out and out[0] == "error":
        return ("error", out[1])
    return evaluate(out, inputs, env, prims)
