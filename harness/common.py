"""Shared plumbing for checks: context object, evidence, findings, violation replays."""
from __future__ import annotations

import hashlib
import json
import os
import sys
import time
from pathlib import Path

VERIF = Path(__file__).resolve().parent.parent
FINDINGS_FILE = VERIF / "known_findings.json"


def jsonable(x):
    if isinstance(x, bytes):
        return {"__bytes__": x.hex()}
    if isinstance(x, (set, frozenset)):
        return sorted((jsonable(v) for v in x), key=repr)
    if isinstance(x, dict):
        return {str(k): jsonable(v) for k, v in x.items()}
    if isinstance(x, (list, tuple)):
        return [jsonable(v) for v in x]
    if isinstance(x, (str, int, float, bool)) or x is None:
        return x
    return repr(x)


class Check:
    """One run of one property's check.

    Collects model-checking statistics, conformance counts, samples and
    violations; classifies violations against known_findings.json; writes the
    evidence file; decides the exit code.
    """

    def __init__(self, pid: str, tier: str, seed: int, repo: str):
        self.pid, self.tier, self.seed, self.repo = pid, tier, seed, repo
        self.t0 = time.time()
        self.states = 0
        self.transitions = 0
        self.traces = 0          # traces / replayed behaviours validated against the implementation
        self.evaluations = 0
        self.nontrivial: set = set()
        self.samples: list = []
        self.violations: list = []
        self.known_hits: dict = {}
        self.assumptions: list = []
        self.extra: dict = {}
        self.rule = ""
        self.tlc_runs: list = []
        self.actions: dict = {}
        self.uncovered: list = []
        try:
            self.findings = json.loads(FINDINGS_FILE.read_text())["findings"]
        except FileNotFoundError:
            self.findings = []

    # ---- statistics -----------------------------------------------------
    def add_tlc(self, label: str, res):
        self.states += res.distinct
        self.transitions += res.generated
        self.tlc_runs.append({"run": label, "distinct_states": res.distinct, "states_generated": res.generated,
                              "depth": res.depth, "wall_s": round(res.wall_s, 2),
                              "actions": {k: v[1] for k, v in res.coverage.items() if k[0].isupper()}})

    def count(self, key=None, n=1):
        """Count an executed conformance case; key (hashable) marks a distinct non-trivial case."""
        self.evaluations += n
        if key is not None:
            self.nontrivial.add(key)

    def action(self, name, n=1):
        self.actions[name] = self.actions.get(name, 0) + n

    def sample(self, s, limit=8):
        if len(self.samples) < limit:
            self.samples.append(jsonable(s))

    # ---- violations -------------------------------------------------------
    def violation(self, key: str, what: str, detail: dict):
        """Record a conformance mismatch on the real code.

        key identifies the failing input / call-site / history class; it is what
        known_findings.json entries are matched against.
        """
        for f in self.findings:
            if f.get("status") == "known" and f["property"] == self.pid and f["key"] == key:
                self.known_hits.setdefault(key, f["what"])
                return
        self.violations.append({"key": key, "what": what, "detail": jsonable(detail)})

    def write_replays(self):
        out = []
        d = VERIF / "out" / "replay" / self.pid
        d.mkdir(parents=True, exist_ok=True)
        seen = set()
        for v in self.violations:
            if v["key"] in seen and len(out) >= 25:
                continue
            seen.add(v["key"])
            blob = json.dumps(v, sort_keys=True, indent=1)
            p = d / (hashlib.sha1(blob.encode()).hexdigest()[:12] + ".json")
            p.write_text(blob)
            out.append((v, p))
            if len(out) >= 40:
                break
        return out

    # ---- finish --------------------------------------------------------------
    def finish(self, level="model_checking") -> int:
        wall = time.time() - self.t0
        cov = {
            "states": self.states, "transitions": self.transitions,
            "traces_validated_against_impl": self.traces,
            "evaluations": self.evaluations,
            "distinct_nontrivial": len(self.nontrivial),
            "rule": self.rule,
            "samples": self.samples or ["(none)"],
            "tlc_runs": self.tlc_runs,
            "impl_actions": self.actions,
            "uncovered": self.uncovered,
            "known_findings_hit": sorted(self.known_hits),
        }
        def dedupe(xs):
            out = []
            for x in xs:
                if x not in out:
                    out.append(x)
            return out
        self.assumptions = dedupe(self.assumptions)
        cov["uncovered"] = dedupe(self.uncovered)
        for k, v in list(self.extra.items()):
            if isinstance(v, list) and all(isinstance(x, str) for x in v):
                self.extra[k] = dedupe(v)
        cov.update(self.extra)
        ev = {"property_id": self.pid, "tier": self.tier, "seed": self.seed, "level": level,
              "coverage": cov, "assumptions": self.assumptions, "wall_s": round(wall, 2),
              "violations": len(self.violations)}
        # evidence describes the tree under /repo; a run against another tree (--repo, seeded changes) leaves the evidence files alone
        evdir = VERIF / "evidence" if os.path.realpath(self.repo) == "/repo" else VERIF / "out" / "evidence_other_tree"
        evdir.mkdir(parents=True, exist_ok=True)
        (evdir / f"{self.pid}.json").write_text(json.dumps(ev, indent=1, sort_keys=True) + "\n")
        for key, what in sorted(self.known_hits.items()):
            print(f"KNOWN-FINDING: property={self.pid} {what} [{key}]")
        if self.violations:
            reps = self.write_replays()
            shown = set()
            for v, p in reps:
                if v["key"] in shown:
                    continue
                shown.add(v["key"])
                print(f"VIOLATION property={self.pid} replay={p}  # {v['key']}: {v['what']}")
            print(f"{self.pid}: {len(self.violations)} violation(s) in {len(shown)} class(es); "
                  f"{self.evaluations} cases, {self.states} spec states, {wall:.1f}s")
            return 1
        print(f"{self.pid}: OK tier={self.tier} states={self.states} transitions={self.transitions} "
              f"impl_cases={self.evaluations} nontrivial={len(self.nontrivial)} traces={self.traces} wall={wall:.1f}s")
        return 0


def setup_repo_path(repo: str):
    """Make sure passlib/libpass are imported from the working tree at `repo`."""
    repo = str(Path(repo).resolve())
    sys.path.insert(0, repo)
    os.environ["PYTHONPATH"] = repo
    import passlib
    import libpass
    for m in (passlib, libpass):
        if not str(Path(m.__file__).resolve()).startswith(repo):
            from .tlc import MachineryError
            raise MachineryError(f"{m.__name__} imported from {m.__file__}, not from {repo}")
