#!/venv/bin/python
"""Searches, with stdlib hmac only, for HOTP counters c < c' (distance 1..8) whose 6-digit codes collide.
Output: data/totp_collisions.json  {alg: {key_hex, pairs: {distance: [counter, ...]}}}.  Verified again at check time."""
import hashlib, hmac, json, struct, sys
def hotp(h0, c, digits=6):
    h = h0.copy(); h.update(struct.pack(">Q", c)); d = h.digest()
    o = d[-1] & 15
    return (int.from_bytes(d[o:o+4], "big") & 0x7fffffff) % 10**digits
out = {}
for alg, key, start in (("sha1", bytes(range(1, 21)), 50_000_000), ("sha256", b"verif-key-sha256-0123456789abcdef", 1_000), ("sha512", b"k" * 40, 2**31 // 30 - 4_000_000)):
    h0 = hmac.new(key, digestmod=getattr(hashlib, alg))
    N = 9_000_000
    codes = [hotp(h0, start + i) for i in range(N)]
    pairs = {}
    for i in range(N - 8):
        ci = codes[i]
        for d in range(1, 9):
            if codes[i + d] == ci:
                pairs.setdefault(d, []).append(start + i)
    out[alg] = {"key_hex": key.hex(), "pairs": {str(d): v[:6] for d, v in sorted(pairs.items())}}
    print(alg, {d: len(v) for d, v in sorted(pairs.items())}, file=sys.stderr)
json.dump(out, open("data/totp_collisions.json", "w"), indent=1)
