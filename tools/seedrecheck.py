#!/venv/bin/python
"""tools/seedrecheck.py <name>... : re-run the quick check of a filed seed (seeded/<name>/patch.diff applied to /repo,
undone straight afterwards) and update detected / check_* in its meta.json."""
import json, os, subprocess, sys, time
V = "/verif"
def sh(cmd):
    return subprocess.run(cmd, shell=True, capture_output=True, text=True)
for name in sys.argv[1:]:
    d = f"{V}/seeded/{name}"
    meta = json.load(open(f"{d}/meta.json"))
    pid = meta["property"]
    wt = f"/tmp/wt_seedrun_{name}"
    sh(f"git -C /repo worktree remove --force {wt}")
    assert sh(f"git -C /repo worktree add --detach {wt} HEAD").returncode == 0
    try:
        assert sh(f"git -C {wt} apply {d}/patch.diff").returncode == 0 or sh(f"cd {wt} && patch -p1 --fuzz=3 -s < {d}/patch.diff").returncode == 0, "patch no longer applies"
        t0 = time.time()
        c = sh(f"cd {V} && ./check {pid} --tier quick --repo {wt}")
        meta["check_exit"] = c.returncode
        meta["check_wall_s"] = round(time.time() - t0, 1)
        meta["check_lines"] = [l[:300] for l in c.stdout.splitlines() if l.startswith(("VIOLATION", pid + ":"))][:6]
    finally:
        sh(f"git -C /repo worktree remove --force {wt}")
    meta["detected"] = meta["check_exit"] == 1
    if not os.environ.get("SEEDRECHECK_NOWRITE"):       # (re-runs under other VERIF_SEED values only report)
        json.dump(meta, open(f"{d}/meta.json", "w"), indent=1)
    print(name, "check_exit=%s" % meta["check_exit"], (meta["check_lines"] or [""])[0][:200])
