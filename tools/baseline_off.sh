#!/bin/sh
# Runs the repository's own suite with the verification guard OFF and compares
# the set of passing tests with /root/.vp/BASELINE.json (stable_pass).
unset PASSLIB_VERIF
OUT=${1:-/verif/out/baseline.junit.xml}
mkdir -p "$(dirname "$OUT")"
cd /repo && /venv/bin/python -m pytest -ra -q -p no:cacheprovider --timeout=900 --continue-on-collection-errors --junitxml="$OUT" >/verif/out/baseline.log 2>&1
/venv/bin/python - "$OUT" <<'PY'
import json, sys, xml.etree.ElementTree as ET
base = json.load(open('/root/.vp/BASELINE.json'))
want = set(base['stable_pass'])
got = set()
for tc in ET.parse(sys.argv[1]).getroot().iter('testcase'):
    if not any(c.tag in ('failure', 'error', 'skipped') for c in tc):
        got.add(f"{tc.get('classname')}::{tc.get('name')}")
missing = sorted(want - got)
print(f"baseline stable_pass={len(want)} passing_now={len(got)} missing={len(missing)} new_passes={len(got-want)}")
for m in missing[:40]:
    print("MISSING", m)
sys.exit(1 if missing else 0)
PY
