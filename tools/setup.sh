#!/bin/sh
# Offline setup: nothing to build; verify the tools the checks need are present.
set -e
cd "$(dirname "$0")/.."
java -version >/dev/null 2>&1
test -f /opt/veriftools/tla/tla2tools.jar
/venv/bin/python -c "import hypothesis, sys; sys.path.insert(0,'/repo'); import passlib, libpass"
mkdir -p out evidence
echo setup ok
