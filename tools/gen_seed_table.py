#!/venv/bin/python
"""prints the markdown table of seeded changes (DESIGN.md §8) from seeded/*/meta.json and notes.md"""
import json, glob, os, re
FIRST = {  # first result before the check was strengthened (caught unless listed)
 "C12_1": "missed", "C13_2": "machinery error", "C13_3": "missed", "C16_2": "missed", "C16_3": "missed", "C03_1": "missed", "C09_2": "missed",
 "C10_1": "missed", "C10_2": "missed", "C10_3": "missed", "C15_2": "missed", "C15_3": "missed", "C06_1": "machinery error", "C06_2": "missed", "C06_3": "missed",
 "C18_2": "missed", "C18_3": "missed", "C17_2": "missed (vacuous simulation)", "C20_1": "missed", "C19_1": "missed", "C19_2": "missed", "C19_3": "missed",
 "C07_1": "missed", "C07_2": "missed", "C07_3": "missed", "C05_2": "missed", "C01_1": "missed", "C01_3": "missed", "C08_2": "check hung"}
rows = []
for d in sorted(glob.glob("/verif/seeded/*/")):
    name = os.path.basename(d.rstrip("/"))
    try:
        m = json.load(open(d + "meta.json"))
    except Exception:
        continue
    notes = open(d + "notes.md").read() if os.path.exists(d + "notes.md") else ""
    title = ""
    for line in notes.splitlines():
        line = line.strip("# *-").strip()
        if len(line) > 15:
            title = re.sub(r"^(C\d\d )?seed \d\s*[-—:]+\s*", "", line, flags=re.I)
            title = re.sub(r"^C\d\d seed \d\s*", "", title)
            break
    key = ""
    for l in m.get("check_lines", []):
        if l.startswith("VIOLATION"):
            key = l.split("#", 1)[1].strip().split(":")[0:3]
            key = ":".join(key)[:70]
            break
    rows.append((name, title[:110].replace("|", "/"), "caught" if m.get("detected") else "MISSED", FIRST.get(name, "caught"), key.replace("|", "/")))
print("| Seed | Change (from the author's notes) | First result | Now | Violation class reported |")
print("|---|---|---|---|---|")
for r in rows:
    print(f"| {r[0]} | {r[1]} | {r[3]} | {r[2]} | `{r[4]}` |")
print(f"\n{sum(1 for r in rows if r[2] == 'caught')} of {len(rows)} seeded changes are caught by the quick tier of the property's check.")
