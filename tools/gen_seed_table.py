#!/venv/bin/python
"""prints the markdown table of seeded changes (DESIGN.md §8) from seeded/*/meta.json and notes.md"""
import json, glob, os, re
FIRST = {  # first result before the check was strengthened (caught unless listed)
 "C12_1": "missed", "C13_2": "machinery error", "C13_3": "missed", "C16_2": "missed", "C16_3": "missed", "C03_1": "missed", "C09_2": "missed",
 "C10_1": "missed", "C10_2": "missed", "C10_3": "missed", "C15_2": "missed", "C15_3": "missed", "C06_1": "machinery error", "C06_2": "missed", "C06_3": "missed",
 "C18_2": "missed", "C18_3": "missed", "C17_2": "missed (vacuous simulation)", "C20_1": "missed", "C19_1": "missed", "C19_2": "missed", "C19_3": "missed",
 "C07_1": "missed", "C07_2": "missed", "C07_3": "missed", "C05_2": "missed", "C01_1": "missed", "C01_3": "missed", "C08_2": "check hung"}
# second round (seeds _4.._6, written by fresh agents told to avoid the first round's areas): caught at first run -
ROUND2_CAUGHT = {"C10_4", "C09_4", "C02_5", "C02_6", "C01_4", "C07_4", "C03_4", "C03_6", "C08_5", "C08_6", "C16_6", "C20_4", "C20_5", "C15_4", "C14_4", "C14_6",
                 "C12_4", "C12_5", "C19_4", "C19_5", "C19_6", "C13_4", "C11_5", "C11_6"}
ROUND3_CAUGHT = {"C02_9", "C10_7", "C09_7", "C09_9", "C04_7", "C04_9", "C08_8", "C08_9", "C03_7", "C03_8", "C03_9", "C05_7", "C05_8", "C05_9",
                 "C11_7", "C11_8", "C11_9", "C12_7", "C12_8", "C12_9", "C13_7", "C13_8", "C13_9", "C14_9", "C15_8", "C16_7", "C16_8", "C17_7", "C17_9",
                 "C18_7", "C18_8", "C19_8", "C20_7", "C20_8", "C20_9"}
ROUND4_CAUGHT = {"C10_11", "C09_11", "C08_10", "C07_11", "C01_11", "C03_12", "C05_10", "C05_12", "C15_11", "C14_11", "C14_12", "C16_10", "C16_12", "C20_11",
                 "C12_10", "C12_11", "C13_10", "C13_11", "C11_11", "C11_12", "C18_12", "C19_11", "C19_12", "C17_10", "C17_11"}
ROUND5_CAUGHT = {"C04_14", "C08_15", "C01_13"}
ROUND6_PROPS = {"C03", "C05", "C13", "C14", "C15", "C16", "C18", "C20"}      # sixth round: seeds _13, _14 of these
ROUND6_CAUGHT = {"C13_13", "C13_14", "C14_13", "C14_14", "C16_13", "C18_13", "C15_13", "C15_14", "C20_13", "C05_13", "C05_14"}
ROUND2_CAUGHT |= ROUND3_CAUGHT | ROUND4_CAUGHT | ROUND5_CAUGHT | ROUND6_CAUGHT
for _p in range(1, 21):
    for _i in (4, 5, 6, 7, 8, 9, 10, 11, 12, 13, 14, 15):
        _n = f"C{_p:02d}_{_i}"
        if _n not in ROUND2_CAUGHT:
            FIRST.setdefault(_n, "missed")
FIRST["C16_5"] = "missed (then a harness crash)"
rows = []
for d in sorted(glob.glob("/verif/seeded/*/"), key=lambda d: (d.split("/")[-2].split("_")[0], int(d.split("/")[-2].split("_")[1]))):
    name = os.path.basename(d.rstrip("/"))
    try:
        m = json.load(open(d + "meta.json"))
    except Exception:
        continue
    notes = open(d + "notes.md").read() if os.path.exists(d + "notes.md") else ""
    title = ""
    for line in notes.splitlines():
        line = line.strip("# *-").strip()
        if len(line) > 15:
            title = re.sub(r"^(C\d\d )?seed \d\s*[-—:]+\s*", "", line, flags=re.I)
            title = re.sub(r"^C\d\d seed \d\s*", "", title)
            break
    key = ""
    for l in m.get("check_lines", []):
        if l.startswith("VIOLATION"):
            key = l.split("#", 1)[1].strip().split(":")[0:3]
            key = ":".join(key)[:70]
            break
    rows.append((name, title[:110].replace("|", "/"), "caught" if m.get("detected") else "MISSED", FIRST.get(name, "caught"), key.replace("|", "/")))
print("| Seed | Change (from the author's notes) | First result | Now | Violation class reported |")
print("|---|---|---|---|---|")
for r in rows:
    print(f"| {r[0]} | {r[1]} | {r[3]} | {r[2]} | `{r[4]}` |")
r1 = [r for r in rows if int(r[0].split("_")[1]) <= 3]
r2 = [r for r in rows if 3 < int(r[0].split("_")[1]) <= 6]
r3 = [r for r in rows if 6 < int(r[0].split("_")[1]) <= 9]
r4 = [r for r in rows if 9 < int(r[0].split("_")[1]) <= 12]
r5 = [r for r in rows if int(r[0].split("_")[1]) > 12 and r[0].split("_")[0] not in ROUND6_PROPS]
r6 = [r for r in rows if int(r[0].split("_")[1]) > 12 and r[0].split("_")[0] in ROUND6_PROPS]
print(f"\nFirst round: {sum(1 for r in r1 if r[3] == 'caught')} of {len(r1)} caught at the first run; second round: {sum(1 for r in r2 if r[3] == 'caught')} of {len(r2)}; third round: {sum(1 for r in r3 if r[3] == 'caught')} of {len(r3)}; fourth round: {sum(1 for r in r4 if r[3] == 'caught')} of {len(r4)}; fifth round (eight properties): {sum(1 for r in r5 if r[3] == 'caught')} of {len(r5)}; sixth round (the other eight properties with twelve seeds, session 4): {sum(1 for r in r6 if r[3] == 'caught')} of {len(r6)}. "
      f"After strengthening {sum(1 for r in rows if r[2] == 'caught')} of {len(rows)} seeded changes are caught by the quick tier of the property's check.")
