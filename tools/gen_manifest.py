#!/venv/bin/python
"""Regenerates /verif/MANIFEST.json from the table below (single source of truth)."""
import json, os
HERE = os.path.dirname(os.path.dirname(os.path.abspath(__file__)))
MC = "model_checking"
CHECKS = {
 "C12": dict(cat=MC, design="DESIGN.md §3 C12",
   text="Codec.tla defines every encoder twice (bit-stream definition and shift/mask arithmetic); TLC checks their equality, "
        "inverse, padding-bit repair and integer-codec laws exhaustively over the explored byte strings, every explored transition "
        "is replayed on all real encoder objects (S->I) and events recorded from the real encoders on random inputs of every "
        "length 0..200, the hashers' transposition tables, base32 and 6..64-bit integers are re-computed by the spec (I->S).",
   note="Trusted: TLC, the hand-written Codec.tla (cross-checked against Python's base64 for the standard alphabet). "
        "3-byte groups are covered over boundary byte values, not all 2^24.",
   technique="TLA+ spec (Codec.tla) model-checked with TLC + spec-to-implementation replay + trace validation"),
 "C14": dict(cat=MC, design="DESIGN.md §3 C14",
   text="Totp.tla defines the result of every match attempt (window, skew, last counter, earliest match, used/invalid/malformed); "
        "TLC checks on all histories within the bounds that accepted counters strictly increase and that each result is classified as "
        "stated; every explored/simulated attempt is executed as a real TOTP.match call through an offset refinement that places the "
        "model on 2^31/2^40-second boundaries and on real code collisions, and recorded realistic call sequences are validated as spec behaviours.",
   note="Trusted: TLC, Totp.tla, stdlib hmac as HOTP reference for the code table (HMAC correctness is C13's subject). "
        "Bounds: periods 1..5 model units (x1/10/30 s), windows 0..7, histories <= 6 attempts in the model; 14 calls per recorded trace.",
   technique="TLA+ spec (Totp.tla MatchResult) model-checked with TLC + spec-to-implementation replay + trace validation"),
 "C13": dict(cat=MC, design="DESIGN.md §3 C13",
   text="Totp.tla defines RFC 4226 dynamic truncation, decimal rendering, time->counter division and validity interval (limb arithmetic "
        "to 2^45) and key-text normalisation; TLC checks the truncation invariants for every offset/digest size/digit count/boundary "
        "value; boundary digests chosen by TLC are injected into real TOTP objects and recorded generate()/key-decoding events "
        "(keys 1..64 bytes, 3 algorithms, digits 6..10, periods 1..3600, times to 2^40 in int/float/datetime forms) are re-computed by the spec.",
   note="Trusted: TLC, Totp.tla, stdlib hmac/hashlib for the HMAC digest fed to the spec (passlib's own HMAC is C11's subject).",
   technique="TLA+ spec (Totp.tla Generate) model-checked with TLC + trace validation of recorded generate() calls + digest injection replay"),
 "C03": dict(cat=MC, design="DESIGN.md §3 C03",
   text="Backend.tla models backend selection (set/has/get/lazy load on first hash, dry runs, inherit-until-set vs shared-owner "
        "disciplines over root/child/grandchild classes); TLC checks availability=>selectable, dry runs pure, set-then-get, frame "
        "conditions for each real family configuration (order from the class, availability probed without passlib); simulated "
        "behaviours are replayed on the real global hashers in freshly forked processes comparing outcome and effective backends after "
        "every step; digests of a key sweep from every selectable backend and from libxcrypt / bcrypt-C / hashlib.scrypt are validated "
        "as one function key->digest by Trace_Backend. Extension run in the same check: Utf8Cut.tla (utf8_truncate / utf8_repeat_string over byte classes; seven properties of the definition proved by TLC over all class strings, every (string, index) pair executed).",
   note="Trusted: TLC, Backend.tla, libxcrypt/bcrypt-C/hashlib as independent providers; effective backend observed through the "
        "class's private __backend slot (projection only). Host dependent: argon2 and the 'scrypt' package are absent here.",
   technique="TLA+ spec (Backend.tla) model-checked with TLC + spec-to-implementation replay in fresh processes + digest trace validation"),
 "C16": dict(cat=MC, design="DESIGN.md §3 C16",
   text="HtFile.tla models the file object (records, export token list, bound disk file with modification stamps, autosave) and all "
        "public operations incl. external rewrites, loading another file by explicit path and failed loads; TLC checks over all histories within the bound that the export parses "
        "back to exactly the records, each key once, comments kept in order, untouched records keep their order, failures change nothing; "
        "random 12-step behaviours are replayed on real HtpasswdFile and HtdigestFile objects (utf-8 and latin-1, text/bytes arguments, "
        "autosave on/off) and after every step the exported text and the disk file are parsed by an independent reader and compared with the spec state.",
   note="Trusted: TLC, HtFile.tla, libxcrypt md5/des crypt and hashlib.md5 as independent verifiers of stored hashes. Blank lines are not "
        "compared; the position of a re-added user is left to the library. Model alphabet: 3 keys, 2 passwords, 7 initial contents.",
   technique="TLA+ spec (HtFile.tla) model-checked with TLC + spec-to-implementation behaviour replay with independent read-back"),
 "C09": dict(cat=MC, design="DESIGN.md §3 C09, App. B.1",
   text="Hasher.tla transcribes the settings algebra of using() (aliases, rounds as fallback, hard-limit refusal/clamping, window "
        "consistency, default re-clipping, int/percent vary_rounds on linear and log2 costs, odd-cost quirk, salt size) and what costs a fresh hash "
        "may carry / needs_update flags; TLC checks well-formedness, fresh-costs-inside-window-and-limits, fresh-needs-no-update, strict-never-clamps "
        "and the frame property over exhaustive short chains; random 8-step behaviours over derivation trees are replayed on framework handlers built "
        "from the library's mix-ins and on 15 real hashers instantiated from their real limits, comparing after every step the attributes of every "
        "node (incl. the global hasher), the random range used, parsed-back cost and salt size of fresh hashes, and needs_update.",
   note="Trusted: TLC, Hasher.tla. Costs above a per-hasher cheap bound are compared on attributes only; hard maxima >= 2^31-1 are treated as absent. "
        "ident/variant/truncate_error/scrypt block_size keywords are not in this model yet.",
   technique="TLA+ spec (Hasher.tla) model-checked with TLC + spec-to-implementation behaviour replay on derivation trees"),
 "C04": dict(cat=MC, design="DESIGN.md §3 C04, App. B.2",
   text="Context.tla defines the policy (scheme order, default, deprecated list/auto, per-category inheritance, per-scheme rounds options "
        "resolved through Hasher!UsingRounds with relaxed clamping) and every decision (identify = first claimant, new hash from the category "
        "default inside its window, needs_update, verify, verify_and_update shapes); TLC checks first-claimant, default-liveness, fixed point of "
        "rehashing and fresh-needs-no-update exhaustively over small configuration spaces; random configurations (valid and invalid) with 9-step "
        "operation sequences are replayed on real CryptContext objects over six real schemes, comparing refusal class, per-category defaults and "
        "customised handler windows, and every answer incl. the parsed scheme/cost of new and rehashed hashes with the random source forced.",
   note="Trusted: TLC, Context.tla/Hasher.tla. Real schemes are pre-customised to cheap default costs; scheme self-flags other than bsdi's even cost "
        "and the deprecated 'all' pseudo-scheme are not modelled. Two categories (default + 'admin').",
   technique="TLA+ spec (Context.tla) model-checked with TLC + spec-to-implementation behaviour replay on real CryptContext objects"),
 "C10": dict(cat=MC, design="DESIGN.md §3 C10",
   text="MC_ContextLife.tla (over Context.tla) models load / update (overlay of exactly the given keys) / copy / dict and INI round trips on two "
        "context objects, with invalid changes and an injected customisation fault; TLC checks that live configurations stay valid, failed changes "
        "change nothing, update is exact, empty update is a no-op and the copy is independent; random 10-step life-cycle behaviours are replayed on two "
        "real CryptContext objects and after EVERY step (also failed ones) both objects' to_dict() and a decision probe (default per category, "
        "identify on standing hashes, deprecated flag and cost window of every scheme per category) are compared with the spec; INI text is "
        "also read independently with configparser.",
   note="Trusted: TLC, Context.tla. The k-th-customisation fault is injected through a test handler registered at run time (no /repo change). "
        "Key rendering/parsing is bound through the harness's rendering table rather than a token-level TLA+ grammar.",
   technique="TLA+ spec (MC_ContextLife.tla over Context.tla) model-checked with TLC + spec-to-implementation behaviour replay with fault injection"),
 "C18": dict(cat=MC, design="DESIGN.md §3 C18",
   text="Disabled.tla defines disable/enable/is_enabled/verify over the abstract kinds of stored credential (missing, empty, bare marker in both "
        "styles, marker+hash, normal hash, django-style) for unix and django disabled schemes; TLC checks over all histories that a disabled account "
        "never verifies, disable() is total and idempotent, enable() restores the embedded hash exactly and passes normal hashes through; simulated "
        "histories are replayed on real CryptContext objects for original hashes of 25 real schemes with the disabled scheme listed before and "
        "after them, text and bytes arguments; each produced disabled string is also verified against four passwords (incl. empty and itself) and "
        "disabled again; verify(.., None) must be False with exactly one dummy verification - also across reconfigurations by every route "
        "(load of a mapping, of text, update in place), the remembered dummy hash being a state variable of the model.",
   note="Trusted: TLC, Disabled.tla. Catch-all schemes and schemes whose hashes start with a marker character are excluded (ambiguous by construction). "
        "Dummy verification is observed as a call, not timed.",
   technique="TLA+ spec (Disabled.tla) model-checked with TLC + spec-to-implementation history replay on real contexts"),
 "C17": dict(cat=MC, design="DESIGN.md §3 C17",
   text="Presets.tla is instantiated from the implementation: scheme order of every exported context (passlib.apps, passlib.hosts, the htpasswd "
        "context, the Django-extension presets) and the matrix 'scheme t claims hash h' obtained from handler.identify() over generated hashes of all "
        "its schemes (every ident, salt sizes, implicit-rounds forms, marker strings); TLC decides first-claimant attribution for every (context, "
        "scheme, hash) - an extracted-model failure is a code violation; each verdict is tied back to CryptContext.identify and verify(right/wrong). "
        "Registry.tla (lazy loading through two access paths) is model-checked and access sequences over all registered names are replayed in fresh interpreters.",
   note="Trusted: TLC, handler.identify() as source of the matrix (cross-checked against ctx.identify). Host dependent scheme lists; argon2 has no backend here; "
        "apps.master_context (internal, documented ambiguous, not in __all__) is excluded.",
   technique="TLA+ model extracted from the code (Presets.tla) checked with TLC + replay on the real contexts; Registry.tla model-checked and replayed"),
 "C20": dict(cat=MC, design="DESIGN.md §3 C20",
   text="LibpassCtx.tla defines hashing, verification, identification and the update check of the libpass hashers, of the classic hashers of the "
        "same six formats and of libpass.context.CryptContext over abstract hashes (format, cost, implicit-cost form, password, producer); TLC "
        "checks interop, identify-own, needs_update and the context laws over all lists of <= 3 formats; simulated 11-step behaviours are replayed on "
        "the real classes with text/bytes/non-ASCII/72-byte passwords, explicit non-empty salts of every legal size and implicit-rounds strings, "
        "and each libpass-made hash must also be recognised by the classic hasher of its format; complete bcrypt salts of every cost x hasher cost.",
   note="Trusted: TLC, LibpassCtx.tla. bcrypt passwords <= 72 bytes; Argon2Hasher is not importable on this host (no argon2 backend).",
   technique="TLA+ spec (LibpassCtx.tla) model-checked with TLC + spec-to-implementation behaviour replay across both APIs"),
 "C06": dict(cat=MC, design="DESIGN.md §3 C06",
   text="Rand.tla gives the radix-generic extraction formulas (bytes from one getrandbits request, symbols from one randrange request); TLC proves them "
        "bijective (balanced) with pairwise independent positions at reduced radix, checks the shortest-length-for-entropy rule (limb arithmetic) and "
        "that bcrypt's salt repair stays balanced; with passlib's shared random source replaced by a scripted one, every request and output of the "
        "helpers and of all consumers (salts of every salted hasher parsed back from hash(), TOTP.new, generate_secret, genword/genphrase, libpass "
        "salts) is recorded for exhaustive small spaces, boundary patterns and random values up to 64 symbols and validated against the spec by "
        "Trace_Rand; every salted scheme refuses a salt pinned through CryptContext.",
   note="Trusted: TLC, Rand.tla; the random source itself is assumed uniform (no statistics on live output). Source values are handed to TLC in the "
        "helper's own radix (the harness converts int <-> digits).",
   technique="TLA+ spec (Rand.tla) model-checked with TLC + trace validation of recorded calls under a scripted random source"),
 "C15": dict(cat=MC, design="DESIGN.md §3 C15",
   text="TotpSerial.tla defines writing and reading of the provisioning URI, dict and JSON forms at field level (elision against the format "
        "defaults, absent-means-format-default on reading, issuer prefix/parameter reconciliation, refusal rules) for every class-default set; TLC "
        "checks From(To(o)) = o for all objects x class defaults x formats and that every corrupted source is refused; every enumerated case is "
        "executed on real classes made by TOTP.using(**defaults) with hostile label/issuer strings, comparing the six fields and tokens at three "
        "times; URIs are read back by an independent urllib.parse reader. Extension run in the same check: Wallet.tla (AppWallet's table of "
        "application secrets: six presentations of `secrets`, tag rules, default tag, get_secret; seven properties of the definition proved by "
        "TLC over all sources of three instances, every source executed on the real class and the whole wallet compared).",
   note="Trusted: TLC, TotpSerial.tla, urllib.parse as independent URI reader. Strings are abstract symbols in the spec (quoting is bound by the "
        "harness). AppWallet encryption is not exercised (no AES support on this host).",
   technique="TLA+ spec (TotpSerial.tla) model-checked with TLC + exhaustive spec-to-implementation replay of the enumerated cases"),
 "C19": dict(cat=MC, design="DESIGN.md §3 C19",
   text="LazyInit.tla models N threads racing through the lazy-initialisation protocol (check, lock, take arguments, onload, clear, build, switch, "
        "call); TLC shows over all interleavings of 3 threads that the locked protocol gives every thread the sequential result and terminates under "
        "weak fairness, and refutes the unprotected protocol (negative control). A deterministic scheduler (sys.monitoring instruction events + "
        "cooperative locks) executes ALL real two-thread schedules with one preemption and a sample with two, inside the initialisation code of a fresh "
        "LazyCryptContext (with/without onload), fresh multi-backend hashers, a fresh lazy base64 engine and an unloaded registry name; every thread "
        "must get the single-threaded result, and every executed schedule is validated as a behaviour of the locked protocol (Trace_LazyInit). "
        "Free-running 8-thread stress is run as well.",
   note="Trusted: TLC, LazyInit.tla, the scheduler. Yield points: bytecode instructions of the listed functions and lock operations; C-level atomicity "
        "(GIL build) assumed. bcrypt's shared-owner backend loading is not schedule-explored.",
   technique="TLA+ spec (LazyInit.tla) model-checked with TLC (safety + liveness) + preemption-bounded enumeration of real schedules validated against the spec"),
 "C01": dict(cat=MC, design="DESIGN.md §3 C01",
   text="HashVerify.tla gives, per hasher class (truncation limit in bytes, 7-bit, case folding, blanks, NUL policy, refusal, disabled), the outcome of "
        "hash() and of verify() for every candidate password over a symbol alphabet where characters are not bytes; TLC checks self-verification, "
        "exactness up to the documented equivalences and disabled-never-verifies for all passwords <= 3 symbols x all near misses; the enumerated "
        "transitions of each hasher's documented class are executed on every hasher with a usable backend (74 classic/LDAP/Django hashers + 6 libpass "
        "classes): hash as text or bytes, directly or through a CryptContext, identify, and verify of each near miss in text and bytes form, with a "
        "filler prefix that places the model's byte positions on the real limits and on digest block boundaries.",
   note="Trusted: TLC, HashVerify.tla, the class table (from the documentation). Passwords are structured (filler + <= 3 symbols). NUL symbols are not "
        "used for HMAC-keyed and zero-padding formats (trailing NUL equivalence is inherent in the published constructions); SASLprep equivalences "
        "of scram are not exercised; argon2 has no backend here.",
   technique="TLA+ spec (HashVerify.tla) model-checked with TLC + spec-to-implementation replay on every shipped hasher"),
 "C05": dict(cat=MC, design="DESIGN.md §3 C05",
   text="Same specification as C01 with the truncation / size / NUL clauses: TLC checks that with truncate_error nothing beyond the limit is accepted, "
        "that without it exactly the first limit-many BYTES matter in hash and verify alike, that passwords beyond the library-wide maximum are refused "
        "and that NUL is refused by crypt()-compatible classes; for every truncating hasher ALL passwords whose byte length is limit-1/limit/limit+1 "
        "built from 1- and 2-byte characters are executed with truncate_error on and off (set on the hasher, as scheme option or context-wide), text "
        "and bytes; every hasher and CryptContext at 4095/4096/4097 bytes; NUL at several positions.",
   note="Trusted: TLC, HashVerify.tla. Known finding (recorded): verify() matches on the truncated portion even with truncate_error=True (documented "
        "library policy). lmhash only in its default single-byte encoding; the maximum is measured on ASCII passwords.",
   technique="TLA+ spec (HashVerify.tla) model-checked with TLC + spec-to-implementation replay with byte-exact boundary placement"),
 "C07": dict(cat=MC, design="DESIGN.md §3 C07",
   text="HashFormat.tla treats a hash as a structured value (ident, cost incl. the elided default in both spellings, salt class, digest, spelling) per "
        "grammar family whose facts are extracted from the hasher; TLC checks that parsing reports the settings used, that re-rendering is canonical "
        "and idempotent and that canonical texts are fixed points for every value of every family; each enumerated value is concretised on the real "
        "hasher (real salt and digest) in the prescribed spelling (hex case swapped, padding bits set, default cost written out) and passed as str and "
        "bytes through from_string().to_string(), parsehash() and verify(); wrappers go through the same path; libpass inspect_* / PHC records are "
        "round-tripped on real strings.",
   note="Trusted: TLC, HashFormat.tla; which families normalise hex case / repair padding bits comes from the documentation. Config-only strings are "
        "not concretised. Token-level, not character-level grammars.",
   technique="TLA+ spec (HashFormat.tla) model-checked with TLC over families extracted from the code + spec-to-implementation replay"),
 "C08": dict(cat=MC, design="DESIGN.md §3 C08",
   text="Trace_HashFormat (over HashFormat.tla and Codec.tla) validates events recorded from the real hashers: for ~30 (quick) / all (thorough) "
        "hashers valid hashes are mutated at character level (substitution from a probe set incl. NUL/non-ASCII/separators, deletion, insertion, "
        "truncation at every position, empty) and token level (dropped/duplicated fields, zero-padded/oversized numbers, bare ident, hex case, "
        "padding bits), as str and bytes, through the hasher and a CryptContext; TLC checks identify answers True/False, verify/needs_update answer "
        "or raise value/type errors only, and for every verify that answered True applies the family's documented normalisation to the recorded "
        "character codes itself and demands equality with the original.",
   note="Trusted: TLC, the normalisation operators of the spec. Known findings (recorded): lenient decoders accept undocumented re-spellings of the "
        "same digest bits; mssql2000 ignores its first digest. scram (multi-digest) is exempt from the integrity clause.",
   technique="TLA+ trace validation (Trace_HashFormat.tla) of mutation events recorded from the real hashers"),
 "C02": dict(cat=MC, design="DESIGN.md §3 C02, §8",
   text="spec/algo transcribes each format's published algorithm: ShaCrypt.tla (Drepper's numbered steps for SHA-256/512-crypt, PHK's md5-crypt incl. the apr variant, "
        "NetBSD sha1-crypt) and Formats.tla (hex/LDAP/salted digests, mysql41, postgres, oracle11, mssql2000/2005, htdigest, Django salted, phpass, FSHP, cisco pix/asa/type7, "
        "all PBKDF2-family spellings, scrypt in both spellings ($scrypt$ and $7$, the latter self-tested on Tarsnap's vector), scram, bcrypt / bcrypt_sha256 v1+v2 / django_bcrypt_sha256, {CRYPT} wrappers, plaintext) build, for a SHAPE (password length, salt size, "
        "cost, variant, user length), the straight-line PROGRAM of byte-string terms fed to primitive symbols; TLC emits it and the harness evaluates it over concrete bytes with "
        "hashlib/hmac/bcrypt-C only. TlcFormats.tla specifies des_crypt, bsdi_crypt (key folding), bigcrypt, crypt16, lmhash, oracle10 (DES-CBC-MAC), nthash, msdcc, mysql323 "
        "completely over prim/Des.tla, prim/Md4.tla and limb arithmetic, and TLC computes the digests. For every case of the sweep (lengths 0..256/4096 incl. the block boundaries, "
        "ASCII / every byte value / multi-byte UTF-8 content, salt sizes, costs around 42-periods and powers of two, idents, users) the real hasher's hash() must equal the reference, "
        "verify(reference) must be True and a near-miss password False, with the pure-Python backend selected. The transcriptions are validated in the same run against libxcrypt and "
        "published vectors; crypt()- and Django-made strings must verify under passlib and django_* output must equal Django's.",
   note="Trusted: TLC, hashlib/hmac/OpenSSL, bcrypt-C, libxcrypt, Django, Python's str.upper/encode for text transformations. sun_md5_crypt is covered by libxcrypt-made strings only; "
        "argon2 has no backend on this host.",
   technique="TLA+ specifications of the formats emitting reference programs per shape (TLC) evaluated over trusted primitives + formats over DES/MD4 evaluated entirely by TLC, replayed against the real hashers; provider cross-checks"),
 "C11": dict(cat=MC, design="DESIGN.md §3 C11, §8",
   text="spec/prim transcribes the standards into TLA+ and TLC evaluates them: Md4.tla (RFC 1320, self-tested on the RFC vectors) gives the digest "
        "of every message length 0..300 x content class and of every update/copy/digest history of the hash object; Salsa.tla (RFC 7914 Salsa20/8, "
        "BlockMix, ROMix, parameter validity; self-tested on the RFC vector and against OpenSSL scrypt) gives salsa20/bmix/smix/whole-scrypt results "
        "for a grid of N, r, p, key lengths; Des.tla (FIPS 46-3 tables on bit sequences with crypt(3)'s salted E-box and iteration, 7-to-8 byte key "
        "expansion; self-tested on the FIPS example and libxcrypt des/bsdi hashes) gives block results for unit-vector and random keys/blocks, salts "
        "and 1..30 iterations; Hmac.tla emits the RFC 2104 / RFC 8018 HMAC, PBKDF1 and PBKDF2 programs per (digest, key length vs block size, rounds, "
        "key length vs digest size) which are evaluated over hashlib's plain hash constructors; SaslPrep.tla decides RFC 4013 over all class strings "
        "up to length 3/4 and over every class string a single code point normalises to. passlib's built-in md4 object, ScryptEngine/scrypt(), "
        "des_encrypt_block/int_block/expand/shrink, compile_hmac (single and multipart), pbkdf1, pbkdf2_hmac and saslprep are compared with those values; "
        "Blowfish.tla (Schneier's cipher and Provos/Mazieres' EksBlowfish setup, its tables derived from pi by the harness; self-tested on the all-zero vector and "
        "against the bcrypt C library) gives plain Blowfish blocks and whole bcrypt cores (costs 4..6, keys 0..100 bytes) compared with BlowfishEngine and raw_bcrypt; in addition "
        "the bcrypt core is decided single-valued across passlib's engine, the bcrypt C library and libxcrypt over a wider sweep by Trace_Func.tla. "
        "Extension run in the same check: HashNames.tla (the names through which HMAC/PBKDF2 reach their digest and the HashInfo record cache) - names of "
        "5623 token spellings decided by TLC and compared with lookup_hash, simulated lookup/refusal/clear_cache histories replayed with record identities.",
   note="Trusted: TLC, the transcriptions (each validated against an independent provider before use), hashlib/OpenSSL, libxcrypt, bcrypt-C, "
        "Python's stringprep/unicodedata tables. NFKC is abstract in SaslPrep.tla.",
   technique="TLA+ transcriptions of the standards (Md4, Salsa, Des, Blowfish, Hmac, SaslPrep) evaluated by TLC as oracle + replay on the built-in primitives; Trace_Func single-valuedness for bcrypt"),
}
PENDING = {}
props = [json.loads(l) for l in open(os.path.join(HERE, "properties.jsonl"))]
checks, na = [], []
for p in props:
    pid = p["id"]
    if pid in CHECKS:
        c = CHECKS[pid]
        checks.append({
            "property_id": pid,
            "quick_cmd": f"./check {pid} --tier quick",
            "thorough_cmd": f"./check {pid} --tier thorough",
            "evidence_file": f"/verif/evidence/{pid}.json",
            "replay_cmd_template": f"./check {pid} --replay {{path}}",
            "engine": "tlc+python-binding",
            "level_claimed": {"category": c["cat"], "text": c["text"], "design_ref": c["design"]},
            "level_note": c["note"],
            "technique": c["technique"],
        })
    else:
        na.append({"property_id": pid, "reason": PENDING.get(pid, "spec module and binding not built yet (work in progress; see DESIGN.md §6 build order)")})
m = {
 "version": 1,
 "setup_cmd": "./tools/setup.sh",
 "hooks": {"guard": "PASSLIB_VERIF", "enable": "export PASSLIB_VERIF=1 (set by ./check); no build step, /repo is imported from its working tree",
           "baseline_off_cmd": "/verif/tools/baseline_off.sh", "source_commits": [], "add_only": True},
 "engines": [{"name": "tlc+python-binding", "path": "/verif/check",
              "serves_properties": sorted(CHECKS), "kind_free_text": "TLA+ specs in /verif/spec checked by TLC 1.8; Python harness replays TLC-explored transitions into passlib and validates recorded traces against the specs"}],
 "checks": checks,
 "not_applicable": na,
 "notes": "exit 2 from ./check means the machinery failed (never a violation). known_findings.json lists recorded defects.",
}
json.dump(m, open(os.path.join(HERE, "MANIFEST.json"), "w"), indent=1)
print("checks:", [c["property_id"] for c in checks], "n/a:", len(na))
