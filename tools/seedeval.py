#!/venv/bin/python
"""tools/seedeval.py <seed_dir> <property> <name> [test files...]
Confirms a seeded change in a scratch worktree (demo passes without / fails with the patch, given tests pass with it),
runs the property's quick check against /repo with the patch applied (undone straight afterwards), and files the
seed under /verif/seeded/<name>/ with meta.json."""
import json, os, shutil, subprocess, sys, time
seed, pid, name, tests = sys.argv[1], sys.argv[2], sys.argv[3], sys.argv[4:]
V = "/verif"
wt = f"/tmp/wt_eval_{name}"
def sh(cmd, **kw):
    return subprocess.run(cmd, shell=True, capture_output=True, text=True, **kw)
sh(f"git -C /repo worktree remove --force {wt}")
assert sh(f"git -C /repo worktree add --detach {wt} HEAD").returncode == 0
env = dict(os.environ, PYTHONPATH=wt, PASSLIB_BUILTIN_BCRYPT="enabled")
meta = {"property": pid, "seed": name, "ran": []}
try:
    d0 = sh(f"cd {wt} && /venv/bin/python {seed}/demo.py", env=env)
    meta["demo_clean_exit"] = d0.returncode
    ap = sh(f"git -C {wt} apply {seed}/patch.diff")
    meta["patch_applies"] = ap.returncode == 0
    if ap.returncode == 0:
        d1 = sh(f"cd {wt} && /venv/bin/python {seed}/demo.py", env=env)
        meta["demo_patched_exit"] = d1.returncode
        meta["demo_patched_output"] = (d1.stdout + d1.stderr)[-600:]
        if tests:
            t = sh(f"cd {wt} && /venv/bin/python -m pytest -q -p no:cacheprovider --timeout=900 {' '.join(tests)} 2>&1 | tail -3", env=env)
            meta["tests_with_patch"] = t.stdout.strip().splitlines()[-1:] 
            sh(f"git -C {wt} checkout -- .")
            t0 = sh(f"cd {wt} && /venv/bin/python -m pytest -q -p no:cacheprovider --timeout=900 {' '.join(tests)} 2>&1 | tail -3", env=env)
            meta["tests_clean"] = t0.stdout.strip().splitlines()[-1:]
finally:
    sh(f"git -C /repo worktree remove --force {wt}")
# run the check against a scratch worktree of /repo's HEAD with the patch applied (/repo itself is never touched)
if meta.get("patch_applies"):
    wt2 = f"/tmp/wt_seedrun_{name}"
    sh(f"git -C /repo worktree remove --force {wt2}")
    assert sh(f"git -C /repo worktree add --detach {wt2} HEAD").returncode == 0
    try:
        assert sh(f"git -C {wt2} apply {seed}/patch.diff").returncode == 0 or sh(f"cd {wt2} && patch -p1 --fuzz=3 -s < {seed}/patch.diff").returncode == 0, "patch no longer applies"
        t0 = time.time()
        c = sh(f"cd {V} && ./check {pid} --tier quick --repo {wt2}")
        meta["check_exit"] = c.returncode
        meta["check_wall_s"] = round(time.time() - t0, 1)
        meta["check_lines"] = [l[:300] for l in c.stdout.splitlines() if l.startswith(("VIOLATION", pid + ":"))][:6]
    finally:
        sh(f"git -C /repo worktree remove --force {wt2}")
    meta["detected"] = meta["check_exit"] == 1
meta["ran"] = [f"demo.py on clean and patched scratch worktree", f"pytest {' '.join(tests)} on both", f"./check {pid} --tier quick --repo <scratch worktree with the patch applied>"]
dst = f"{V}/seeded/{name}"
os.makedirs(dst, exist_ok=True)
for f in ("patch.diff", "demo.py", "notes.md"):
    if os.path.exists(f"{seed}/{f}"):
        shutil.copy(f"{seed}/{f}", dst)
notes = open(f"{seed}/notes.md").read() if os.path.exists(f"{seed}/notes.md") else ""
meta["needs_to_manifest"] = notes[:1500]
json.dump(meta, open(f"{dst}/meta.json", "w"), indent=1)
print(name, "clean_demo=%s patched_demo=%s tests=%s/%s check_exit=%s" % (meta.get("demo_clean_exit"), meta.get("demo_patched_exit"), meta.get("tests_with_patch"), meta.get("tests_clean"), meta.get("check_exit")))
for l in meta.get("check_lines", []): print("   ", l[:220])
