#!/bin/sh
# tools/mutcheck.sh <patch> <pid> [tier]: apply a seeded change to /repo, run the check, undo the change.
P=$(realpath "$1"); ID=$2; TIER=${3:-quick}
git -C /repo apply "$P" || { echo "patch does not apply"; exit 3; }
/verif/check "$ID" --tier "$TIER" > /verif/out/mut_$ID.log 2>&1; RC=$?
git -C /repo checkout -- . 
grep -v conda /verif/out/mut_$ID.log | grep -E "VIOLATION|OK tier|MACHINERY|KNOWN" | head -5
echo "exit=$RC"
