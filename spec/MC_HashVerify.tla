----------------------------- MODULE MC_HashVerify -----------------------------
EXTENDS HashVerify, TLC, Json
CONSTANTS Classes,    \* set of class records explored
          Sy,         \* symbols used
          MaxP,       \* passwords up to this many symbols
          MaxLen,     \* the library-wide maximum (in bytes) in this instance
          DoEmit
VARIABLES cls, te, p, q, h, v
Pwds == UNION {[1..n -> Sy] : n \in 0..MaxP}
Init == /\ cls \in Classes /\ te \in (IF cls.trunc > 0 /\ ~cls.reject THEN BOOLEAN ELSE {FALSE}) /\ p \in Pwds
        /\ q = <<>> /\ h = <<"pending">> /\ v = "pending"
HashA == /\ h = <<"pending">> /\ h' = HashOf(cls, te, MaxLen, p) /\ UNCHANGED <<cls, te, p, q, v>>
VerifyA == /\ h[1] = "ok" /\ v = "pending"
           /\ \E x \in Near(p, Sy) \cup {p} : q' = x /\ v' = VerifyOf(cls, te, MaxLen, h[2], x)
           /\ UNCHANGED <<cls, te, p, h>>
Next == HashA \/ VerifyA

\* (i) a hash verifies the password it was made from
InvSelf == (v # "pending" /\ q = p) => v = (IF cls.disabled THEN "False" ELSE "True")
\* (iii) exactness: whatever verifies is equal up to the documented equivalences
InvExact == v = "True" => Canon(cls, Bytes(q)) = Canon(cls, Bytes(p))
InvExactPlain == (v = "True" /\ cls.trunc = 0 /\ ~cls.strip8 /\ ~cls.fold /\ ~cls.blanks) => Bytes(q) = Bytes(p)
\* (iv) disabled hashers never verify
InvDisabled == cls.disabled => v # "True"
\* C05: with truncate_error no extension of the password verifies; without it exactly the first trunc bytes matter
InvNoSilentTruncation == (te /\ h[1] = "ok" /\ v = "True") => Len(Bytes(q)) <= cls.trunc /\ Len(Bytes(p)) <= cls.trunc
InvTruncBytes == (cls.trunc > 0 /\ ~cls.reject /\ ~te /\ v \in {"True", "False"} /\ ~cls.strip8 /\ ~cls.fold /\ ~cls.blanks) =>
                    ((v = "True") <=> (LET a == Bytes(p) b == Bytes(q) IN
                        SubSeq(a, 1, IF Len(a) < cls.trunc THEN Len(a) ELSE cls.trunc) = SubSeq(b, 1, IF Len(b) < cls.trunc THEN Len(b) ELSE cls.trunc)))
InvSize == h[1] = "ok" => Len(Bytes(p)) <= MaxLen
InvNul == (cls.nul = "reject" /\ HasNul(Bytes(p))) => h[1] \in {"pending", "NullError", "NullOrTruncateError", "SizeError"}
Emit == DoEmit => PrintT(<<"EMIT", ToJson([cls |-> cls.id, te |-> te, p |-> p, q |-> q', h |-> h'[1], v |-> v'])>>)
=============================================================================
