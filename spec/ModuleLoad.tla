------------------------------ MODULE ModuleLoad ------------------------------
(* C19, lazily imported registry entries.  A handler name is resolved by       *)
(* importing the module that defines it and reading the attribute.  Importing  *)
(* executes the module body, which defines its attributes one after another;   *)
(* the import system serialises importers of the same module with a per-module *)
(* lock, so nobody sees a half-executed module.  Shortcut = TRUE models a       *)
(* resolver that takes an already-registered (but maybe unfinished) module      *)
(* object without going through the import lock - kept as a negative control.  *)
EXTENDS Naturals, FiniteSets, TLC
CONSTANTS Threads, NAttrs,      \* the module defines attributes 1..NAttrs in order
          Wants,                \* thread -> attribute it needs
          Shortcut
VARIABLES pc, defined,          \* number of attributes defined so far (0 = body not started)
          registered,           \* module object visible in the module table
          lock, result
vars == <<pc, defined, registered, lock, result>>
Init == pc = [t \in Threads |-> "start"] /\ defined = 0 /\ registered = FALSE /\ lock = "free" /\ result = [t \in Threads |-> "none"]
Goto(t, l) == pc' = [pc EXCEPT ![t] = l]
\* the resolver: with the shortcut an already registered module is used as it is
Start(t) == /\ pc[t] = "start"
            /\ Goto(t, IF Shortcut /\ registered THEN "getattr" ELSE "acquire")
            /\ UNCHANGED <<defined, registered, lock, result>>
Acquire(t) == /\ pc[t] = "acquire" /\ lock = "free" /\ lock' = t
              /\ Goto(t, IF defined = NAttrs THEN "release" ELSE "exec")
              /\ UNCHANGED <<defined, registered, result>>
\* the module body: the module is registered before its first statement runs, then one attribute per step
Exec(t) == /\ pc[t] = "exec"
           /\ registered' = TRUE
           /\ IF defined < NAttrs THEN defined' = defined + 1 /\ Goto(t, "exec") ELSE defined' = defined /\ Goto(t, "release")
           /\ UNCHANGED <<lock, result>>
Release(t) == /\ pc[t] = "release" /\ lock' = "free" /\ Goto(t, "getattr") /\ UNCHANGED <<defined, registered, result>>
GetAttr(t) == /\ pc[t] = "getattr"
              /\ result' = [result EXCEPT ![t] = IF Wants[t] <= defined THEN "ok" ELSE "AttributeError"]
              /\ Goto(t, "done") /\ UNCHANGED <<defined, registered, lock>>
Step(t) == Start(t) \/ Acquire(t) \/ Exec(t) \/ Release(t) \/ GetAttr(t)
Next == \E t \in Threads : Step(t)
Spec == Init /\ [][Next]_vars /\ \A t \in Threads : WF_vars(Step(t))
AllResolved == \A t \in Threads : pc[t] = "done" => result[t] = "ok"
Terminates == <>(\A t \in Threads : pc[t] = "done")
=============================================================================
