------------------------------ MODULE LibpassCtx ------------------------------
(***************************************************************************)
(* C20: libpass hashers / libpass.context.CryptContext and their interop   *)
(* with the classic passlib hashers of the same format.                    *)
(* A hash is [fmt, rounds, implicit, pw, by]: format, cost, whether the    *)
(* cost is written implicitly (sha-crypt's 5000-round form), the password  *)
(* it was made from, and which API made it ("L" libpass, "P" passlib).     *)
(* A libpass hasher is [fmt, rounds].                                      *)
(***************************************************************************)
EXTENDS Naturals, Sequences, FiniteSets

Formats == {"sha256c", "sha512c", "pb256", "pb512", "bcrypt", "bcsha"}
ImplicitRounds == 5000
ShaCrypt == {"sha256c", "sha512c"}

\* a fresh hash made by hasher L for password pw
LHash(L, pw) == [fmt |-> L.fmt, rounds |-> L.rounds, implicit |-> FALSE, pw |-> pw, by |-> "L"]
\* the classic API writes 5000-round sha-crypt hashes in the implicit form
PHash(f, r, pw) == [fmt |-> f, rounds |-> r, implicit |-> (f \in ShaCrypt /\ r = ImplicitRounds), pw |-> pw, by |-> "P"]

\* both APIs: a hash verifies exactly the password it was made from, under a hasher of its own format only
LVerify(L, h, pw) == h.fmt = L.fmt /\ h.pw = pw
PVerify(f, h, pw) == IF h.fmt = f THEN (IF h.pw = pw THEN "True" ELSE "False") ELSE "ValueError"
LIdentify(L, h) == h.fmt = L.fmt
\* update check: other format, or other (effective) cost
LNeedsUpdate(L, h) == h.fmt # L.fmt \/ h.rounds # L.rounds

\* libpass context over a non-empty list of hashers: hash with the first, verify with any,
\* update exactly when the hash is not of the first scheme's format
CtxHash(S, pw) == LHash(S[1], pw)
CtxVerify(S, h, pw) == \E i \in 1..Len(S) : LVerify(S[i], h, pw)
CtxNeedsUpdate(S, h) == ~LIdentify(S[1], h)
=============================================================================
