------------------------------- MODULE Hasher -------------------------------
(***************************************************************************)
(* Settings algebra of password hashers (C09; reused by Context.tla for    *)
(* C04/C10): what using() does to the cost window, the default cost, its   *)
(* optional variation and the salt size; which costs a fresh hash may      *)
(* carry; which costs needs_update() flags.                                *)
(*                                                                         *)
(* A rounds record P = [hmin, hmax, minD, maxD, def, varyK, varyV, cost,   *)
(* quirk]: hard limits of the format (hmax = 0: no maximum), the desired   *)
(* window and default of this hasher (Unset = not configured), vary_rounds *)
(* as kind ("unset" | "int" | "pct") and value, cost kind, and format      *)
(* quirk ("none" | "odd": generated cost forced odd, even costs flagged).  *)
(***************************************************************************)
EXTENDS Integers, Sequences, FiniteSets, Prim

Unset == -1
Err   == -2
Truthy(x) == x # Unset /\ x # 0          \* Python truthiness of an optional int

Norm(P, v, relaxed) ==
    IF v < P.hmin THEN (IF relaxed THEN P.hmin ELSE Err)
    ELSE IF P.hmax # 0 /\ v > P.hmax THEN (IF relaxed THEN P.hmax ELSE Err)
    ELSE v

\* clip into the desired window (either side may be unset)
Clip(v, mn, mx) ==
    LET lo == IF mn = Unset THEN 0 ELSE mn IN
    IF v < lo THEN lo ELSE IF Truthy(mx) /\ v > mx THEN mx ELSE v

NoKw == [minA |-> Unset, minB |-> Unset, maxA |-> Unset, maxB |-> Unset, def |-> Unset, rounds |-> Unset,
         varyK |-> "unset", varyV |-> 0]

\* using(min_rounds=minA, min_desired_rounds=minB, max_rounds=maxA, max_desired_rounds=maxB,
\*       default_rounds=def, rounds=rounds, vary_rounds=..., relaxed=relaxed)
UsingRounds(P, kw, relaxed) ==
    IF (kw.minA # Unset /\ kw.minB # Unset) \/ (kw.maxA # Unset /\ kw.maxB # Unset) THEN <<"TypeError">>
    ELSE
    LET min0 == IF kw.minA # Unset THEN kw.minA ELSE kw.minB
        max0 == IF kw.maxA # Unset THEN kw.maxA ELSE kw.maxB
        \* `rounds` sets all three at once; explicit ones override
        min1 == IF min0 = Unset THEN kw.rounds ELSE min0
        max1 == IF max0 = Unset THEN kw.rounds ELSE max0
        def1 == IF kw.def = Unset THEN kw.rounds ELSE kw.def
        explicitMin == min1 # Unset
        minCmp == IF explicitMin THEN min1 ELSE P.minD          \* value later comparisons are made against
        minN   == IF explicitMin THEN Norm(P, min1, relaxed) ELSE P.minD
        maxAdj == IF max1 = Unset THEN Unset
                  ELSE IF Truthy(minCmp) /\ max1 < minCmp THEN (IF explicitMin THEN Err ELSE minCmp)   \* raised to min (+warning)
                  ELSE max1
        maxCmp == IF max1 = Unset THEN (IF explicitMin /\ minN # Err /\ Truthy(P.maxD) /\ P.maxD < minN THEN minN ELSE P.maxD) ELSE maxAdj
        \* an inherited maximum below a newly given minimum is raised to it (the floor wins, as for the
        \* symmetric case above); otherwise the window would be empty
        maxInh == IF explicitMin /\ minN # Err /\ Truthy(P.maxD) /\ P.maxD < minN THEN minN ELSE P.maxD
        maxN   == IF max1 = Unset THEN maxInh ELSE IF maxAdj = Err THEN Err ELSE Norm(P, maxAdj, relaxed)
        defBad == def1 # Unset /\ ((Truthy(minCmp) /\ def1 < minCmp) \/ (Truthy(maxCmp) /\ maxCmp # Err /\ def1 > maxCmp))
        defN   == IF def1 = Unset THEN P.def ELSE Norm(P, def1, relaxed)
        varyBad == kw.varyK = "pct" /\ kw.varyV > 100
    IN IF minN = Err \/ maxN = Err \/ defBad \/ defN = Err \/ varyBad THEN <<"ValueError">>
       ELSE <<"ok", [P EXCEPT !.minD = minN, !.maxD = maxN,
                              !.def = IF defN = Unset THEN Unset ELSE Clip(defN, minN, maxN),
                              !.varyK = IF kw.varyK = "unset" THEN P.varyK ELSE kw.varyK,
                              !.varyV = IF kw.varyK = "unset" THEN P.varyV ELSE kw.varyV]>>

\* ---- costs a fresh hash may carry ------------------------------------------------
FloorLog2(x) == IF x <= 0 THEN 0 ELSE CHOOSE k \in 0..30 : 2^k <= x /\ (k = 30 \/ x < 2^(k+1))
CeilLog2(x)  == IF x <= 0 THEN 0 ELSE IF 2^FloorLog2(x) = x THEN FloorLog2(x) ELSE FloorLog2(x) + 1

\* the amount of variation: an int, or for a percentage one of at most two ints
\* (the library computes int(base * (pct * 0.01)) in binary floating point: when base*pct/100 is an
\*  integer the result may be that integer or one less)
VaryAmounts(Q) ==
    IF Q.varyK = "int" THEN {Q.varyV}
    ELSE LET base == IF Q.cost = "log2" THEN 2^Q.def ELSE Q.def
             \* base * pct / 100 without leaving 32-bit integers
             k == (base \div 100) * Q.varyV + ((base % 100) * Q.varyV) \div 100
         IN IF ((base % 100) * Q.varyV) % 100 = 0 /\ k > 0 THEN {k, k - 1} ELSE {k}

\* the interval <<lo, hi>> the library draws from for variation amount v
RangeFor(Q, v) ==
    LET pctLog == Q.varyK = "pct" /\ Q.cost = "log2"
        lo0 == IF pctLog THEN CeilLog2(2^Q.def - v) ELSE Q.def - v
        hi0 == IF pctLog THEN FloorLog2(2^Q.def + v) ELSE Q.def + v
        \* the variation stays inside the desired window and inside the format's hard limits
        lo == Max2(Clip(lo0, Q.minD, Q.maxD), Q.hmin)
        hi == IF Q.hmax = 0 THEN Clip(hi0, Q.minD, Q.maxD) ELSE Min2(Clip(hi0, Q.minD, Q.maxD), Q.hmax)
    IN IF lo < hi THEN <<lo, hi>> ELSE <<Q.def, Q.def>>

Intervals(Q) == IF Q.varyK = "unset" \/ Q.varyV = 0 THEN {<<Q.def, Q.def>>}
                ELSE {RangeFor(Q, v) : v \in VaryAmounts(Q)}

\* quirk "odd" (bsdi_crypt): even costs are weak, so a drawn cost is made odd - the next odd number, or the
\* previous one when the next would leave the window or the hard limits
InWin(Q, r) == /\ r >= Q.hmin /\ (Q.hmax = 0 \/ r <= Q.hmax)
               /\ (Truthy(Q.minD) => r >= Q.minD) /\ (Truthy(Q.maxD) => r <= Q.maxD)
Final(Q, r) == IF Q.quirk # "odd" THEN r
               ELSE LET u == IF r % 2 = 1 THEN r ELSE r + 1
                    IN IF InWin(Q, u) THEN u ELSE IF InWin(Q, u - 2) THEN u - 2 ELSE u

GenOk(Q) == Q.def # Unset          \* otherwise TypeError: the cost must be given explicitly
InGen(Q, r) == \E iv \in Intervals(Q) : \E x \in {r, r - 1, r + 1, r + 2} : x >= iv[1] /\ x <= iv[2] /\ Final(Q, x) = r
\* representative draws: both ends of every interval and their neighbours
Draws(Q) == UNION {{x \in {iv[1], iv[1] + 1, iv[2] - 1, iv[2], Q.def} : x >= iv[1] /\ x <= iv[2]} : iv \in Intervals(Q)}
GenCandidates(Q) == {Final(Q, x) : x \in Draws(Q)}

\* ---- update check -------------------------------------------------------------------
Needs(Q, r) == \/ Truthy(Q.minD) /\ r < Q.minD
               \/ Truthy(Q.maxD) /\ r > Q.maxD
               \/ Q.quirk = "odd" /\ r % 2 = 0

\* ---- salt size ----------------------------------------------------------------------
\* S = [smin, smax (0 = none), sdef]
UsingSaltSize(S, size, relaxed) ==
    IF size = Unset THEN <<"ok", S>>
    ELSE IF S.smin = S.smax /\ S.smax # 0 THEN
         (IF size # S.smin /\ ~relaxed THEN <<"ValueError">> ELSE <<"ok", [S EXCEPT !.sdef = S.smin]>>)
    ELSE IF size < S.smin THEN (IF relaxed THEN <<"ok", [S EXCEPT !.sdef = S.smin]>> ELSE <<"ValueError">>)
    ELSE IF S.smax # 0 /\ size > S.smax THEN (IF relaxed THEN <<"ok", [S EXCEPT !.sdef = S.smax]>> ELSE <<"ValueError">>)
    ELSE <<"ok", [S EXCEPT !.sdef = size]>>

\* ---- well-formedness of a configured hasher (what C09 promises) -----------------------
InHard(P, v) == v = Unset \/ (v >= P.hmin /\ (P.hmax = 0 \/ v <= P.hmax))
WellFormed(Q) ==
    /\ InHard(Q, Q.minD) /\ InHard(Q, Q.maxD) /\ InHard(Q, Q.def)
    /\ (Truthy(Q.minD) /\ Truthy(Q.maxD)) => Q.minD <= Q.maxD
    /\ (Q.def # Unset) => (Q.def >= (IF Q.minD = Unset THEN 0 ELSE Q.minD) /\ (Truthy(Q.maxD) => Q.def <= Q.maxD))
HasOddInWin(Q) == Q.quirk = "odd" => \E x \in Draws(Q) : InWin(Q, Final(Q, x)) /\ Final(Q, x) % 2 = 1
\* Final is monotone, so the ends of each interval (and the representative draws) decide the whole interval
GenInsideWindow(Q) ==
    (GenOk(Q) /\ HasOddInWin(Q)) => \A r \in GenCandidates(Q) : InWin(Q, r)
FreshNeedsNoUpdate(Q) ==
    \* (for the "odd" quirk a window without any odd number admits no answer; that configuration is excluded)
    (GenOk(Q) /\ HasOddInWin(Q)) => \A r \in GenCandidates(Q) : ~Needs(Q, r)
=============================================================================
