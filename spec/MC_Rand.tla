------------------------------- MODULE MC_Rand -------------------------------
(* exhaustive balancedness / independence at reduced radix; bcrypt's salt      *)
(* repair keeps the last character balanced over its 4 admissible values       *)
EXTENDS Rand, Codec, TLC
CONSTANTS Ws, Ls, MaxN
VARIABLES kind, a, n
Init == \/ kind = "bytes" /\ a \in Ws /\ n \in 1..MaxN /\ a * n <= 12
        \/ kind = "str" /\ a \in Ls /\ n \in 1..MaxN /\ a^n <= 4096
        \/ kind = "minlen" /\ a \in {2, 10, 26, 52, 62, 94, 7776} /\ n \in {1, 8, 28, 36, 48, 56, 60, 64, 128, 256}
        \/ kind = "bcrypt-repair" /\ a = 64 /\ n = 22
Next == FALSE /\ UNCHANGED <<kind, a, n>>
InvBalanced == /\ kind = "bytes" => BalancedBytes(a, n)
               /\ kind = "str" => BalancedStr(a, n)
InvIndependent == /\ (kind = "bytes" /\ n >= 2) => IndependentBytes(a, n)
                  /\ (kind = "str" /\ n >= 2) => IndependentStr(a, n)
\* the least length reaching the entropy exists and is what MinLenOk describes
InvMinLen == kind = "minlen" => \E len \in 1..300 : MinLenOk(a, len, n)
\* bcrypt: the 64 possible last salt characters collapse onto 4 values, 16 each
InvBcryptRepair == kind = "bcrypt-repair" =>
    LET abc == Engines["bcrypt64"].abc
        rep(c) == Repair("bcrypt64", [i \in 1..22 |-> IF i = 22 THEN c ELSE abc[1]])[2][22]
        img == {rep(abc[i]) : i \in 1..64}
    IN Cardinality(img) = 4 /\ \A s \in img : Cardinality({i \in 1..64 : rep(abc[i]) = s}) = 16
=============================================================================
