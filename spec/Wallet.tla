------------------------------- MODULE Wallet -------------------------------
(***************************************************************************)
(* passlib.totp.AppWallet: the table of application secrets that TOTP keys *)
(* are encrypted under, as far as it works without a cipher - reading the  *)
(* `secrets` argument in each of its presentations, the tag rules, the     *)
(* choice of the default tag, and get_secret().  An extension beyond the   *)
(* listed properties, bound inside the C15 check (the wallet is what       *)
(* to_json / from_json consult when a serialised key is encrypted).        *)
(*                                                                         *)
(* A tag is a sequence of one-character strings; a source is a sequence of *)
(* pairs [kind, tag, sec] presented in one of the Forms:                   *)
(*   "none"     secrets=None                                               *)
(*   "dict"     a mapping (keys may be int: kind = "int")                  *)
(*   "json"     the text of a JSON object                                  *)
(*   "line"     one "tag: secret" per line, '#' comments, blanks ignored   *)
(*   "list", "jsonlist"   a list of pairs (refused with a type error, as   *)
(*              the code does - its message notwithstanding)               *)
(* What differs between the forms and is easy to lose in a refactor:       *)
(*   - a mapping / JSON object has already collapsed repeated keys (first  *)
(*     position, last value) before the wallet sees it, so an overwritten  *)
(*     pair is never validated; the line form validates every line;        *)
(*   - int 1 and "1" are different keys of a mapping but the same tag;     *)
(*   - the line form strips blanks round tag and secret, splits on the     *)
(*     FIRST colon, and skips a line whose first non-blank is '#';         *)
(*   - an empty line-form text is not recognised at all (value error);     *)
(*   - default tag: largest by integer value if every tag is digits (the   *)
(*     first such in table order on a tie, "1" vs "01"), else largest in   *)
(*     code-point order; an explicit default must exist (key error) -      *)
(*     unless the table is empty, when it is ignored.                      *)
(***************************************************************************)
EXTENDS Integers, Sequences, FiniteSets, TLC, Json

CONSTANTS TagPool,    \* set of tags
          Secrets,    \* set of secret texts, "" allowed
          MaxPairs,
          Forms,
          Dflts,      \* explicit default tags tried; <<>> = not given
          DoEmit

CharOrder == <<" ", "#", "-", ".", "0", "1", "2", "9", ":", "A", "Z", "_", "a", "b", "z">>     \* code-point order
Ord(c) == CHOOSE k \in 1..Len(CharOrder) : CharOrder[k] = c
Digits == {"0", "1", "2", "9"}
DigitVal(c) == CASE c = "0" -> 0 [] c = "1" -> 1 [] c = "2" -> 2 [] c = "9" -> 9
Alnum == Digits \cup {"A", "Z", "a", "b", "z"}
TagChars == Alnum \cup {"_", ".", "-"}

ValidTag(t) == Len(t) >= 1 /\ t[1] \in Alnum /\ \A j \in 2..Len(t) : t[j] \in TagChars
AllDigits(t) == Len(t) >= 1 /\ \A j \in 1..Len(t) : t[j] \in Digits
Canonical(t) == AllDigits(t) /\ (Len(t) = 1 \/ t[1] # "0")      \* str(int(t)) = t

RECURSIVE IntVal(_), LexLE(_, _), Strip(_)
IntVal(t) == IF t = <<>> THEN 0 ELSE 10 * IntVal(SubSeq(t, 1, Len(t) - 1)) + DigitVal(t[Len(t)])
LexLE(a, b) == IF a = <<>> THEN TRUE
               ELSE IF b = <<>> THEN FALSE
               ELSE IF Ord(a[1]) < Ord(b[1]) THEN TRUE
               ELSE IF Ord(a[1]) > Ord(b[1]) THEN FALSE
               ELSE LexLE(Tail(a), Tail(b))
Strip(t) == IF t = <<>> THEN t
            ELSE IF t[1] = " " THEN Strip(Tail(t))
            ELSE IF t[Len(t)] = " " THEN Strip(SubSeq(t, 1, Len(t) - 1))
            ELSE t

Pair(k, t, s) == [kind |-> k, tag |-> t, sec |-> s]
Idx(n) == [i \in 1..n |-> i]

\* what a Python dict / a JSON object keeps of a sequence of (key, value): first position, last value
Collapse(ps, SameKey(_, _)) ==
    LET n == Len(ps)
        first == SelectSeq(Idx(n), LAMBDA i : \A j \in 1..(i - 1) : ~SameKey(ps[j], ps[i]))
        lastOf(i) == CHOOSE j \in i..n : SameKey(ps[j], ps[i]) /\ \A j2 \in (j + 1)..n : ~SameKey(ps[j2], ps[i])
    IN [m \in 1..Len(first) |-> [ps[first[m]] EXCEPT !.sec = ps[lastOf(first[m])].sec]]

RawSame(p, q) == p.kind = q.kind /\ p.tag = q.tag
TagSame(p, q) == p.tag = q.tag

\* the pairs the wallet gets to see
Seen(form, ps) ==
    CASE form \in {"dict", "json"} -> Collapse(ps, RawSame)
      [] form = "line" -> LET st == [i \in 1..Len(ps) |-> [ps[i] EXCEPT !.tag = Strip(ps[i].tag)]]
                          IN SelectSeq(st, LAMBDA p : ~(p.tag # <<>> /\ p.tag[1] = "#"))
      [] OTHER -> ps

PairOk(p) == ValidTag(p.tag) /\ p.sec # ""

Refused(r) == [res |-> r, tags |-> <<>>, secs |-> <<>>, has |-> FALSE, dflt |-> <<>>]

DefaultOf(tags) ==
    IF \A i \in 1..Len(tags) : AllDigits(tags[i])
    THEN tags[CHOOSE i \in 1..Len(tags) : (\A j \in 1..Len(tags) : IntVal(tags[j]) <= IntVal(tags[i]))
                                           /\ (\A k \in 1..(i - 1) : IntVal(tags[k]) < IntVal(tags[i]))]
    ELSE CHOOSE t \in {tags[i] : i \in 1..Len(tags)} : \A i \in 1..Len(tags) : LexLE(tags[i], t)

Build(form, ps, dflt) ==
    IF form \in {"list", "jsonlist"} THEN Refused("TypeError")
    ELSE IF form = "line" /\ ps = <<>> THEN Refused("ValueError")          \* "" has neither a newline nor a colon
    ELSE LET seen == IF form = "none" THEN <<>> ELSE Seen(form, ps) IN
         IF \E i \in 1..Len(seen) : ~PairOk(seen[i]) THEN Refused("ValueError")
         ELSE LET tab == Collapse(seen, TagSame)
                  tags == [i \in 1..Len(tab) |-> tab[i].tag]
                  secs == [i \in 1..Len(tab) |-> tab[i].sec]
              IN IF tab = <<>> THEN [res |-> "ok", tags |-> <<>>, secs |-> <<>>, has |-> FALSE, dflt |-> <<>>]
                 ELSE IF dflt # <<>> /\ \A i \in 1..Len(tags) : tags[i] # dflt THEN Refused("KeyError")
                 ELSE [res |-> "ok", tags |-> tags, secs |-> secs, has |-> TRUE,
                       dflt |-> IF dflt # <<>> THEN dflt ELSE DefaultOf(tags)]

GetSecret(w, t) == IF \E i \in 1..Len(w.tags) : w.tags[i] = t
                   THEN w.secs[CHOOSE i \in 1..Len(w.tags) : w.tags[i] = t]
                   ELSE "KeyError"

\* ---- the cases ----
PairVals(form) == {Pair(k, t, s) : k \in {"str", "int"}, t \in TagPool, s \in Secrets}
PairsFor(form) == {p \in PairVals(form) : p.kind = "int" => (form \in {"dict", "list"} /\ Canonical(p.tag))}
SourcesFor(form) == IF form = "none" THEN {<<>>} ELSE UNION {[1..n -> PairsFor(form)] : n \in 0..MaxPairs}

VARIABLES form, src, dflt
Init == /\ form \in Forms
        /\ src \in SourcesFor(form)
        /\ dflt \in Dflts
Next == UNCHANGED <<form, src, dflt>>

W == Build(form, src, dflt)
Plain(ps) == /\ \A i \in 1..Len(ps) : ps[i].kind = "str" /\ ps[i].tag = Strip(ps[i].tag) /\ (ps[i].tag = <<>> \/ ps[i].tag[1] # "#")
             /\ \A i, j \in 1..Len(ps) : i # j => ps[i].tag # ps[j].tag
Reverse(ps) == [i \in 1..Len(ps) |-> ps[Len(ps) + 1 - i]]

\* ---- properties of the definition ----
InvShape       == Len(W.tags) = Len(W.secs) /\ (W.has <=> W.tags # <<>>) /\ (W.res # "ok" => W.tags = <<>>)
InvKeysValid   == \A i \in 1..Len(W.tags) : ValidTag(W.tags[i]) /\ W.secs[i] # "" /\ \A j \in 1..Len(W.tags) : i # j => W.tags[i] # W.tags[j]
InvDefaultKnown == W.has => GetSecret(W, W.dflt) # "KeyError"
InvDefaultMax  == (W.has /\ dflt = <<>>) =>
                     IF \A i \in 1..Len(W.tags) : AllDigits(W.tags[i])
                     THEN \A i \in 1..Len(W.tags) : IntVal(W.tags[i]) <= IntVal(W.dflt)
                     ELSE \A i \in 1..Len(W.tags) : LexLE(W.tags[i], W.dflt)
\* a plain table reads the same in every presentation (an empty line-form text is the one exception)
InvFormsAgree  == (Plain(src) /\ src # <<>>) => /\ Build("dict", src, dflt) = Build("json", src, dflt)
                                                /\ Build("dict", src, dflt) = Build("line", src, dflt)
\* the order of a plain table decides nothing but a tie between numerically equal tags
InvOrderFree   == (Plain(src) /\ form \in {"dict", "json", "line"} /\ W.res = "ok"
                   /\ \A i, j \in 1..Len(W.tags) : (i # j /\ AllDigits(W.tags[i]) /\ AllDigits(W.tags[j])) => IntVal(W.tags[i]) # IntVal(W.tags[j]))
                  => Build(form, Reverse(src), dflt).dflt = W.dflt
\* the last value given for a tag is the one stored
InvLastWins    == W.res = "ok" /\ form \in {"dict", "json", "line"} =>
                     \A i \in 1..Len(W.tags) :
                        LET seen == Seen(form, src)
                            js == {j \in 1..Len(seen) : seen[j].tag = W.tags[i]}
                        IN js # {} /\ W.secs[i] = seen[CHOOSE j \in js : \A j2 \in js : j2 <= j].sec

EmitInv == DoEmit => PrintT(<<"EMIT", ToJson([form |-> form, src |-> src, dflt |-> dflt, w |-> W])>>)
=============================================================================
