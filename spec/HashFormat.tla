------------------------------ MODULE HashFormat ------------------------------
(***************************************************************************)
(* C07 / C08: hash strings as structured values.                           *)
(*                                                                         *)
(* A parsed hash is x = [ident, rounds, salt, chk, form] where             *)
(*   rounds : a cost, or Implicit (the format's elided default), or NoCost *)
(*   salt   : a salt class ("none" | "min" | "mid" | "max")                *)
(*   chk    : "digest" | "none" (config-only string)                       *)
(*   form   : how the text spells it: "canon", or one of the documented    *)
(*            non-canonical spellings ("uphex" hex digits in the other     *)
(*            case, "dirtypad" unused bcrypt padding bits set, "explicit"  *)
(*            the elided default cost written out)                         *)
(* A family is a record of grammar facts: which default cost is elided,    *)
(* whether hex case is normalised, whether padding bits are repaired,      *)
(* which idents exist.                                                     *)
(* Parse(Render(x)) = Canon(x); Render(Parse(s)) = Canon(s); the settings  *)
(* reported by parsing are the ones used to make the hash.                 *)
(*                                                                         *)
(* Part Mutate (C08): edits of a valid string and what each public call    *)
(* may answer; a stored hash whose digest or settings were altered never   *)
(* verifies - only the documented re-spellings of the same bits do.        *)
(***************************************************************************)
EXTENDS Naturals, Sequences, FiniteSets

Implicit == 0 - 1
NoCost   == 0 - 2

\* ---- canonical form -------------------------------------------------------------
EffRounds(fam, x) == IF x.rounds = Implicit THEN fam.elided ELSE x.rounds
WellFormed(fam, x) ==
    /\ x.ident \in fam.idents
    /\ (x.rounds = NoCost) = ~fam.hasRounds
    /\ (x.rounds = Implicit => fam.elided # NoCost)
    /\ (x.form = "uphex" => fam.hexnorm) /\ (x.form = "dirtypad" => fam.padrepair)
    /\ (x.form = "altb64" => fam.altb64)      \* "adapted base64" fields written with '+' for '.': both alphabets are documented as read
    /\ (x.form = "explicit" <=> (fam.elided # NoCost /\ x.rounds = fam.elided))
    /\ (x.salt = "none") = ~fam.hasSalt
\* (the written-out default cost is a distinct valid spelling and is kept as it is; only hex case and
\*  padding bits are documented normalisations)
Canon(fam, x) == [x EXCEPT !.form = IF x.form = "explicit" THEN "explicit" ELSE "canon"]

\* Parse(Render(x)): the value the library's parser reports for the text of x
ParseOfRender(fam, x) == [Canon(fam, x) EXCEPT !.rounds = EffRounds(fam, x)]       \* parsing reports the effective cost
\* Render(Parse(s)): the text the library writes back = the canonical spelling
ReRender(fam, x) == Canon(fam, x)

\* ---- mutations (C08) -----------------------------------------------------------------
\* classes of edits of a valid hash text
MutKinds == {"subst-digest", "subst-salt", "subst-settings", "delete", "insert", "truncate", "empty", "drop-field", "dup-sep",
             "zero-pad-number", "huge-number", "nul", "non-ascii", "case-hex", "pad-bits", "bare-ident"}
\* what verify() may answer for a mutant:  TRUE is admissible only for documented re-spellings of the same digest bits
VerifyMayBeTrue(fam, kind) == (kind = "case-hex" /\ fam.hexnorm) \/ (kind = "pad-bits" /\ fam.padrepair)
AllowedIdentify == {"True", "False"}
AllowedVerify(fam, kind) == {"False", "ValueError", "TypeError"} \cup (IF VerifyMayBeTrue(fam, kind) THEN {"True"} ELSE {})
=============================================================================
