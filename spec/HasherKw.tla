------------------------------ MODULE HasherKw ------------------------------
(* C09, hasher-specific settings of using(): keywords other than the shared  *)
(* rounds / salt machinery (scrypt block_size, bcrypt_sha256 version x ident, *)
(* fshp variant, cisco_type7 offset ...).  Every keyword has a normaliser    *)
(* (bounded integer: refused outside its limits, or clamped when relaxed;    *)
(* enumerated: refused when unknown) and the hasher has a validity predicate *)
(* over the RESULTING settings - inherited values included - so that a chain *)
(* of using() calls can never assemble a combination one call would refuse.  *)
(* All values are integers (enumerations are indexed by the harness).        *)
EXTENDS Naturals, Integers, Sequences, TLC, Json
CONSTANTS Keys,       \* set of keyword names
          Kind,       \* key -> "int" | "enum"
          Lo, Hi,     \* key -> hard limits (int keys) / the legal index range (enum keys)
          Cands,      \* key -> values tried, legal and illegal
          Base,       \* key -> value of the global hasher
          HName,      \* which validity predicate applies
          MaxNodes, MaxSteps, DoEmit
Unset == -999
VARIABLES tree,       \* Seq of [s : settings, parent : node]
          n, obs
vars == <<tree, n, obs>>
Init == tree = << [s |-> Base, parent |-> 0] >> /\ n = 0 /\ obs = [op |-> "init", node |-> 0, kw |-> [k \in Keys |-> Unset], relaxed |-> FALSE, res |-> "ok", newnode |-> 0]

\* one keyword: <<"ok", value>> or <<"ValueError">>
Norm(k, v, relaxed) ==
    IF v >= Lo[k] /\ v <= Hi[k] THEN <<"ok", v>>
    ELSE IF Kind[k] = "int" /\ relaxed THEN <<"ok", IF v < Lo[k] THEN Lo[k] ELSE Hi[k]>>
    ELSE <<"ValueError">>
\* validity of a complete settings record
Valid(s) == CASE HName = "bcrypt_sha256" -> (s["version"] = 2 => s["ident"] = 2)     \* version 2 only with ident index 2 ("2b")
              [] HName = "scrypt" -> s["block_size"] * s["parallelism"] <= 1073741823   \* r * p < 2^30
              [] OTHER -> TRUE
Using(parent, kw, relaxed) ==
    LET norms == [k \in Keys |-> IF kw[k] = Unset THEN <<"ok", parent[k]>> ELSE Norm(k, kw[k], relaxed)]
    IN IF \E k \in Keys : norms[k][1] # "ok" THEN <<"ValueError">>
       ELSE LET m == [k \in Keys |-> norms[k][2]] IN IF Valid(m) THEN <<"ok", m>> ELSE <<"ValueError">>
UsingA(node, kw, relaxed) ==
    /\ n < MaxSteps /\ n' = n + 1
    /\ LET r == Using(tree[node].s, kw, relaxed) IN
       /\ tree' = IF r[1] = "ok" /\ Len(tree) < MaxNodes THEN Append(tree, [s |-> r[2], parent |-> node]) ELSE tree
       /\ obs' = [op |-> "using", node |-> node, kw |-> kw, relaxed |-> relaxed, res |-> r[1], newnode |-> IF r[1] = "ok" /\ Len(tree) < MaxNodes THEN Len(tree) + 1 ELSE 0]
\* a fresh hash of node k carries exactly its settings
HashA(node) == /\ n < MaxSteps /\ n' = n + 1 /\ tree' = tree
               /\ obs' = [op |-> "hash", node |-> node, kw |-> tree[node].s, relaxed |-> FALSE, res |-> "ok", newnode |-> 0]
KwSets == [Keys -> UNION {Cands[k] \cup {Unset} : k \in Keys}]
LegalKw(kw) == \A k \in Keys : kw[k] = Unset \/ kw[k] \in Cands[k]
Next == \E node \in 1..Len(tree) : HashA(node) \/ \E kw \in {x \in KwSets : LegalKw(x)}, relaxed \in BOOLEAN : UsingA(node, kw, relaxed)
\* ---- properties ----
InvValid == \A i \in 1..Len(tree) : Valid(tree[i].s) /\ \A k \in Keys : tree[i].s[k] >= Lo[k] /\ tree[i].s[k] <= Hi[k]
Frame == [][\A i \in 1..Len(tree) : tree'[i] = tree[i]]_vars
\* a keyword that was not given is inherited; one that was given and accepted in strict mode is stored as given
Exact == [][(obs'.op = "using" /\ obs'.newnode # 0) =>
             \A k \in Keys : IF obs'.kw[k] = Unset THEN tree'[obs'.newnode].s[k] = tree[obs'.node].s[k]
                             ELSE (~obs'.relaxed => tree'[obs'.newnode].s[k] = obs'.kw[k])]_vars
Emit == DoEmit => PrintT(<<"EMIT", ToJson([n |-> n, op |-> obs'.op, node |-> obs'.node, kw |-> obs'.kw, relaxed |-> obs'.relaxed, res |-> obs'.res,
                                           newnode |-> obs'.newnode, tree |-> tree'])>>)
View == <<tree, n>>
=============================================================================
