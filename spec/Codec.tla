------------------------------- MODULE Codec -------------------------------
(***************************************************************************)
(* Binary <-> text encodings of passlib (property C12; reused by the hash  *)
(* grammars, TOTP key text and the algorithm specs).                       *)
(*                                                                         *)
(* Bytes are Seq(0..255); text is a sequence of character codes.  Each     *)
(* encoding is given twice:                                                *)
(*   (D) definitional: byte string -> bit stream -> 6-bit groups -> chars  *)
(*   (A) arithmetic: the per-3-byte-group shift/mask formulas an           *)
(*       implementation uses.                                              *)
(* TLC checks (A) == (D), decode o encode = id, padding-bit tolerance and  *)
(* repair, the integer codecs, and transposition.  The implementation is   *)
(* bound by replaying emitted (op, engine, input, expected) tuples.        *)
(***************************************************************************)
EXTENDS Naturals, Sequences, FiniteSets, SequencesExt, Functions

Rng(a, b) == [i \in 1..(b - a + 1) |-> a + i - 1]

\* ---- alphabets (from the published descriptions) -----------------------
UPPER  == Rng(65, 90)
LOWER  == Rng(97, 122)
DIGITS == Rng(48, 57)
\* crypt(3) "hash64": ./0-9A-Za-z
HASH64   == <<46, 47>> \o DIGITS \o UPPER \o LOWER
\* OpenBSD bcrypt: ./A-Za-z0-9
BCRYPT64 == <<46, 47>> \o UPPER \o LOWER \o DIGITS
\* RFC 4648 base64: A-Za-z0-9+/
BASE64   == UPPER \o LOWER \o DIGITS \o <<43, 47>>
\* passlib "adapted base64": '.' instead of '+'
AB64     == UPPER \o LOWER \o DIGITS \o <<46, 47>>
\* RFC 4648 base32: A-Z2-7
BASE32   == UPPER \o Rng(50, 55)

Engines == [ h64      |-> [big |-> FALSE, abc |-> HASH64],
             h64big   |-> [big |-> TRUE,  abc |-> HASH64],
             bcrypt64 |-> [big |-> TRUE,  abc |-> BCRYPT64],
             b64s     |-> [big |-> TRUE,  abc |-> BASE64],
             ab64     |-> [big |-> TRUE,  abc |-> AB64] ]

IndexOf(abc, c) == CHOOSE i \in 1..Len(abc) : abc[i] = c
InAbc(abc, c)   == \E i \in 1..Len(abc) : abc[i] = c

\* ---- (D) definitional form ---------------------------------------------
BitsMSB(b, n) == [i \in 1..n |-> (b \div 2^(n - i)) % 2]
BitsLSB(b, n) == [i \in 1..n |-> (b \div 2^(i - 1)) % 2]
ValMSB(bits)  == LET n == Len(bits) IN
                 FoldLeft(LAMBDA acc, i : acc + bits[i] * 2^(n - i), 0, Rng(1, n))
ValLSB(bits)  == FoldLeft(LAMBDA acc, i : acc + bits[i] * 2^(i - 1), 0, Rng(1, Len(bits)))
Zeros(n)      == [i \in 1..n |-> 0]

BitStream(big, bs) == FlattenSeq([i \in 1..Len(bs) |-> IF big THEN BitsMSB(bs[i], 8) ELSE BitsLSB(bs[i], 8)])

\* group a bit stream into chunks of w bits, zero-padding the last chunk
Groups(bits, w) ==
    LET n == (Len(bits) + w - 1) \div w
        padded == bits \o Zeros(n * w - Len(bits))
    IN [k \in 1..n |-> SubSeq(padded, (k - 1) * w + 1, k * w)]

Enc6D(big, bs) == LET g == Groups(BitStream(big, bs), 6)
                  IN [k \in 1..Len(g) |-> IF big THEN ValMSB(g[k]) ELSE ValLSB(g[k])]

\* decoding: 6-bit values -> bit stream -> whole bytes (left-over bits dropped)
Dec6D(big, vs) ==
    LET bits == FlattenSeq([i \in 1..Len(vs) |-> IF big THEN BitsMSB(vs[i], 6) ELSE BitsLSB(vs[i], 6)])
        n == Len(bits) \div 8
    IN [k \in 1..n |-> LET b == SubSeq(bits, (k - 1) * 8 + 1, k * 8) IN IF big THEN ValMSB(b) ELSE ValLSB(b)]

\* ---- (A) arithmetic form (per group of 3 bytes, tails of 1 and 2) --------
And(x, m) == x % (m + 1)        \* m = 2^k - 1 only
Shr(x, k) == x \div 2^k
Shl(x, k) == x * 2^k

GroupLittle(v1, v2, v3) == << And(v1, 63), Shl(And(v2, 15), 2) + Shr(v1, 6),
                              Shl(And(v3, 3), 4) + Shr(v2, 4), Shr(v3, 2) >>
GroupBig(v1, v2, v3)    == << Shr(v1, 2), Shl(And(v1, 3), 4) + Shr(v2, 4),
                              Shl(And(v2, 15), 2) + Shr(v3, 6), And(v3, 63) >>
TailLittle(t) == IF Len(t) = 1 THEN << And(t[1], 63), Shr(t[1], 6) >>
                 ELSE << And(t[1], 63), Shl(And(t[2], 15), 2) + Shr(t[1], 6), Shr(t[2], 4) >>
TailBig(t)    == IF Len(t) = 1 THEN << Shr(t[1], 2), Shl(And(t[1], 3), 4) >>
                 ELSE << Shr(t[1], 2), Shl(And(t[1], 3), 4) + Shr(t[2], 4), Shl(And(t[2], 15), 2) >>

Enc6A(big, bs) ==
    LET chunks == Len(bs) \div 3
        tail   == SubSeq(bs, chunks * 3 + 1, Len(bs))
        body   == FlattenSeq([k \in 1..chunks |->
                     IF big THEN GroupBig(bs[3*k-2], bs[3*k-1], bs[3*k])
                            ELSE GroupLittle(bs[3*k-2], bs[3*k-1], bs[3*k])])
    IN body \o (IF tail = <<>> THEN <<>> ELSE IF big THEN TailBig(tail) ELSE TailLittle(tail))

\* ---- text level -----------------------------------------------------------
ToText(abc, vs)   == [i \in 1..Len(vs) |-> abc[vs[i] + 1]]
FromText(abc, tx) == [i \in 1..Len(tx) |-> IndexOf(abc, tx[i]) - 1]
ValidText(abc, tx) == \A i \in 1..Len(tx) : InAbc(abc, tx[i])

Encode(e, bs) == ToText(Engines[e].abc, Enc6D(Engines[e].big, bs))
\* Result of decoding: <<"ok", bytes>> or <<"ValueError">>
\* ab64 input may use either '.' or '+' for value 62 (documented transition aid)
NormIn(e, tx) == IF e = "ab64" THEN [i \in 1..Len(tx) |-> IF tx[i] = 43 THEN 46 ELSE tx[i]] ELSE tx
Decode(e, tx0) ==
    LET tx == NormIn(e, tx0) IN
    IF Len(tx) % 4 = 1 \/ ~ValidText(Engines[e].abc, tx) THEN <<"ValueError">>
    ELSE <<"ok", Dec6D(Engines[e].big, FromText(Engines[e].abc, tx))>>

\* number of unused (padding) bits in the last character of a text of length n
PadBits(n) == (n * 6) % 8
\* Clearing the unused bits of the last 6-bit value.
ClearPad(big, v, pb) == IF big THEN (v \div 2^pb) * 2^pb ELSE v % 2^(6 - pb)
Repair(e, tx) ==
    IF Len(tx) % 4 = 1 THEN <<"ValueError">>
    ELSE IF tx = <<>> THEN <<"ok", tx>>
    ELSE LET abc == Engines[e].abc
             n == Len(tx)
             v == IndexOf(abc, tx[n]) - 1
         IN <<"ok", [tx EXCEPT ![n] = abc[ClearPad(Engines[e].big, v, PadBits(n)) + 1]]>>

\* standard padded base64 (RFC 4648) by definition: big-endian groups + '='
StdB64(bs) == Encode("b64s", bs) \o [i \in 1..((3 - (Len(bs) % 3)) % 3) |-> 61]

\* ---- integer codecs ---------------------------------------------------------
\* value given as an LSB-first bit vector of exactly `bits` bits (so 64-bit
\* values never have to be TLC integers)
IntChars(bits) == (bits + 5) \div 6
EncIntBits(e, vb) ==
    LET big == Engines[e].big
        n   == IntChars(Len(vb))
        pad == n * 6 - Len(vb)
        \* big: value shifted left by pad, digits most significant first
        msb == Reverse(vb) \o Zeros(pad)
        \* little: digits least significant first, top digit zero-extended
        lsb == vb \o Zeros(pad)
    IN ToText(Engines[e].abc,
              [k \in 1..n |-> IF big THEN ValMSB(SubSeq(msb, 6*k-5, 6*k)) ELSE ValLSB(SubSeq(lsb, 6*k-5, 6*k))])
EncInt(e, v, bits) == EncIntBits(e, BitsLSB(v, bits))

\* decode: returns LSB-first bit vector of `bits` bits, pad bits dropped (big: low pad bits; little: high)
DecIntBits(e, tx, bits) ==
    IF Len(tx) # IntChars(bits) \/ ~ValidText(Engines[e].abc, tx) THEN <<"ValueError">>
    ELSE LET big == Engines[e].big
             vs  == FromText(Engines[e].abc, tx)
             all == FlattenSeq([i \in 1..Len(vs) |-> IF big THEN BitsMSB(vs[i], 6) ELSE BitsLSB(vs[i], 6)])
         IN <<"ok", IF big THEN Reverse(SubSeq(all, 1, bits)) ELSE SubSeq(all, 1, bits)>>

\* ---- transposition ------------------------------------------------------------
\* offsets are 0-based as in the implementation
EncodeTransposed(e, bs, offs) == Encode(e, [i \in 1..Len(offs) |-> bs[offs[i] + 1]])
DecodeTransposed(e, tx, offs) ==
    LET d == Decode(e, tx) IN
    IF d[1] # "ok" THEN d
    ELSE <<"ok", [j \in 1..Len(offs) |-> d[2][CHOOSE i \in 1..Len(offs) : offs[i] = j - 1]]>>

\* ---- base32 (RFC 4648, unpadded on output; typo repair on input) --------------
B32Encode(bs) == LET g == Groups(BitStream(TRUE, bs), 5)
                 IN [k \in 1..Len(g) |-> BASE32[ValMSB(g[k]) + 1]]
\* input normalisation: lower -> upper, '8' -> 'B', '0' -> 'O'
B32Norm(c) == IF c \in 97..122 THEN c - 32 ELSE IF c = 56 THEN 66 ELSE IF c = 48 THEN 79 ELSE c
\* valid unpadded lengths mod 8 (RFC 4648 section 6): 0,2,4,5,7
B32Decode(tx) ==
    LET t == [i \in 1..Len(tx) |-> B32Norm(tx[i])] IN
    IF ~ValidText(BASE32, t) \/ (Len(t) % 8) \in {1, 3, 6} THEN <<"ValueError">>
    ELSE LET vs == FromText(BASE32, t)
             bits == FlattenSeq([i \in 1..Len(vs) |-> BitsMSB(vs[i], 5)])
             n == Len(bits) \div 8
         IN <<"ok", [k \in 1..n |-> ValMSB(SubSeq(bits, (k-1)*8+1, k*8))]>>
=============================================================================
