-------------------------------- MODULE Rand --------------------------------
(***************************************************************************)
(* C06: how the library turns a uniform random source into salts, keys and *)
(* passwords.  Uniformity given a uniform source is a statement about a    *)
(* map: the helper asks the source for a value uniform on a set S and maps *)
(* S onto the output space so that every output has the same number of     *)
(* pre-images.                                                             *)
(*   RandBytes(W, n): one request getrandbits(W*n); output symbol i        *)
(*       (0-based) = (v div 2^(W*i)) mod 2^W          (the library: W = 8) *)
(*   RandStr(L, n):   one request randrange(0, L^n);  output symbol i      *)
(*       = alphabet[(v div L^i) mod L]; L = 1 needs no request             *)
(* TLC proves balancedness and position independence at reduced radix for  *)
(* the radix-generic formulas; the binding checks the real helpers compute *)
(* exactly these formulas at W = 8 / the real L.                           *)
(***************************************************************************)
EXTENDS Naturals, Sequences, FiniteSets, Prim

BytesOut(W, n, v) == [i \in 1..n |-> (v \div 2^(W * (i - 1))) % 2^W]
StrIdx(L, n, v)   == [i \in 1..n |-> (v \div L^(i - 1)) % L]

\* balanced: every output has exactly |S| / |outputs| pre-images (here: the map is a bijection)
BalancedBytes(W, n) == LET S == 0..(2^(W * n) - 1) IN
                       Cardinality({BytesOut(W, n, v) : v \in S}) = Cardinality(S)
BalancedStr(L, n)   == LET S == 0..(L^n - 1) IN
                       /\ Cardinality({StrIdx(L, n, v) : v \in S}) = Cardinality(S)
                       /\ \A v \in S : \A i \in 1..n : StrIdx(L, n, v)[i] \in 0..(L - 1)
\* any two positions are jointly uniform: every pair of symbols occurs equally often
IndependentStr(L, n) == \A i, j \in 1..n : i # j =>
                           \A a, b \in 0..(L - 1) :
                              Cardinality({v \in 0..(L^n - 1) : StrIdx(L, n, v)[i] = a /\ StrIdx(L, n, v)[j] = b}) = L^(n - 2)
IndependentBytes(W, n) == \A i, j \in 1..n : i # j =>
                           \A a, b \in 0..(2^W - 1) :
                              Cardinality({v \in 0..(2^(W*n) - 1) : BytesOut(W, n, v)[i] = a /\ BytesOut(W, n, v)[j] = b}) = 2^(W * (n - 2))

\* shortest length whose symbol space carries the requested entropy: L^n >= 2^e  (limb arithmetic)
Enough(L, n, e) == LGeq(LPow(L, n), LPow(2, e))
MinLenOk(L, n, e) == Enough(L, n, e) /\ (n > 1 => ~Enough(L, n - 1, e))
=============================================================================
