-------------------------------- MODULE Formats --------------------------------
(* The remaining formats' published algorithms as term programs (C02).  Inputs: *)
(* "password" (bytes), "salt" (raw bytes or the salt text, as the format has    *)
(* it), "user", "realm".  Primitive symbols PBKDF2 / HMAC / scrypt / the bcrypt *)
(* core are C11's subject and are evaluated by trusted libraries here.          *)
EXTENDS ShaCrypt
USER == In("user")
REALM == In("realm")
P0(out) == [defs |-> <<>>, out |-> out]
LEGroups(n) == \* crypt radix-64 of n bytes taken three at a time, first byte least significant (phpass, cisco, des "h64")
    [k \in 1..((n + 2) \div 3) |->
        LET b == 3 * (k - 1) IN
        IF b + 2 < n THEN <<b + 2, b + 1, b, 4>> ELSE IF b + 1 < n THEN <<-1, b + 1, b, 3>> ELSE <<-1, -1, b, 2>>]
--------------------------------------------------------------------------------
\* plain and salted digests
HexDigest(alg) == P0(Hex(Hash(alg, PW)))
LdapDigest(tag, alg) == P0(Cat2(Str(tag), B64(Hash(alg, PW))))
LdapSalted(tag, alg) == P0(Cat2(Str(tag), B64(Cat2(Hash(alg, Cat2(PW, SALT)), SALT))))
Mysql41 == P0(Cat2(Str("*"), UpperHex(Hash("sha1", Hash("sha1", PW)))))
PostgresMd5 == P0(Cat2(Str("md5"), Hex(Hash("md5", Cat2(PW, USER)))))
Oracle11 == P0(Cat3(Str("S:"), UpperHex(Hash("sha1", Cat2(PW, SALT))), UpperHex(SALT)))
Mssql2000 == P0(Cat4(Str("0x0100"), UpperHex(SALT), UpperHex(Hash("sha1", Cat2(Utf16le(PW), SALT))), UpperHex(Hash("sha1", Cat2(Utf16le(Upper(PW)), SALT)))))
Mssql2005 == P0(Cat3(Str("0x0100"), UpperHex(SALT), UpperHex(Hash("sha1", Cat2(Utf16le(PW), SALT)))))
HtDigest == P0(Hex(Hash("md5", CatSeq(<<USER, Str(":"), REALM, Str(":"), PW>>))))
DjangoSalted(tag, alg) == P0(Cat4(Str(tag), SALT, Str("$"), Hex(Hash(alg, Cat2(SALT, PW)))))
\* phpass (portable hashes): md5(salt + pw), then 2^cost times md5(previous + pw)
H64Char(n) == <<"h64char", n>>
PhPass(ident, cost) ==
    [defs |-> <<<<"c0", Hash("md5", Cat2(SALT, PW))>>>> \o [i \in 1..(2^cost) |-> <<Name("c", i), Hash("md5", Cat2(Ref(Name("c", i - 1)), PW))>>],
     out |-> Cat4(Str(ident), H64Char(cost), SALT, H64Groups(Ref(Name("c", 2^cost)), LEGroups(16)))]
\* FSHP: PBKDF1 with the roles of password and salt exchanged; salt and digest stored together
FshpAlg(v) == CASE v = 0 -> "sha1" [] v = 1 -> "sha256" [] v = 2 -> "sha384" [] OTHER -> "sha512"
Fshp(v, slen, rounds) ==
    [defs |-> [j \in 1..rounds |-> <<Name("t", j), Hash(FshpAlg(v), IF j = 1 THEN Cat2(SALT, PW) ELSE Ref(Name("t", j - 1)))>>],
     out |-> CatSeq(<<Str("{FSHP"), Dec(v), Str("|"), Dec(slen), Str("|"), Dec(rounds), Str("}"), B64(Cat2(SALT, Ref(Name("t", rounds))))>>)]
\* cisco "encrypted" passwords: user mixed in, NUL padded, MD5, every 4th byte dropped
Keep12 == <<"select", <<0, 1, 2, 4, 5, 6, 8, 9, 10, 12, 13, 14>>>>
CiscoPix(plen, ulen) ==
    LET withUser == IF ulen > 0 THEN Cat2(PW, Rep(USER, 4)) ELSE PW
        n == IF ulen > 0 THEN plen + 4 ELSE plen
    IN P0(H64Groups(<<"select", Hash("md5", PadZero(Take(withUser, 16), 16)), Keep12[2]>>, LEGroups(12)))
CiscoAsa(plen, ulen) ==
    LET mix == ulen > 0 /\ plen < 28
        withUser == IF mix THEN Cat2(PW, Rep(USER, 4)) ELSE PW
        n == IF mix THEN plen + 4 ELSE plen
        pad == IF n > 16 THEN 32 ELSE 16
    IN P0(H64Groups(<<"select", Hash("md5", PadZero(Take(withUser, pad), pad)), Keep12[2]>>, LEGroups(12)))
\* cisco type 7: a two-digit offset, then each byte xored with the well-known key text, in upper-case hex
CiscoType7(offset) == P0(Cat2(<<"dec2", offset>>, UpperHex(<<"xorkey", PW, Str("dsfd;kfoA,.iyewrkldJKDHSUBsgvca69834ncxv9873254k;fg87"), offset>>)))
--------------------------------------------------------------------------------
\* PBKDF2 family (the KDF is a primitive symbol)
Pbkdf2Mcf(ident, alg, rounds, n) == P0(CatSeq(<<Str(ident), Dec(rounds), Str("$"), AB64(SALT), Str("$"), AB64(Pbkdf2(alg, PW, SALT, rounds, n))>>))
Atlassian == P0(Cat2(Str("{PKCS5S2}"), B64(Cat2(SALT, Pbkdf2("sha1", PW, SALT, 10000, 32)))))
Grub(rounds) == P0(CatSeq(<<Str("grub.pbkdf2.sha512."), Dec(rounds), Str("."), UpperHex(SALT), Str("."), UpperHex(Pbkdf2("sha512", PW, SALT, rounds, 64))>>))
Cta(rounds) == P0(CatSeq(<<Str("$p5k2$"), <<"hexint", rounds>>, Str("$"), <<"b64url", SALT>>, Str("$"), <<"b64url", Pbkdf2("sha1", PW, SALT, rounds, 20)>>>>))
\* dlitz: the whole configuration text "$p5k2$<rounds>$<salt>" is the KDF's salt; 400 rounds are written as the empty string
DlitzCfg(rounds) == CatSeq(<<Str("$p5k2$"), IF rounds = 400 THEN Str("") ELSE <<"hexint", rounds>>, Str("$"), SALT>>)
Dlitz(rounds) == P0(Cat3(DlitzCfg(rounds), Str("$"), AB64(Pbkdf2("sha1", PW, DlitzCfg(rounds), rounds, 24))))
DjangoPbkdf2(tag, alg, rounds, n) == P0(CatSeq(<<Str(tag), Dec(rounds), Str("$"), SALT, Str("$"), B64(Pbkdf2(alg, PW, SALT, rounds, n))>>))
ScryptMcf(ln, r, p) == P0(CatSeq(<<Str("$scrypt$ln="), Dec(ln), Str(",r="), Dec(r), Str(",p="), Dec(p), Str("$"), B64NoPad(SALT), Str("$"), B64NoPad(Scrypt(PW, SALT, 2^ln, r, p, 32))>>))
\* the "$7$" spelling (scrypt's own crypt format): log2(N) as one radix-64 digit, r and p as 30-bit little-endian radix-64 numbers,
\* the salt text as it is, the 32-byte key in crypt's little-endian radix-64
ScryptSeven(ln, r, p) == P0(CatSeq(<<Str("$7$"), H64Char(ln), <<"h64int", r, 5>>, <<"h64int", p, 5>>, SALT, Str("$"), H64Groups(Scrypt(PW, SALT, 2^ln, r, p, 32), LEGroups(32))>>))
\* scram: one PBKDF2 digest per algorithm over the SASLprep'd password (SaltedPassword of RFC 5802)
ScramDigest(alg, rounds) == P0(Pbkdf2(alg, <<"saslprep", PW>>, SALT, rounds, 0))
--------------------------------------------------------------------------------
\* bcrypt family (the core is a primitive symbol); only the first 72 bytes of the key count
BcryptKey(ident, plen) == IF ident = "2" THEN (IF plen = 0 THEN PW ELSE Rep(PW, 72)) ELSE Take(PW, 72)
Bcrypt(ident, cost, plen) == P0(CatSeq(<<Str("$"), Str(ident), Str("$"), <<"dec2", cost>>, Str("$"), SALT, BcryptCore(IF ident = "2" THEN "2a" ELSE ident, BcryptKey(ident, plen), SALT, cost)>>))
BcryptSha256(version, cost) ==
    LET key == IF version = 1 THEN B64(Hash("sha256", PW)) ELSE B64(Hmac3("sha256", SALT, PW)) IN
    P0(CatSeq((IF version = 1 THEN <<Str("$bcrypt-sha256$2b,"), Dec(cost)>> ELSE <<Str("$bcrypt-sha256$v=2,t=2b,r="), Dec(cost)>>)
              \o <<Str("$"), SALT, Str("$"), BcryptCore("2b", key, SALT, cost)>>))
DjangoBcryptSha256(cost) == P0(CatSeq(<<Str("bcrypt_sha256$$2b$"), <<"dec2", cost>>, Str("$"), SALT, BcryptCore("2b", Hex(Hash("sha256", PW)), SALT, cost)>>))
--------------------------------------------------------------------------------
\* wrappers: a prefix in front of another format's string; plaintext "formats"
Prefixed(prefix, prog) == [defs |-> prog.defs, out |-> Cat2(Str(prefix), prog.out)]
Plain(prefix) == P0(Cat2(Str(prefix), PW))
LdapHex(tag, alg) == P0(Cat2(Str(tag), Hex(Hash(alg, PW))))
=============================================================================
