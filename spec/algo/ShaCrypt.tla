------------------------------- MODULE ShaCrypt -------------------------------
(* SHA-crypt (Ulrich Drepper, "Unix crypt using SHA-256 and SHA-512", the       *)
(* numbered steps of the specification), md5-crypt (Poul-Henning Kamp's         *)
(* crypt-md5.c) and sha1-crypt (NetBSD crypt-sha1.c) as term programs (C02).    *)
(* The program depends on the SHAPE only: password length, salt length, rounds. *)
EXTENDS Terms, SequencesExt
\* binary digits of n, least significant first, up to the highest 1 bit (empty for 0)
RECURSIVE BitsLSB(_)
BitsLSB(n) == IF n = 0 THEN <<>> ELSE <<n % 2>> \o BitsLSB(n \div 2)
PW == In("password")
SALT == In("salt")
--------------------------------------------------------------------------------
\* ---- SHA-crypt ----
Sha256Groups == << <<0, 10, 20, 4>>, <<21, 1, 11, 4>>, <<12, 22, 2, 4>>, <<3, 13, 23, 4>>, <<24, 4, 14, 4>>, <<15, 25, 5, 4>>,
                   <<6, 16, 26, 4>>, <<27, 7, 17, 4>>, <<18, 28, 8, 4>>, <<9, 19, 29, 4>>, <<-1, 31, 30, 3>> >>
Sha512Groups == << <<0, 21, 42, 4>>, <<22, 43, 1, 4>>, <<44, 2, 23, 4>>, <<3, 24, 45, 4>>, <<25, 46, 4, 4>>, <<47, 5, 26, 4>>,
                   <<6, 27, 48, 4>>, <<28, 49, 7, 4>>, <<50, 8, 29, 4>>, <<9, 30, 51, 4>>, <<31, 52, 10, 4>>, <<53, 11, 32, 4>>,
                   <<12, 33, 54, 4>>, <<34, 55, 13, 4>>, <<56, 14, 35, 4>>, <<15, 36, 57, 4>>, <<37, 58, 16, 4>>, <<59, 17, 38, 4>>,
                   <<18, 39, 60, 4>>, <<40, 61, 19, 4>>, <<62, 20, 41, 4>>, <<-1, -1, 63, 2>> >>
\* steps 1-12 (digest A), 13-16 (P), 17-20 (S), 21 (rounds), 22 (encoding)
ShaCryptProg(alg, hlen, plen, rounds, explicitRounds) ==
    LET B == <<"B", Hash(alg, Cat3(PW, SALT, PW))>>                                               \* steps 4-8
        full == plen \div hlen                                                                      \* step 9: B once per full block of the password length
        step9 == [k \in 1..full |-> Ref("B")] \o <<Take(Ref("B"), plen % hlen)>>                    \* step 10: the remainder
        step11 == [k \in 1..Len(BitsLSB(plen)) |-> IF BitsLSB(plen)[k] = 1 THEN Ref("B") ELSE PW]   \* step 11
        A == <<"A", Hash(alg, CatSeq(<<PW, SALT>> \o step9 \o step11))>>                            \* steps 1-3, 9-12
        DP == <<"DP", Hash(alg, Rep(PW, plen * plen))>>                                             \* steps 13-15: the password, once per password byte
        P == <<"P", Rep(Ref("DP"), plen)>>                                                          \* step 16
        DS == <<"DS", Hash(alg, RepDyn(SALT, 16, Ref("A")))>>                                       \* steps 17-19: 16 + A[0] copies of the salt
        S == <<"S", TakeLen(Ref("DS"), SALT)>>                                                      \* step 20: as long as the salt (at most 16 < digest size)
        prev(i) == IF i = 0 THEN Ref("A") ELSE Ref(Name("c", i - 1))
        round(i) == <<Name("c", i),                                                                 \* step 21 a-h
                      Hash(alg, CatSeq(<<IF i % 2 = 1 THEN Ref("P") ELSE prev(i)>>
                                       \o (IF i % 3 # 0 THEN <<Ref("S")>> ELSE <<>>)
                                       \o (IF i % 7 # 0 THEN <<Ref("P")>> ELSE <<>>)
                                       \o <<IF i % 2 = 1 THEN prev(i) ELSE Ref("P")>>))>>
    IN [defs |-> <<B, A, DP, P, DS, S>> \o [i \in 1..rounds |-> round(i - 1)],
        out |-> CatSeq(<<Str(IF alg = "sha256" THEN "$5$" ELSE "$6$")>>
                       \o (IF explicitRounds THEN <<Str("rounds="), Dec(rounds), Str("$")>> ELSE <<>>)
                       \o <<SALT, Str("$"), H64Groups(prev(rounds), IF alg = "sha256" THEN Sha256Groups ELSE Sha512Groups)>>)]
--------------------------------------------------------------------------------
\* ---- md5-crypt / apr-md5-crypt (magic "$1$" / "$apr1$") ----
Md5Groups == << <<0, 6, 12, 4>>, <<1, 7, 13, 4>>, <<2, 8, 14, 4>>, <<3, 9, 15, 4>>, <<4, 10, 5, 4>>, <<-1, -1, 11, 2>> >>
Md5CryptProg(magic, plen) ==
    LET B == <<"B", Hash("md5", Cat3(PW, SALT, PW))>>
        \* "for (pl = strlen(pw); pl > 0; pl -= 16) update(final, min(16, pl))"
        stretch == [k \in 1..(plen \div 16) |-> Ref("B")] \o <<Take(Ref("B"), plen % 16)>>
        \* "for (i = strlen(pw); i; i >>= 1) if (i & 1) update(\0) else update(pw[0])"
        weird == [k \in 1..Len(BitsLSB(plen)) |-> IF BitsLSB(plen)[k] = 1 THEN Lit(<<0>>) ELSE Take(PW, 1)]
        A == <<"A", Hash("md5", CatSeq(<<PW, Str(magic), SALT>> \o stretch \o weird))>>
        prev(i) == IF i = 0 THEN Ref("A") ELSE Ref(Name("c", i - 1))
        round(i) == <<Name("c", i),
                      Hash("md5", CatSeq(<<IF i % 2 = 1 THEN PW ELSE prev(i)>>
                                         \o (IF i % 3 # 0 THEN <<SALT>> ELSE <<>>)
                                         \o (IF i % 7 # 0 THEN <<PW>> ELSE <<>>)
                                         \o <<IF i % 2 = 1 THEN prev(i) ELSE PW>>))>>
    IN [defs |-> <<B, A>> \o [i \in 1..1000 |-> round(i - 1)],
        out |-> Cat4(Str(magic), SALT, Str("$"), H64Groups(prev(1000), Md5Groups))]
--------------------------------------------------------------------------------
\* ---- sha1-crypt: HMAC-SHA1 keyed with the password, iterated ----
Sha1Groups == << <<0, 1, 2, 4>>, <<3, 4, 5, 4>>, <<6, 7, 8, 4>>, <<9, 10, 11, 4>>, <<12, 13, 14, 4>>, <<15, 16, 17, 4>>, <<18, 19, 0, 4>> >>
Sha1CryptProg(rounds) ==
    LET first == <<"c1", Hmac3("sha1", PW, Cat3(SALT, Str("$sha1$"), Dec(rounds)))>>
        next(i) == <<Name("c", i), Hmac3("sha1", PW, Ref(Name("c", i - 1)))>>
    IN [defs |-> <<first>> \o [i \in 1..(rounds - 1) |-> next(i + 1)],
        out |-> CatSeq(<<Str("$sha1$"), Dec(rounds), Str("$"), SALT, Str("$"), H64Groups(Ref(Name("c", rounds)), Sha1Groups)>>)]
\* ---- design-level facts ----
\* the number of hash computations is fixed by the shape: B, A, DP, DS and one per round
CountSha(alg, hlen, plen, rounds) == Len(ShaCryptProg(alg, hlen, plen, rounds, TRUE).defs) = 6 + rounds
=============================================================================
