---------------------------- MODULE MC_TlcFormats ----------------------------
EXTENDS TlcFormats, TLC, Json, IOUtils
Cases == JsonDeserialize(IOEnv.TRACE_FILE)
VARIABLES i, done
Init == i \in 1..Len(Cases) /\ done = FALSE
Result(c) == CASE c.fmt = "des_crypt" -> DesCryptDigits(c.pw, c.salt)
               [] c.fmt = "bsdi_crypt" -> BsdiCryptDigits(c.pw, c.rounds, c.salt)
               [] c.fmt = "bigcrypt" -> BigCryptDigits(c.pw, c.salt)
               [] c.fmt = "crypt16" -> Crypt16Digits(c.pw, c.salt)
               [] c.fmt = "lmhash" -> LmHash(c.pw)
               [] c.fmt = "oracle10" -> Oracle10(c.pw)
               [] c.fmt = "nthash" -> NtHash(c.pw)
               [] c.fmt = "msdcc" -> Msdcc(c.pw, c.user)
               [] c.fmt = "mysql323" -> Mysql323(c.pw)
               [] OTHER -> <<>>
Next == ~done /\ done' = TRUE /\ i' = i /\ PrintT(<<"EMIT", ToJson([case |-> i, out |-> Result(Cases[i])])>>)
=============================================================================
