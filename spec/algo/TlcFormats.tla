------------------------------ MODULE TlcFormats ------------------------------
(* Formats whose primitive no trusted library offers on this host (DES, MD4)    *)
(* and one format that is pure 32-bit arithmetic: specified completely in TLA+  *)
(* over prim/Des.tla, prim/Md4.tla, prim/Word32.tla and evaluated by TLC (C02). *)
(* Passwords arrive as byte sequences (text transformations such as upper-case  *)
(* or UTF-16 are done by the harness with Python's str methods).                *)
EXTENDS Des, Md4
\* crypt(3) DES key: the low 7 bits of each of the first 8 password bytes, then a parity position; short passwords are NUL padded
KeyOf8(bytes) == BitsOfBytes([k \in 1..8 |-> IF k <= Len(bytes) THEN (bytes[k] % 128) * 2 ELSE 0])
Zero64 == [k \in 1..64 |-> 0]
Chunk(bytes, j) == SubSeq(bytes, 8 * (j - 1) + 1, IF 8 * j < Len(bytes) THEN 8 * j ELSE Len(bytes))      \* j-th 8-byte piece
\* 64 bits -> 11 radix-64 digits, most significant first, two zero bits appended (values 0..63; the harness maps them to "./0-9A-Za-z")
Digits11(bits) == LET b == bits \o <<0, 0>> IN [k \in 1..11 |-> 32 * b[6*k - 5] + 16 * b[6*k - 4] + 8 * b[6*k - 3] + 4 * b[6*k - 2] + 2 * b[6*k - 1] + b[6*k]]
\* des_crypt: 25 iterations on the zero block, 12-bit salt
DesCryptDigits(pw, salt12) == Digits11(DesCrypt(KeyOf8(pw), Zero64, salt12, 25))
\* bsdi_crypt: long passwords are folded into the key: key = DES_key(key) xor next chunk's key
BsdiKey(pw) == LET n == IF Len(pw) = 0 THEN 1 ELSE (Len(pw) + 7) \div 8 IN
               FoldLeft(LAMBDA key, j : XorBits(DesCrypt(key, key, 0, 1), KeyOf8(Chunk(pw, j))), KeyOf8(Chunk(pw, 1)), [j \in 1..(n - 1) |-> j + 1])
BsdiCryptDigits(pw, rounds, salt24) == Digits11(DesCrypt(BsdiKey(pw), Zero64, salt24, rounds))
\* bigcrypt: 8-byte segments, each hashed like des_crypt; segment k+1 is salted with the first two digits of segment k's result
\* (HP-UX stops after 16 segments; the library documents that it does not: "accepts arbitrarily large passwords, producing arbitrarily large hashes")
SaltOfDigits(d) == d[1] + 64 * d[2]
BigCryptDigits(pw, salt12) ==
    LET n0 == (Len(pw) + 7) \div 8
        n == IF n0 = 0 THEN 1 ELSE n0
        first == DesCryptDigits(Chunk(pw, 1), salt12)
    IN FoldLeft(LAMBDA acc, j : LET prev == SubSeq(acc, Len(acc) - 10, Len(acc)) IN acc \o DesCryptDigits(Chunk(pw, j), SaltOfDigits(prev)), first, [j \in 1..(n - 1) |-> j + 1])
\* crypt16 (Ultrix): first 8 bytes with 20 iterations, next 8 bytes with 5, same salt
Crypt16Digits(pw, salt12) == Digits11(DesCrypt(KeyOf8(Chunk(pw, 1)), Zero64, salt12, 20))
                             \o Digits11(DesCrypt(KeyOf8(IF Len(pw) > 8 THEN SubSeq(pw, 9, IF Len(pw) < 16 THEN Len(pw) ELSE 16) ELSE <<>>), Zero64, salt12, 5))
\* LAN Manager: 14 bytes (upper-cased, OEM code page - done by the harness), two 7-byte DES keys encrypting "KGS!@#$%"
Magic == BitsOfBytes(<<75, 71, 83, 33, 64, 35, 36, 37>>)
LmHalf(seven) == BytesOfBits(DesOnce(Magic, KeySchedule(Expand56(BitsOfBytes(seven))), SaltBits(0)))
LmHash(pw14) == LmHalf(SubSeq(pw14, 1, 7)) \o LmHalf(SubSeq(pw14, 8, 14))
\* Oracle 10g: DES-CBC-MAC of the (UTF-16-BE, upper-cased, NUL-padded) user||password with the fixed key, then again with the result as key
CbcLast(keyBits, data) == LET ks == KeySchedule(keyBits) IN
    FoldLeft(LAMBDA iv, j : DesOnce(XorBits(iv, BitsOfBytes(SubSeq(data, 8 * (j - 1) + 1, 8 * j))), ks, SaltBits(0)), Zero64, [j \in 1..(Len(data) \div 8) |-> j])
Oracle10(data) == LET k2 == CbcLast(BitsOfBytes(<<1, 35, 69, 103, 137, 171, 205, 239>>), data) IN BytesOfBits(CbcLast(k2, data))
\* NT hash and domain cached credentials (inputs already UTF-16-LE)
NtHash(pw16) == Md4(pw16)
Msdcc(pw16, user16) == Md4(Md4(pw16) \o user16)
\* MySQL 3.23 OLD_PASSWORD(): 32-bit arithmetic; blanks and tabs are skipped
W32(n) == <<n \div 65536, n % 65536>>
MulSmall(w, t) == LET lo == w[2] * t  hi == w[1] * t + (lo \div M16) IN <<hi % M16, lo % M16>>          \* t < 2^15
Shl8(w) == <<((w[1] % 256) * 256) + (w[2] \div 256), (w[2] % 256) * 256>>
Mysql323(pw) ==
    LET st == FoldLeft(LAMBDA s, c : IF c = 32 \/ c = 9 THEN s ELSE
                          LET nr == s[1]  nr2 == s[2]  add == s[3]
                              t1 == WAdd(W32(nr[2] % 64), add)                       \* (nr & 63) + add
                              nr1 == WXor(nr, WAdd(MulSmall(t1, c), Shl8(nr)))       \* nr ^= ((nr & 63) + add) * c + (nr << 8)
                              nr2n == WAdd(nr2, WXor(Shl8(nr2), nr1))               \* nr2 += (nr2 << 8) ^ nr
                          IN <<nr1, nr2n, WAdd(add, W32(c))>>,
                       << <<20528, 22325>>, <<4660, 22129>>, <<0, 7>> >>, pw)            \* 1345345333 = 0x50305735, 0x12345671, 7
    IN WToBE(<<st[1][1] % 32768, st[1][2]>>) \o WToBE(<<st[2][1] % 32768, st[2][2]>>)    \* & 0x7fffffff each
=============================================================================
