------------------------------- MODULE MC_Algo -------------------------------
(* prints the program of each requested shape (C02); the shapes come from the  *)
(* harness (password length, salt length, rounds, variant) as a JSON list      *)
EXTENDS Formats, Json, IOUtils
Shapes == JsonDeserialize(IOEnv.TRACE_FILE)
VARIABLES i, done
Init == i \in 1..Len(Shapes) /\ done = FALSE
RECURSIVE Prog(_)
Prog(s) == CASE s.fmt = "prefixed" -> Prefixed(s.tag, Prog(s.inner))
             [] s.fmt = "plain" -> Plain(s.tag)
             [] s.fmt = "ldap_hex" -> LdapHex(s.tag, s.alg)
             [] s.fmt = "sha256_crypt" -> ShaCryptProg("sha256", 32, s.plen, s.rounds, s.explicit)
             [] s.fmt = "sha512_crypt" -> ShaCryptProg("sha512", 64, s.plen, s.rounds, s.explicit)
             [] s.fmt = "md5_crypt" -> Md5CryptProg("$1$", s.plen)
             [] s.fmt = "apr_md5_crypt" -> Md5CryptProg("$apr1$", s.plen)
             [] s.fmt = "sha1_crypt" -> Sha1CryptProg(s.rounds)
             [] s.fmt = "hex" -> HexDigest(s.alg)
             [] s.fmt = "ldap_digest" -> LdapDigest(s.tag, s.alg)
             [] s.fmt = "ldap_salted" -> LdapSalted(s.tag, s.alg)
             [] s.fmt = "mysql41" -> Mysql41
             [] s.fmt = "postgres_md5" -> PostgresMd5
             [] s.fmt = "oracle11" -> Oracle11
             [] s.fmt = "mssql2000" -> Mssql2000
             [] s.fmt = "mssql2005" -> Mssql2005
             [] s.fmt = "htdigest" -> HtDigest
             [] s.fmt = "django_salted" -> DjangoSalted(s.tag, s.alg)
             [] s.fmt = "phpass" -> PhPass(s.tag, s.rounds)
             [] s.fmt = "fshp" -> Fshp(s.variant, s.slen, s.rounds)
             [] s.fmt = "cisco_pix" -> CiscoPix(s.plen, s.ulen)
             [] s.fmt = "cisco_asa" -> CiscoAsa(s.plen, s.ulen)
             [] s.fmt = "cisco_type7" -> CiscoType7(s.rounds)
             [] s.fmt = "pbkdf2" -> Pbkdf2Mcf(s.tag, s.alg, s.rounds, s.n)
             [] s.fmt = "atlassian" -> Atlassian
             [] s.fmt = "grub" -> Grub(s.rounds)
             [] s.fmt = "cta" -> Cta(s.rounds)
             [] s.fmt = "dlitz" -> Dlitz(s.rounds)
             [] s.fmt = "django_pbkdf2" -> DjangoPbkdf2(s.tag, s.alg, s.rounds, s.n)
             [] s.fmt = "scrypt" -> ScryptMcf(s.rounds, s.r, s.p)
             [] s.fmt = "scrypt7" -> ScryptSeven(s.rounds, s.r, s.p)
             [] s.fmt = "scram" -> ScramDigest(s.alg, s.rounds)
             [] s.fmt = "bcrypt" -> Bcrypt(s.tag, s.rounds, s.plen)
             [] s.fmt = "bcrypt_sha256" -> BcryptSha256(s.variant, s.rounds)
             [] s.fmt = "django_bcrypt_sha256" -> DjangoBcryptSha256(s.rounds)
             [] OTHER -> [defs |-> <<>>, out |-> <<"error", "unknown format">>]
Next == ~done /\ done' = TRUE /\ i' = i /\ PrintT(<<"EMIT", ToJson([shape |-> i, prog |-> Prog(Shapes[i])])>>)
=============================================================================
