---------------------------- MODULE MC_ContextLife ----------------------------
(* C10: configuration life-cycle of CryptContext objects - load, update, copy, *)
(* export/import round trips, failed changes.  Two context objects: the second *)
(* is made by copy() of the first, after which they must be independent.       *)
EXTENDS Context, Json, SequencesExt, FiniteSetsExt

CONSTANTS KwChoices, MaxOps, DoEmit,
          CtxKwNames,   \* scheme names that take a context keyword (user=..)
          Faulty        \* scheme names whose customisation can be made to raise (fault injection), subset of AllNames

VARIABLES ctx,      \* <<cfg1, cfg2>>; cfg2 = NoCfg until copy()
          has2, n, obs
vars == <<ctx, has2, n, obs>>

NoCfg == [schemes |-> <<>>, def |-> [c \in Cats |-> "unset"], depK |-> [c \in Cats |-> "unset"],
          depL |-> [c \in Cats |-> {}], opts |-> [k \in Cats \X OptNames |-> NoKw]]
NoPatch == [hasSchemes |-> FALSE, cfg |-> NoCfg]
Obs0 == [op |-> "init", i |-> 1, arg |-> NoPatch, armed |-> FALSE, res |-> <<"ok">>]

Init == ctx = <<NoCfg, NoCfg>> /\ has2 = FALSE /\ n = 0 /\ obs = Obs0
Step == n < MaxOps /\ n' = n + 1

\* a patch sets what it mentions and keeps the rest
Overlay(live, p) ==
    [schemes |-> IF p.hasSchemes THEN p.cfg.schemes ELSE live.schemes,
     def  |-> [c \in Cats |-> IF p.cfg.def[c] # "unset" THEN p.cfg.def[c] ELSE live.def[c]],
     depK |-> [c \in Cats |-> IF p.cfg.depK[c] # "unset" THEN p.cfg.depK[c] ELSE live.depK[c]],
     depL |-> [c \in Cats |-> IF p.cfg.depK[c] # "unset" THEN p.cfg.depL[c] ELSE live.depL[c]],
     opts |-> [k \in Cats \X OptNames |-> Merge(live.opts[k], p.cfg.opts[k])]]
IsEmptyPatch(p) == ~p.hasSchemes /\ p.cfg = NoCfg

\* errors of a candidate configuration; a faulty scheme being customised while armed raises too
ErrorsF(c, armed) == Errors(c) \cup (IF armed /\ \E s \in Faulty : s \in Names(c) THEN {"RuntimeError"} ELSE {})

Set(i, c) == [ctx EXCEPT ![i] = c]

\* load(): replaces the whole configuration - or fails and changes nothing
LoadA(i, p, armed) ==
    /\ Step /\ (i = 2 => has2) /\ has2' = has2
    /\ LET c == Overlay(NoCfg, p) e == ErrorsF(c, armed) IN
       /\ ctx' = IF e = {} THEN Set(i, c) ELSE ctx
       /\ obs' = [Obs0 EXCEPT !.op = "load", !.i = i, !.arg = p, !.armed = armed, !.res = IF e = {} THEN <<"ok">> ELSE <<"error", e>>]

\* update(): replaces exactly the given keys - or fails and changes nothing; an empty update does nothing at all
UpdateA(i, p, armed) ==
    /\ Step /\ (i = 2 => has2) /\ has2' = has2
    /\ LET c == Overlay(ctx[i], p)
           e == IF IsEmptyPatch(p) THEN {} ELSE ErrorsF(c, armed) IN
       /\ ctx' = IF e = {} THEN Set(i, c) ELSE ctx
       /\ obs' = [Obs0 EXCEPT !.op = "update", !.i = i, !.arg = p, !.armed = armed, !.res = IF e = {} THEN <<"ok">> ELSE <<"error", e>>]

\* copy(): the second object becomes an independent context with the same configuration
CopyA ==
    /\ Step /\ has2' = TRUE
    /\ ctx' = Set(2, ctx[1])
    /\ obs' = [Obs0 EXCEPT !.op = "copy", !.i = 2]

\* export + import through format f gives the same configuration
RoundTripA(i, f) ==
    /\ Step /\ (i = 2 => has2) /\ has2' = has2 /\ ctx' = ctx
    /\ obs' = [Obs0 EXCEPT !.op = f, !.i = i]

\* ---- random patches (simulation) ----
Eager(S, Op(_)) == FoldSet(LAMBDA x, acc : (x :> Op(x)) @@ acc, <<>>, S)
AllSeqs == UNION {{s \in [1..k -> AllNames] : \A a, b \in 1..k : a # b => s[a] # s[b]} : k \in 0..3}
RandPatch(live, full) ==
    LET hs == full \/ RandomElement(1..4) = 1
        ss == IF hs THEN RandomElement(AllSeqs) ELSE live.schemes
        nm == {ss[j] : j \in 1..Len(ss)}
        w  == IF full THEN 2 ELSE 5
        dk == Eager(Cats, LAMBDA c : IF RandomElement(1..w) = 1 THEN RandomElement({"auto", "list"}) ELSE "unset")
    IN [hasSchemes |-> hs,
        cfg |-> [schemes |-> IF hs THEN ss ELSE <<>>,
                 def  |-> Eager(Cats, LAMBDA c : IF RandomElement(1..w) = 1 THEN RandomElement(nm \cup {RandomElement(AllNames)}) ELSE "unset"),
                 depK |-> dk,
                 depL |-> Eager(Cats, LAMBDA c : IF dk[c] = "list" THEN (IF RandomElement(1..10) = 1 THEN RandomElement(SUBSET AllNames) ELSE RandomElement(SUBSET nm)) ELSE {}),
                 opts |-> Eager(Cats \X OptNames, LAMBDA k : IF (k[2] \in nm \/ k[2] = "all") /\ RandomElement(1..w) = 1 THEN RandomElement(KwChoices[k[2]]) ELSE NoKw)]]

SimNext ==
    LET i == IF has2 THEN RandomElement({1, 2}) ELSE 1
        w == RandomElement(1..10)
        armed == RandomElement(1..5) = 1
    IN IF n = 0 THEN LET p == RandPatch(NoCfg, TRUE) IN LoadA(1, p, FALSE)
       ELSE CASE w \in {1, 2} -> LET p == RandPatch(ctx[i], TRUE) IN LoadA(i, p, armed)
              [] w \in {3, 4, 5, 6} -> LET p == RandPatch(ctx[i], FALSE) IN UpdateA(i, p, armed)
              [] w = 7 -> CopyA
              [] w = 8 -> RoundTripA(i, "to_dict")
              [] w = 9 -> RoundTripA(i, "to_string")
              [] OTHER -> IF RandomElement(1..2) = 1 THEN UpdateA(i, NoPatch, armed)      \* an empty change: nothing happens
                          ELSE LoadA(i, NoPatch, armed)                                    \* an empty configuration REPLACES what was there

\* exhaustive exploration uses a fixed small set of patches
CONSTANTS ExPatches
Next == \E i \in {1, 2}, p \in ExPatches, armed \in BOOLEAN : LoadA(i, p, armed) \/ UpdateA(i, p, armed)
        \/ CopyA \/ \E j \in {1, 2}, f \in {"to_dict", "to_string"} : RoundTripA(j, f)

\* ---- properties (C10) -------------------------------------------------------------------
\* every live configuration is valid (or the untouched empty one)
InvLiveValid == \A i \in {1, 2} : ctx[i] = NoCfg \/ Errors(ctx[i]) = {}
\* a failed change changes nothing - on either object
FailedChangesNothing == [][obs'.res[1] = "error" => ctx' = ctx]_vars
\* operations on one object never touch the other (copy() excepted for its target)
Independent == [][\A j \in {1, 2} : (j # obs'.i) => ctx'[j] = ctx[j]]_vars
\* update() replaces exactly the given keys
UpdateExact == [][(obs'.op = "update" /\ obs'.res[1] = "ok") =>
                    LET p == obs'.arg  i == obs'.i IN
                    /\ (~p.hasSchemes => ctx'[i].schemes = ctx[i].schemes)
                    /\ \A c \in Cats : (p.cfg.def[c] = "unset" => ctx'[i].def[c] = ctx[i].def[c])
                                       /\ (p.cfg.depK[c] = "unset" => (ctx'[i].depK[c] = ctx[i].depK[c] /\ ctx'[i].depL[c] = ctx[i].depL[c]))
                    /\ \A k \in Cats \X OptNames : p.cfg.opts[k] = NoKw => ctx'[i].opts[k] = ctx[i].opts[k]]_vars
\* an empty update is a no-op
EmptyUpdateNoop == [][(obs'.op = "update" /\ IsEmptyPatch(obs'.arg)) => ctx' = ctx]_vars

CfgOut(c) == [schemes |-> c.schemes, def |-> c.def, depK |-> c.depK, depL |-> c.depL,
              opts |-> {[cat |-> k[1], name |-> k[2], kw |-> c.opts[k]] : k \in {kk \in DOMAIN c.opts : c.opts[kk] # NoKw}}]
StandingHash(s) == [scheme |-> s, rounds |-> Unset, pw |-> "p", flagged |-> FALSE]
Probe(c) == IF c.schemes = <<>> THEN [defaults |-> <<>>, recs |-> {}, ident |-> <<>>, vkw |-> <<>>]
            ELSE [defaults |-> [k \in Cats |-> DefaultScheme(c, k)],
                  ident |-> [s \in AllNames |-> Identify(c, StandingHash(s))],
                  \* verifying with a context keyword (user=..) supplied: schemes that do not use it must not see it
                  \* (a context none of whose schemes takes the keyword passes it through, and the hasher refuses it)
                  vkw |-> [s \in AllNames |-> LET r == Verify(c, "p", StandingHash(s)) IN
                                              IF r = "ValueError" \/ Names(c) \cap CtxKwNames # {} THEN r ELSE "TypeError"],
                  recs |-> {[cat |-> k, name |-> s, p |-> Record(c, s, k)[2], dep |-> Deprecated(c, s, k)] : k \in Cats, s \in Names(c)}]
Emit == DoEmit => PrintT(<<"EMIT", ToJson([n |-> n, op |-> obs'.op, i |-> obs'.i, armed |-> obs'.armed, res |-> obs'.res,
                                           patch |-> [hasSchemes |-> obs'.arg.hasSchemes, cfg |-> CfgOut(obs'.arg.cfg)],
                                           has2 |-> has2',
                                           live |-> <<CfgOut(ctx'[1]), CfgOut(ctx'[2])>>,
                                           probe |-> <<Probe(ctx'[1]), Probe(ctx'[2])>>])>>)
View == <<ctx, has2, n>>
=============================================================================
