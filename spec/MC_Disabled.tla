----------------------------- MODULE MC_Disabled -----------------------------
EXTENDS Disabled, TLC, Json
CONSTANTS Kinds,      \* set of handler lists (Greedy, of Disabled.tla, is a constant too)
          MaxOps, DoEmit
VARIABLES kind, x, known, n, obs,
          memo        \* the configuration the context's remembered dummy hash was made under: "unset", "with" or "without" the real scheme
vars == <<kind, x, known, n, obs, memo>>
Cfg(k) == IF k THEN "with" ELSE "without"
Obs0 == [op |-> "init", arg |-> "", res |-> <<"ok">>]
Init == kind \in Kinds /\ x \in (Stored \ {"D"}) /\ known = TRUE /\ n = 0 /\ obs = Obs0 /\ memo = "unset"
Step == n < MaxOps /\ n' = n + 1 /\ kind' = kind
DisableA == /\ Step /\ known' = known /\ memo' = memo
            /\ LET r == Disable(kind, x) IN x' = r[2] /\ obs' = [op |-> "disable", arg |-> x, res |-> r]
EnableA  == /\ Step /\ x \notin {"None"} /\ known' = known /\ memo' = memo
            /\ LET r == Enable(kind, known, x) IN
               /\ x' = IF r[1] = "ok" /\ r[2] # "Dtail" THEN r[2] ELSE x
               /\ obs' = [op |-> "enable", arg |-> x, res |-> r]
\* a missing credential costs a dummy verification, whose hash is made once per configuration and remembered
VerifyA(right) == /\ Step /\ UNCHANGED <<x, known>>
                  /\ memo' = IF x = "None" THEN Cfg(known) ELSE memo
                  /\ obs' = [op |-> "verify", arg |-> IF right THEN "right" ELSE "wrong", res |-> <<Verify(kind, known, right, x)>>]
IsEnabledA == /\ Step /\ UNCHANGED <<x, known, memo>> /\ x # "None"
              /\ obs' = [op |-> "is_enabled", arg |-> x, res |-> <<IsEnabled(kind, known, x)>>]
\* load() of a configuration without (resp. again with) the real scheme; the disabled handlers stay
\* by any route - load(mapping), load(text), update(...) in place: every one forgets the remembered dummy hash
Routes == {"load", "text", "update"}
ReloadA(how) == /\ Step /\ x' = x /\ known' = ~known /\ memo' = "unset"
                /\ obs' = [op |-> "reload", arg |-> (IF known THEN "drop" ELSE "restore") \o ":" \o how, res |-> <<"ok">>]
Next == DisableA \/ EnableA \/ IsEnabledA \/ (\E how \in Routes : ReloadA(how)) \/ \E r \in BOOLEAN : VerifyA(r)
Rnd(S, d) == IF d >= 0 THEN RandomElement(S) ELSE CHOOSE e \in S : TRUE
SimNext == \E w \in {Rnd(1..10, n)}, b \in {Rnd(BOOLEAN, n)} :
           CASE w \in {1, 2, 3} -> DisableA [] w \in {4, 5} -> EnableA [] w = 6 -> IsEnabledA [] w = 7 -> (\E how \in {Rnd(Routes, n)} : ReloadA(how)) [] OTHER -> VerifyA(b)
\* histories of an account that does not exist, across reconfigurations by every route
InitNone == kind \in Kinds /\ x = "None" /\ known = TRUE /\ n = 0 /\ obs = Obs0 /\ memo = "unset"
SimNextNone == \E w \in {Rnd(1..5, n)}, b \in {Rnd(BOOLEAN, n)} :
               CASE w \in {1, 2, 3} -> VerifyA(b) [] OTHER -> (\E how \in {Rnd(Routes, n)} : ReloadA(how))

\* a disabled account never logs in
InvNoLogin == (obs.op = "verify" /\ obs.res[1] = "True") => x = "H"
\* a missing credential never logs in and is never an error, whatever was (re)configured before
InvNoneFalse == (obs.op = "verify" /\ x = "None") => obs.res = <<"False">>
\* the remembered dummy hash always belongs to the configuration in force
InvMemoCurrent == memo # "unset" => memo = Cfg(known)
\* what disable() produces is recognised as disabled and stays so when disabled again
InvDisableDisables == obs.op = "disable" => (IsDisabled(kind, known, x) /\ Disable(kind, x)[1] = "ok" /\ IsDisabled(kind, known, Disable(kind, x)[2]))
\* disable then enable restores the original hash exactly (schemes that embed it)
RestoreExact == [][(obs'.op = "enable" /\ obs'.res[1] = "ok" /\ obs'.arg \in {"M1H", "M2H"} /\ Ident(kind, known, obs'.arg) \in {"unix1", "unix2"}) => x' = "H"]_vars
\* an embedded hash can always be got back when the string is attributed to a unix-style handler
RestoreAlways == [][(obs'.op = "enable" /\ obs'.arg \in {"M1H", "M2H"} /\ Ident(kind, known, obs'.arg) \in {"unix1", "unix2"}) => obs'.res = <<"ok", "H">>]_vars
\* enabling a normal hash returns it unchanged
EnableNormal == [][(obs'.op = "enable" /\ obs'.arg = "H" /\ known) => (obs'.res = <<"ok", "H">> /\ x' = "H")]_vars
\* the original hash is never lost by disabling an account that has one (unix style first)
InvHashKept == (kind[1] # "django" /\ obs.op = "disable" /\ obs.arg \in {"H", "M1H", "M2H"}) => x \in {"M1H", "M2H"}
Emit == DoEmit => PrintT(<<"EMIT", ToJson([n |-> n, kind |-> kind, op |-> obs'.op, arg |-> obs'.arg, res |-> obs'.res,
                                           x0 |-> IF n = 0 THEN x ELSE "", x |-> x', known |-> known', memo |-> memo'])>>)
=============================================================================
