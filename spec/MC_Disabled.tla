----------------------------- MODULE MC_Disabled -----------------------------
EXTENDS Disabled, TLC, Json
CONSTANTS Kinds,      \* set of handler lists (Greedy, of Disabled.tla, is a constant too)
          MaxOps, DoEmit
VARIABLES kind, x, known, n, obs
vars == <<kind, x, known, n, obs>>
Obs0 == [op |-> "init", arg |-> "", res |-> <<"ok">>]
Init == kind \in Kinds /\ x \in (Stored \ {"D"}) /\ known = TRUE /\ n = 0 /\ obs = Obs0
Step == n < MaxOps /\ n' = n + 1 /\ kind' = kind
DisableA == /\ Step /\ known' = known
            /\ LET r == Disable(kind, x) IN x' = r[2] /\ obs' = [op |-> "disable", arg |-> x, res |-> r]
EnableA  == /\ Step /\ x \notin {"None"} /\ known' = known
            /\ LET r == Enable(kind, known, x) IN
               /\ x' = IF r[1] = "ok" /\ r[2] # "Dtail" THEN r[2] ELSE x
               /\ obs' = [op |-> "enable", arg |-> x, res |-> r]
VerifyA(right) == /\ Step /\ UNCHANGED <<x, known>>
                  /\ obs' = [op |-> "verify", arg |-> IF right THEN "right" ELSE "wrong", res |-> <<Verify(kind, known, right, x)>>]
IsEnabledA == /\ Step /\ UNCHANGED <<x, known>> /\ x # "None"
              /\ obs' = [op |-> "is_enabled", arg |-> x, res |-> <<IsEnabled(kind, known, x)>>]
\* load() of a configuration without (resp. again with) the real scheme; the disabled handlers stay
ReloadA == /\ Step /\ x' = x /\ known' = ~known
           /\ obs' = [op |-> "reload", arg |-> IF known THEN "drop" ELSE "restore", res |-> <<"ok">>]
Next == DisableA \/ EnableA \/ IsEnabledA \/ ReloadA \/ \E r \in BOOLEAN : VerifyA(r)
Rnd(S, d) == IF d >= 0 THEN RandomElement(S) ELSE CHOOSE e \in S : TRUE
SimNext == \E w \in {Rnd(1..10, n)}, b \in {Rnd(BOOLEAN, n)} :
           CASE w \in {1, 2, 3} -> DisableA [] w \in {4, 5} -> EnableA [] w = 6 -> IsEnabledA [] w = 7 -> ReloadA [] OTHER -> VerifyA(b)

\* a disabled account never logs in
InvNoLogin == (obs.op = "verify" /\ obs.res[1] = "True") => x = "H"
\* a missing credential never logs in and is never an error, whatever was (re)configured before
InvNoneFalse == (obs.op = "verify" /\ x = "None") => obs.res = <<"False">>
\* what disable() produces is recognised as disabled and stays so when disabled again
InvDisableDisables == obs.op = "disable" => (IsDisabled(kind, known, x) /\ Disable(kind, x)[1] = "ok" /\ IsDisabled(kind, known, Disable(kind, x)[2]))
\* disable then enable restores the original hash exactly (schemes that embed it)
RestoreExact == [][(obs'.op = "enable" /\ obs'.res[1] = "ok" /\ obs'.arg \in {"M1H", "M2H"} /\ Ident(kind, known, obs'.arg) \in {"unix1", "unix2"}) => x' = "H"]_vars
\* an embedded hash can always be got back when the string is attributed to a unix-style handler
RestoreAlways == [][(obs'.op = "enable" /\ obs'.arg \in {"M1H", "M2H"} /\ Ident(kind, known, obs'.arg) \in {"unix1", "unix2"}) => obs'.res = <<"ok", "H">>]_vars
\* enabling a normal hash returns it unchanged
EnableNormal == [][(obs'.op = "enable" /\ obs'.arg = "H" /\ known) => (obs'.res = <<"ok", "H">> /\ x' = "H")]_vars
\* the original hash is never lost by disabling an account that has one (unix style first)
InvHashKept == (kind[1] # "django" /\ obs.op = "disable" /\ obs.arg \in {"H", "M1H", "M2H"}) => x \in {"M1H", "M2H"}
Emit == DoEmit => PrintT(<<"EMIT", ToJson([n |-> n, kind |-> kind, op |-> obs'.op, arg |-> obs'.arg, res |-> obs'.res,
                                           x0 |-> IF n = 0 THEN x ELSE "", x |-> x', known |-> known'])>>)
=============================================================================
