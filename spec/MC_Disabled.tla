----------------------------- MODULE MC_Disabled -----------------------------
EXTENDS Disabled, TLC, Json
CONSTANTS Kinds, MaxOps, DoEmit
VARIABLES kind, x, everH, n, obs
vars == <<kind, x, everH, n, obs>>
Obs0 == [op |-> "init", arg |-> "", res |-> <<"ok">>]
Init == kind \in Kinds /\ x \in (Stored \ {"D"}) /\ everH = (x \in {"H", "M1H", "M2H"}) /\ n = 0 /\ obs = Obs0
Step == n < MaxOps /\ n' = n + 1 /\ kind' = kind
DisableA == /\ Step
            /\ LET r == Disable(kind, x) IN x' = r[2] /\ obs' = [op |-> "disable", arg |-> x, res |-> r]
            /\ everH' = everH
EnableA  == /\ Step /\ x \notin {"None"}
            /\ LET r == Enable(kind, x) IN
               /\ x' = IF r[1] = "ok" /\ r[2] # "Dtail" THEN r[2] ELSE x
               /\ obs' = [op |-> "enable", arg |-> x, res |-> r]
            /\ everH' = everH
VerifyA(right) == /\ Step /\ UNCHANGED <<x, everH>>
                  /\ obs' = [op |-> "verify", arg |-> IF right THEN "right" ELSE "wrong", res |-> <<Verify(kind, right, x)>>]
IsEnabledA == /\ Step /\ UNCHANGED <<x, everH>> /\ x # "None"
              /\ obs' = [op |-> "is_enabled", arg |-> x, res |-> <<IsEnabled(kind, x)>>]
Next == DisableA \/ EnableA \/ IsEnabledA \/ \E r \in BOOLEAN : VerifyA(r)
SimNext == LET w == RandomElement(1..8) IN
           CASE w \in {1, 2, 3} -> DisableA [] w \in {4, 5} -> EnableA [] w = 6 -> IsEnabledA [] OTHER -> VerifyA(RandomElement(BOOLEAN))

\* a disabled account never logs in
InvNoLogin == (obs.op = "verify" /\ obs.res[1] = "True") => x = "H"
\* what disable() produces is recognised as disabled and stays so when disabled again
InvDisableDisables == obs.op = "disable" => (IsDisabled(kind, x) /\ Disable(kind, x)[1] = "ok" /\ IsDisabled(kind, Disable(kind, x)[2]))
\* disable then enable restores the original hash exactly (schemes that embed it)
RestoreExact == [][(obs'.op = "enable" /\ obs'.res[1] = "ok" /\ obs'.arg \in {"M1H", "M2H"}) => x' = "H"]_vars
\* enabling a normal hash returns it unchanged
EnableNormal == [][(obs'.op = "enable" /\ obs'.arg = "H") => (obs'.res = <<"ok", "H">> /\ x' = "H")]_vars
\* the original hash is never lost by disabling an account that has one (unix style)
InvHashKept == (kind # "django" /\ obs.op = "disable" /\ obs.arg \in {"H", "M1H", "M2H"}) => x \in {"M1H", "M2H"}
Emit == DoEmit => PrintT(<<"EMIT", ToJson([n |-> n, kind |-> kind, op |-> obs'.op, arg |-> obs'.arg, res |-> obs'.res,
                                           x0 |-> IF n = 0 THEN x ELSE "", x |-> x'])>>)
=============================================================================
