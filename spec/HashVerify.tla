------------------------------ MODULE HashVerify ------------------------------
(***************************************************************************)
(* C01 / C05: which passwords verify against a hash, per hasher class.     *)
(* A password is a sequence of symbols; Bytes() gives its encoded bytes    *)
(* (characters are not bytes: "m2" is one character of two bytes).         *)
(*   a  "a"      A  "A" (case partner of a)     b  "b"     sp  blank       *)
(*   tb  tab (a blank too)    nl  line feed, ff  form feed: white space but NOT blanks  *)
(*   hi  a single byte differing from "a" only in bit 7 (bytes input only) *)
(*   m2  a two-byte character      nul  NUL      f  a filler byte          *)
(* A hasher class is a record of its documented equivalences:              *)
(*   trunc  (0 = none) only the first trunc BYTES matter                   *)
(*   strip8 only the low 7 bits of each byte matter (DES family)           *)
(*   fold   letter case is ignored                                         *)
(*   blanks blanks are ignored (mysql323)                                  *)
(*   nul    "reject" | "allow"                                             *)
(*   reject passwords longer than trunc are refused on hash and never      *)
(*          verify (cisco_pix/asa), instead of being truncated             *)
(*   disabled  nothing ever verifies                                       *)
(* and two settings: te (truncate_error on) and the library-wide maximum.  *)
(***************************************************************************)
EXTENDS Naturals, Sequences, FiniteSets, SequencesExt

Symbols == {"a", "A", "b", "sp", "tb", "nl", "ff", "hi", "m2", "nul", "f"}
\* abstract bytes: <<letter, high bit>>; the two bytes of m2 are distinct from everything else
SymBytes(s) == CASE s = "a" -> <<"a">> [] s = "A" -> <<"A">> [] s = "b" -> <<"b">> [] s = "sp" -> <<"sp">> [] s = "tb" -> <<"tb">> [] s = "nl" -> <<"nl">> [] s = "ff" -> <<"ff">>
                 [] s = "hi" -> <<"a^">> [] s = "m2" -> <<"m2x", "m2y">> [] s = "nul" -> <<"nul">> [] OTHER -> <<"f">>
Bytes(p) == FlattenSeq([i \in 1..Len(p) |-> SymBytes(p[i])])

Strip8(b) == IF b = "a^" THEN "a" ELSE b
Fold(b)   == IF b = "A" THEN "a" ELSE b
Canon(cls, bs) ==
    LET t == IF cls.trunc > 0 /\ Len(bs) > cls.trunc THEN SubSeq(bs, 1, cls.trunc) ELSE bs
        s == IF cls.strip8 THEN [i \in 1..Len(t) |-> Strip8(t[i])] ELSE t
        c == IF cls.fold THEN [i \in 1..Len(s) |-> Fold(s[i])] ELSE s
    IN IF cls.blanks THEN SelectSeq(c, LAMBDA b : b \notin {"sp", "tb"}) ELSE c      \* space and tab, nothing else

HasNul(bs) == \E i \in 1..Len(bs) : bs[i] = "nul"

\* hash(): <<"ok", canonical bytes>> or an error class
HashOf(cls, te, maxlen, p) ==
    LET bs == Bytes(p) IN
    IF Len(bs) > maxlen THEN <<"SizeError">>
    ELSE IF cls.nul = "reject" /\ HasNul(bs)
         THEN (IF cls.trunc > 0 /\ Len(bs) > cls.trunc /\ te /\ ~cls.reject
               THEN <<"NullOrTruncateError">>      \* two reasons to refuse: the property does not rank them
               ELSE <<"NullError">>)
    ELSE IF cls.trunc > 0 /\ Len(bs) > cls.trunc /\ cls.reject THEN <<"SizeError">>
    ELSE IF cls.trunc > 0 /\ Len(bs) > cls.trunc /\ te THEN <<"TruncateError">>
    ELSE <<"ok", Canon(cls, bs)>>

\* verify(): "True" | "False" | an error class
\* (with truncate_error enabled nothing longer than the limit verifies either - "no extension of the
\*  password verifies against the result")
VerifyOf(cls, te, maxlen, stored, q) ==
    LET bs == Bytes(q) IN
    IF Len(bs) > maxlen THEN "SizeError"
    ELSE IF cls.nul = "reject" /\ HasNul(bs) THEN "NullError"
    ELSE IF cls.disabled THEN "False"
    ELSE IF cls.trunc > 0 /\ Len(bs) > cls.trunc /\ (cls.reject \/ te) THEN "False"
    ELSE IF Canon(cls, bs) = stored THEN "True" ELSE "False"

\* near misses of p: every single-symbol substitution, deletion, extension, and every proper prefix
Near(p, Sy) ==
    {[p EXCEPT ![i] = s] : i \in 1..Len(p), s \in Sy}
    \cup {SubSeq(p, 1, i - 1) \o SubSeq(p, i + 1, Len(p)) : i \in 1..Len(p)}
    \cup {Append(p, s) : s \in Sy} \cup {<<s>> \o p : s \in Sy}
    \cup {SubSeq(p, 1, k) : k \in 0..Len(p)}
=============================================================================
