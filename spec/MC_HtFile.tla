------------------------------ MODULE MC_HtFile ------------------------------
(* Histories of operations on one HtpasswdFile / HtdigestFile object (C16).   *)
EXTENDS HtFile, TLC, Json

CONSTANTS InitContents,   \* set of initial file contents (sequences of lines)
          MaxOps, DoEmit

VARIABLES lines, recs,     \* in-memory object
          touched,         \* keys set or deleted since the last load (their position is the library's choice)
          disk, dmt,       \* disk file content (or NoFile) and its modification stamp
          dtouched,        \* keys whose position in the disk file was chosen by the library (touched when it wrote the file)
          lmt,             \* stamp remembered at the last load/save; 0 = unknown
          autosave, n, obs

vars == <<lines, recs, touched, disk, dmt, dtouched, lmt, autosave, n, obs>>

Obs(op, arg, res) == [op |-> op, arg |-> arg, res |-> res, val |-> <<>>]

\* the object is constructed bound to a path: either loading an existing file or new=True
Init ==
    /\ autosave \in BOOLEAN /\ n = 0 /\ touched = {} /\ dtouched = {} /\ dmt = 1
    /\ \E c \in InitContents :
          LET p == Parse(c) IN
          /\ p[1] = "ok"                       \* constructor on a malformed file raises; nothing to explore
          /\ disk = c /\ lines = p[2] /\ recs = p[3] /\ lmt = 1
    /\ obs = Obs("init", <<>>, "ok")

Step == n < MaxOps /\ n' = n + 1

\* after a mutation: write through when autosave is on (the object is always bound here)
Mutated(l2, r2, changed) ==
    /\ lines' = l2 /\ recs' = r2
    /\ IF changed /\ autosave
       THEN disk' = Export(l2, r2) /\ dmt' = dmt + 1 /\ lmt' = dmt + 1 /\ dtouched' = touched'
       ELSE UNCHANGED <<disk, dmt, lmt, dtouched>>
    /\ UNCHANGED autosave

SetPasswordA(k, p) ==
    /\ Step
    /\ LET r == SetHash(lines, recs, k, [pw |-> p, gen |-> "new"]) IN
       /\ touched' = IF r[4] THEN touched \cup {k} ELSE touched
       /\ Mutated(r[2], r[3], r[4])
       /\ obs' = Obs("set_password", <<k, p>>, r[1])

SetHashA(k, h) ==
    /\ Step
    /\ LET r == SetHash(lines, recs, k, h) IN
       /\ touched' = IF r[4] THEN touched \cup {k} ELSE touched
       /\ Mutated(r[2], r[3], r[4])
       /\ obs' = Obs("set_hash", <<k, h>>, r[1])

DeleteA(k) ==
    /\ Step
    /\ LET r == Delete(lines, recs, k) IN
       /\ touched' = IF r[4] THEN touched \cup {k} ELSE touched
       /\ Mutated(r[2], r[3], r[4])
       /\ obs' = Obs("delete", <<k>>, r[1])

CheckPasswordA(k, p) ==
    /\ Step
    /\ LET r == CheckPassword(lines, recs, k, p) IN
       /\ UNCHANGED touched
       /\ Mutated(r[2], r[3], r[4])
       /\ TRUE                      \* an upgraded hash stays where it was
       /\ obs' = Obs("check_password", <<k, p>>, r[1])

GetHashA(k) ==
    /\ Step /\ UNCHANGED <<lines, recs, touched, disk, dmt, dtouched, lmt, autosave>>
    /\ obs' = [op |-> "get_hash", arg |-> <<k>>, res |-> IF k \in BadKeys THEN "ValueError" ELSE IF k \in DOMAIN recs THEN "Hash" ELSE "None",
               val |-> GetHash(recs, k)]

SaveA ==
    /\ Step
    /\ disk' = Export(lines, recs) /\ dmt' = dmt + 1 /\ lmt' = dmt + 1 /\ dtouched' = touched
    /\ UNCHANGED <<lines, recs, touched, autosave>>
    /\ obs' = Obs("save", <<>>, "ok")

\* export to some other path: the bound file, its stamps and the database are not involved
SaveCopyA ==
    /\ Step
    /\ UNCHANGED <<lines, recs, touched, disk, dmt, dtouched, lmt, autosave>>
    /\ obs' = Obs("save_copy", <<>>, "ok")

\* somebody else rewrites the file (the file system's mtime changes on every write: assumption)
ExternalWriteA(c) ==
    /\ Step
    /\ disk' = c /\ dmt' = dmt + 1 /\ dtouched' = {}
    /\ UNCHANGED <<lines, recs, touched, lmt, autosave>>
    /\ obs' = Obs("external_write", c, "ok")

LoadFrom(c, op, newlmt, res, t2) ==
    LET p == Parse(c) IN
    IF p[1] = "ok"
    THEN /\ lines' = p[2] /\ recs' = p[3] /\ touched' = t2 /\ lmt' = newlmt
         /\ obs' = Obs(op, IF op \in {"load_string", "load_other"} THEN c ELSE <<>>, res)
    ELSE \* a failed load leaves the database as it was; the remembered stamp is the new one
         \* (deviation of the code, named: after a failed load() a following load_if_changed() answers False)
         /\ UNCHANGED <<lines, recs, touched>> /\ lmt' = newlmt
         /\ obs' = Obs(op, IF op \in {"load_string", "load_other"} THEN c ELSE <<>>, "ValueError")

LoadA ==
    /\ Step
    /\ LoadFrom(disk, "load", dmt, "True", dtouched)
    /\ UNCHANGED <<disk, dmt, dtouched, autosave>>

LoadIfChangedA ==
    /\ Step
    /\ IF lmt # 0 /\ lmt = dmt
       THEN /\ UNCHANGED <<lines, recs, touched, lmt>> /\ obs' = Obs("load_if_changed", <<>>, "False")
       ELSE LoadFrom(disk, "load_if_changed", dmt, "True", dtouched)
    /\ UNCHANGED <<disk, dmt, dtouched, autosave>>

LoadStringA(c) ==
    /\ Step
    /\ LoadFrom(c, "load_string", 0, "ok", {})
    /\ UNCHANGED <<disk, dmt, dtouched, autosave>>

\* load(path) with an explicit path: the database is read from ANOTHER file; the object stays bound to its own file, whose
\* remembered stamp is forgotten (so the next load_if_changed() reads the bound file again, changed or not)
LoadOtherA(c) ==
    /\ Step
    /\ LoadFrom(c, "load_other", 0, "True", {})
    /\ UNCHANGED <<disk, dmt, dtouched, autosave>>

Next ==
    \/ \E k \in Keys \cup BadKeys, p \in Pws : SetPasswordA(k, p) \/ CheckPasswordA(k, p)
    \/ \E k \in Keys \cup BadKeys : DeleteA(k) \/ GetHashA(k)
    \/ \E k \in Keys, h \in {[pw |-> "-", gen |-> "raw1"]} \cup [pw : Pws, gen : {"old"}] : SetHashA(k, h)
    \/ SaveA \/ SaveCopyA \/ LoadA \/ LoadIfChangedA
    \/ \E c \in InitContents : ExternalWriteA(c) \/ LoadStringA(c) \/ LoadOtherA(c)

SimNext ==
    LET k  == RandomElement(Keys \cup BadKeys)  gk == RandomElement(Keys)
        p  == RandomElement(Pws)                c  == RandomElement(InitContents)
        h  == RandomElement({[pw |-> "-", gen |-> "raw1"], [pw |-> "-", gen |-> "raw2"]} \cup [pw : Pws, gen : {"old"}])
        w  == RandomElement(1..17)
    IN CASE w \in {1, 2, 3} -> SetPasswordA(k, p) [] w \in {4, 5} -> CheckPasswordA(k, p)
         [] w \in {6, 7} -> DeleteA(k)            [] w = 8 -> GetHashA(k)
         [] w = 9 -> SetHashA(gk, h)              [] w = 10 -> SaveA
         [] w = 11 -> LoadA                       [] w = 12 -> LoadIfChangedA
         [] w = 13 -> ExternalWriteA(c)           [] w = 14 -> SaveCopyA
         [] w = 15 -> LoadOtherA(c)               [] w = 16 -> LoadIfChangedA
         [] OTHER -> LoadStringA(c)

\* ---- properties (C16) ------------------------------------------------------------
Exported == Export(lines, recs)
\* the exported text parses back to exactly the current users with their current hashes
InvReadBack == ReadBack(Exported) = recs
\* each key exactly once
InvOnce == \A k \in Keys : KeyCount(Exported, k) = (IF k \in DOMAIN recs THEN 1 ELSE 0)
\* comments survive, in order
InvSkipsKept == SelectSeq(Exported, LAMBDA l : l.t = "skip") = SelectSeq(lines, LAMBDA tk : tk.t = "skip")
\* after save (or autosave) the disk holds the export and a reload-if-changed is a no-op
InvSavedIsCurrent == (obs.op = "save" \/ (autosave /\ obs.op \in {"set_password", "set_hash", "delete"} /\ obs.res \in {"True", "False"} /\ obs.op # "delete"))
                        => (disk = Exported /\ lmt = dmt)
\* a refused name or failed load changes nothing
FailuresChangeNothing == [][obs'.res = "ValueError" => (recs' = recs /\ lines' = lines /\ disk' = disk)]_vars
\* check_password answers TRUE exactly for the password last set
InvCheck == obs.op = "check_password" /\ obs.res = "True" => recs[obs.arg[1]].pw = obs.arg[2] /\ (Upgrades => recs[obs.arg[1]].gen = "new")
\* untouched records keep their relative order across every operation that is not a load
UntouchedOrder == [][(obs'.op \notin {"load", "load_if_changed", "load_string", "load_other"}) =>
                        LET U == {k \in DOMAIN recs' : k \notin touched'}
                            f(ls) == SelectSeq(ls, LAMBDA tk : tk.t = "skip" \/ tk.k \in U)
                        IN f(lines') = f(lines)]_vars

\* after reading another file or a string the object no longer claims to be current with its own file:
\* the next load_if_changed() reads the bound file whether or not it changed
ForeignLoadForgets == [][(obs.op \in {"load_other", "load_string"} /\ obs'.op = "load_if_changed") => obs'.res # "False"]_vars
InvForeignStamp == obs.op \in {"load_other", "load_string"} => lmt = 0

\* observation for the binding: the parsed export, the relative order of untouched items, the disk
Emit == DoEmit => PrintT(<<"EMIT", ToJson([n |-> n, op |-> obs'.op, arg |-> obs'.arg, res |-> obs'.res,
            val |-> obs'.val, autosave |-> autosave, init |-> IF n = 0 THEN disk ELSE <<>>,
            recs |-> [k \in DOMAIN recs' |-> recs'[k]], keys |-> DOMAIN recs',
            order |-> SelectSeq(Export(lines', recs'), LAMBDA l : l.t = "skip" \/ l.k \notin touched'),
            wrote |-> (dmt' # dmt /\ obs'.op # "external_write"), disk_changed |-> (dmt' # dmt),
            lmt_is_dmt |-> (lmt' = dmt')])>>)
View == <<lines, recs, touched, disk, dtouched, dmt - lmt, lmt = 0, autosave, n>>
=============================================================================
