------------------------------ MODULE MC_Libpass ------------------------------
EXTENDS LibpassCtx, TLC, Json, SequencesExt
CONSTANTS Rounds,     \* format -> set of costs
          Pws, MaxOps, MaxStore, DoEmit
VARIABLES S,        \* the libpass context's hasher list
          store, n, obs
vars == <<S, store, n, obs>>
Hashers == UNION {{[fmt |-> f, rounds |-> r] : r \in Rounds[f]} : f \in Formats}
\* any list of hashers - the same format may occur again further down (an old cost kept for verification)
Lists == UNION {[1..k -> Hashers] : k \in 1..3}
NoH == [fmt |-> "none", rounds |-> 0, implicit |-> FALSE, pw |-> "", by |-> ""]
Obs0 == [op |-> "init", L |-> [fmt |-> "none", rounds |-> 0], h |-> NoH, pw |-> "", res |-> "ok"]
Init == S \in (IF DoEmit THEN {<<>>} ELSE Lists) /\ store = {} /\ n = 0 /\ obs = Obs0
Step == n < MaxOps /\ n' = n + 1
Keep(h) == IF Cardinality(store) < MaxStore THEN store \cup {h} ELSE store
B(x) == IF x THEN "True" ELSE "False"

SetListA(s) == /\ n = 0 /\ S = <<>> /\ Step /\ S' = s /\ store' = store /\ obs' = [Obs0 EXCEPT !.op = "ctx_new"]
LHashA(L, pw) == /\ S # <<>> /\ Step /\ S' = S /\ store' = Keep(LHash(L, pw))
                 /\ obs' = [Obs0 EXCEPT !.op = "l_hash", !.L = L, !.pw = pw, !.h = LHash(L, pw)]
PHashA(f, r, pw) == /\ S # <<>> /\ Step /\ S' = S /\ store' = Keep(PHash(f, r, pw))
                    /\ obs' = [Obs0 EXCEPT !.op = "p_hash", !.pw = pw, !.h = PHash(f, r, pw)]
LVerifyA(L, h, pw) == /\ S # <<>> /\ Step /\ UNCHANGED <<S, store>>
                      /\ obs' = [Obs0 EXCEPT !.op = "l_verify", !.L = L, !.h = h, !.pw = pw, !.res = B(LVerify(L, h, pw))]
PVerifyA(f, h, pw) == /\ S # <<>> /\ Step /\ UNCHANGED <<S, store>>
                      /\ obs' = [Obs0 EXCEPT !.op = "p_verify", !.L = [fmt |-> f, rounds |-> 0], !.h = h, !.pw = pw, !.res = PVerify(f, h, pw)]
LIdentifyA(L, h) == /\ S # <<>> /\ Step /\ UNCHANGED <<S, store>>
                    /\ obs' = [Obs0 EXCEPT !.op = "l_identify", !.L = L, !.h = h, !.res = B(LIdentify(L, h))]
LNeedsA(L, h) == /\ S # <<>> /\ Step /\ UNCHANGED <<S, store>>
                 /\ obs' = [Obs0 EXCEPT !.op = "l_needs_update", !.L = L, !.h = h, !.res = B(LNeedsUpdate(L, h))]
CtxHashA(pw) == /\ S # <<>> /\ Step /\ S' = S /\ store' = Keep(CtxHash(S, pw))
                /\ obs' = [Obs0 EXCEPT !.op = "ctx_hash", !.pw = pw, !.h = CtxHash(S, pw)]
CtxVerifyA(h, pw) == /\ S # <<>> /\ Step /\ UNCHANGED <<S, store>>
                     /\ obs' = [Obs0 EXCEPT !.op = "ctx_verify", !.h = h, !.pw = pw, !.res = B(CtxVerify(S, h, pw))]
CtxNeedsA(h) == /\ S # <<>> /\ Step /\ UNCHANGED <<S, store>>
                /\ obs' = [Obs0 EXCEPT !.op = "ctx_needs_update", !.h = h, !.res = B(CtxNeedsUpdate(S, h))]

Next == \/ \E L \in Hashers, pw \in Pws : LHashA(L, pw)
        \/ \E f \in Formats, pw \in Pws : \E r \in Rounds[f] : PHashA(f, r, pw)
        \/ \E L \in Hashers, h \in store, pw \in Pws : LVerifyA(L, h, pw) \/ PVerifyA(L.fmt, h, pw)
        \/ \E L \in Hashers, h \in store : LIdentifyA(L, h) \/ LNeedsA(L, h)
        \/ \E pw \in Pws : CtxHashA(pw)
        \/ \E h \in store, pw \in Pws : CtxVerifyA(h, pw)
        \/ \E h \in store : CtxNeedsA(h)
\* (a LET-bound RandomElement is re-drawn at every reference: dependent choices are made with \E instead -
\*  the simulator then picks one of the enumerated successors at random)
SimNext ==
    IF n = 0 THEN \E s \in {RandomElement(Lists)} : SetListA(s)
    ELSE LET w == RandomElement(1..12) IN
         CASE w \in {1, 2} \/ store = {} -> \E L \in Hashers, pw \in Pws : LHashA(L, pw)
           [] w \in {3, 4} -> \E f \in Formats, pw \in Pws : \E r \in Rounds[f] : PHashA(f, r, pw)
           [] w = 5 -> \E h \in store, pw \in Pws : \E r \in Rounds[h.fmt] : LVerifyA([fmt |-> h.fmt, rounds |-> r], h, pw)
           [] w = 6 -> \E h \in store, pw \in Pws, f \in Formats : PVerifyA(f, h, pw)
           [] w = 7 -> \E h \in store, L \in Hashers : LIdentifyA(L, h)
           [] w = 8 -> \E h \in store, L \in Hashers : (L.fmt = h.fmt \/ L.rounds = 4) /\ LNeedsA(L, h)
           [] w = 9 -> \E pw \in Pws : CtxHashA(pw)
           [] w \in {10, 11} -> \E h \in store, pw \in Pws : CtxVerifyA(h, pw)
           [] OTHER -> \E h \in store : CtxNeedsA(h)

\* ---- properties (C20) ------------------------------------------------------------
\* every stored hash verifies its own password under a libpass hasher of its format and under passlib, whoever made it
InvInterop == \A h \in store : /\ \A r \in Rounds[h.fmt] : LVerify([fmt |-> h.fmt, rounds |-> r], h, h.pw)
                               /\ PVerify(h.fmt, h, h.pw) = "True"
                               /\ \A pw \in Pws \ {h.pw} : ~LVerify([fmt |-> h.fmt, rounds |-> h.rounds], h, pw) /\ PVerify(h.fmt, h, pw) = "False"
\* a libpass hasher identifies exactly its own format
InvIdentifyOwn == \A h \in store, L \in Hashers : LIdentify(L, h) <=> h.fmt = L.fmt
\* own fresh hashes need no update; other costs or formats do
InvNeedsUpdate == \A h \in store, L \in Hashers : LNeedsUpdate(L, h) <=> ~(h.fmt = L.fmt /\ h.rounds = L.rounds)
\* context: hashes with its first scheme, verifies with any, update exactly for other formats than the first's
InvCtx == \A pw \in Pws : LET h == CtxHash(S, pw) IN
              S # <<>> => (h.fmt = S[1].fmt /\ CtxVerify(S, h, pw) /\ ~CtxNeedsUpdate(S, h))
Emit == DoEmit => PrintT(<<"EMIT", ToJson([n |-> n, op |-> obs'.op, L |-> obs'.L, h |-> obs'.h, pw |-> obs'.pw, res |-> obs'.res, S |-> S'])>>)
View == <<S, store, n>>
=============================================================================
