--------------------------- MODULE Trace_LazyInit ---------------------------
(* I->S for C19: every explored real schedule, projected to the events        *)
(*   start(t)  thread t enters the initialiser                                *)
(*   finish(t) thread t leaves the initialiser normally                       *)
(*   call(t,r) thread t's public call returns r ("ok" = the sequential result)*)
(* must be a behaviour of the Locked protocol of LazyInit.tla: at most one    *)
(* thread ever runs the initialiser, nobody's call completes before it has    *)
(* finished, and every call returns the sequential result.                    *)
EXTENDS Naturals, Sequences, TLC, Json, IOUtils
Traces == JsonDeserialize(IOEnv.TRACE_FILE)
VARIABLES tid, k, initBy, finished
Init == tid = 1 /\ k = 1 /\ initBy = "none" /\ finished = FALSE
Bad(clause) == PrintT(<<"EMIT", ToJson([tid |-> tid, ev |-> k, clause |-> clause])>>)
Chk(ok, clause) == IF ok THEN TRUE ELSE Bad(clause)
Next ==
    /\ tid <= Len(Traces)
    /\ LET T == Traces[tid] IN
       IF k > Len(T.events) THEN tid' = tid + 1 /\ k' = 1 /\ initBy' = "none" /\ finished' = FALSE
       ELSE LET e == T.events[k] IN
            /\ tid' = tid /\ k' = k + 1
            /\ CASE e.ev = "start"  -> /\ Chk(initBy = "none" /\ ~finished, "second initialiser entered")
                                       /\ initBy' = (IF initBy = "none" THEN e.t ELSE initBy) /\ finished' = finished
                 [] e.ev = "finish" -> /\ Chk(initBy = e.t, "finish without start")
                                       /\ finished' = TRUE /\ initBy' = initBy
                 [] e.ev = "call"   -> /\ Chk(finished \/ ~T.lazy, "call completed before initialisation finished")
                                       /\ Chk(e.res = "ok", "call did not return the sequential result")
                                       /\ UNCHANGED <<initBy, finished>>
                 [] OTHER -> Bad("unknown event") /\ UNCHANGED <<initBy, finished>>
=============================================================================
