---------------------------- MODULE MC_TotpSerial ----------------------------
EXTENDS TotpSerial, TLC, Json
CONSTANTS Keys, Algs, Digits, Periods, Labels, Issuers, Corruptions, Hists, DoEmit
VARIABLES o, D, fmt, cor, res,
          hist      \* "fresh": the object was made with its key; "rekeyed": it was made with another key, exported, and
                    \* then given this key (o is the object's CURRENT state: what is written depends on nothing else)
Objs == [key : Keys, alg : Algs, digits : Digits, period : Periods, label : Labels \cup {"none"}, issuer : Issuers \cup {"none"}]
Defaults == [alg : Algs, digits : Digits, period : Periods, issuer : Issuers \cup {"none"}]
\* an object made by a class with a default issuer always has an issuer
Init == /\ o \in Objs /\ D \in Defaults /\ (o.issuer = "none" => D.issuer = "none")
        /\ fmt \in {"uri", "dict", "json"} /\ cor \in Corruptions /\ res = <<"pending">> /\ hist \in Hists

\* corruptions of a source
CorruptDict(d) == CASE cor = "none" -> d
                    [] cor = "no-type" -> [d EXCEPT !.type = Absent]
                    [] cor = "bad-type" -> [d EXCEPT !.type = "hotp"]
                    [] cor = "fragment-type" -> [d EXCEPT !.type = "otp"]          \* a fragment of the right word is still a wrong type
                    [] cor = "no-version" -> [d EXCEPT !.v = 0]
                    [] cor = "future-version" -> [d EXCEPT !.v = 99]
                    [] cor = "old-version" -> [d EXCEPT !.v = 0 - 1]                  \* a revision older than the oldest one understood
                    [] cor = "not-an-object" -> d                                  \* (JSON only: the text is not an object at all; see RoundTrip)
                    [] cor = "no-key" -> [d EXCEPT !.key = Absent]
                    [] OTHER -> d
DupOf == [x \in {"dup-secret", "dup-issuer", "dup-digits", "dup-period", "dup-algorithm"} |->
            CASE x = "dup-secret" -> "secret" [] x = "dup-issuer" -> "issuer" [] x = "dup-digits" -> "digits" [] x = "dup-period" -> "period" [] OTHER -> "algorithm"]
CorruptUri(u) == CASE cor = "none" -> u
                   [] cor = "bad-scheme" -> [u EXCEPT !.scheme = "http"]
                   [] cor = "bad-type" -> [u EXCEPT !.type = "hotp"]
                   [] cor = "fragment-type" -> [u EXCEPT !.type = "otp"]
                   [] cor = "no-label" -> [u EXCEPT !.label = Absent]
                   [] cor = "no-key" -> [u EXCEPT !.params = Tail(u.params)]
                   [] cor \in DOMAIN DupOf -> LET nm == DupOf[cor]  v == IF Param(u, nm) = Absent THEN "dup-value" ELSE Param(u, nm) IN
                                               \* the parameter ends up twice in the query, with identical values
                                               [u EXCEPT !.params = IF Param(u, nm) = Absent THEN u.params \o <<<<nm, v>>, <<nm, v>>>> ELSE Append(u.params, <<nm, v>>)]
                   [] cor = "issuer-conflict" -> [u EXCEPT !.prefix = "other-issuer", !.params = Append(SelectSeq(u.params, LAMBDA p : p[1] # "issuer"), <<"issuer", "iss-x">>)]
                   [] OTHER -> u
Applicable == IF fmt = "uri" THEN cor \in {"none", "bad-scheme", "bad-type", "fragment-type", "no-label", "no-key", "issuer-conflict"} \cup DOMAIN DupOf
              ELSE cor \in {"none", "no-type", "bad-type", "fragment-type", "no-version", "future-version", "old-version", "no-key"}
                   \/ (fmt = "json" /\ cor = "not-an-object")

RoundTrip ==
    /\ res = <<"pending">> /\ Applicable
    /\ res' = IF fmt = "uri"
              THEN (IF ToUri(o)[1] # "ok" THEN <<"ValueError-on-write">> ELSE FromUri(CorruptUri(ToUri(o)[2]), D))
              ELSE IF cor = "not-an-object" THEN <<"ValueError">>
              ELSE FromDict(CorruptDict(ToDict(o, D)), D)
    /\ UNCHANGED <<o, D, fmt, cor, hist>>
Next == RoundTrip

\* an uncorrupted source gives back the same configuration - for every class default
InvRoundTrip == (res[1] = "ok" /\ cor = "none") => res[2] = o
\* every corrupted source is refused
InvRefused == (res # <<"pending">> /\ cor # "none") => res[1] = "ValueError" \/ res = <<"ValueError-on-write">>
InvLabelNeeded == res = <<"ValueError-on-write">> => (fmt = "uri" /\ o.label = "none")
Emit == DoEmit => PrintT(<<"EMIT", ToJson([o |-> o, D |-> D, fmt |-> fmt, cor |-> cor, hist |-> hist, res |-> res'])>>)
=============================================================================
