------------------------------- MODULE Backend -------------------------------
(***************************************************************************)
(* Backend selection of multi-backend hashers (C03; the lazy stub is also  *)
(* used by C19).  A family has an ordered tuple of backend names, of which *)
(* a host-dependent subset is available.  Classes form a chain             *)
(*   root  -using()->  child  -using()->  grandchild.                      *)
(* Two ownership disciplines exist:                                        *)
(*   "inherit": a class uses the nearest ancestor's choice until it makes  *)
(*              its own (HasManyBackends: md5/sha/des crypt, scrypt)       *)
(*   "shared" : one owner class holds the choice for all (bcrypt family)   *)
(* The digest is a function of the key only (F), never of the backend.     *)
(***************************************************************************)
EXTENDS Integers, Sequences, FiniteSets, SequencesExt

CONSTANTS Order,      \* Seq of backend names, preference order
          Avail,      \* subset of Range(Order) usable on this host
          Discipline  \* "inherit" | "shared"

Classes == {1, 2, 3}                 \* 1 = root (the global hasher), 2 = root.using(), 3 = child.using()
Parent(c) == c - 1
None == "none"
Names == Range(Order)

\* effective backend of class c under `own`
RECURSIVE Eff(_, _)
Eff(own, c) == IF Discipline = "shared" THEN own[1]
               ELSE IF own[c] # None THEN own[c]
               ELSE IF c = 1 THEN None ELSE Eff(own, Parent(c))

Target(c) == IF Discipline = "shared" THEN 1 ELSE c
FirstAvail == IF \E i \in 1..Len(Order) : Order[i] \in Avail
              THEN Order[CHOOSE i \in 1..Len(Order) : Order[i] \in Avail /\ \A j \in 1..(i-1) : Order[j] \notin Avail]
              ELSE None

\* result of set_backend(name, dryrun): <<outcome, own'>> ; outcome = <<"ok", backend>> | <<"MissingBackendError">> | <<"ValueError">>
SetBackend(own, c, name, dry) ==
    LET eff == Eff(own, c) IN
    IF (name = "any" /\ eff # None) \/ name = eff THEN << <<"ok", eff>>, own >>
    ELSE IF name \in {"any", "default"} THEN
         IF FirstAvail = None THEN << <<"MissingBackendError">>, own >>
         ELSE IF FirstAvail = eff THEN << <<"ok", eff>>, own >>
         ELSE << <<"ok", FirstAvail>>, IF dry THEN own ELSE [own EXCEPT ![Target(c)] = FirstAvail] >>
    ELSE IF name \notin Names THEN << <<"ValueError">>, own >>
    ELSE IF name \notin Avail THEN << <<"MissingBackendError">>, own >>
    ELSE << <<"ok", name>>, IF dry THEN own ELSE [own EXCEPT ![Target(c)] = name] >>

HasBackend(own, c, name) ==
    LET r == SetBackend(own, c, name, TRUE)[1] IN
    IF r[1] = "ok" THEN <<"ok", TRUE>> ELSE IF r[1] = "MissingBackendError" THEN <<"ok", FALSE>> ELSE r

\* get_backend / first hash: load the default when nothing is loaded yet
GetBackend(own, c) == IF Eff(own, c) # None THEN << <<"ok", Eff(own, c)>>, own >> ELSE SetBackend(own, c, "any", FALSE)
=============================================================================
