---------------------------- MODULE Trace_TotpGen ----------------------------
(* I->S for C13: recorded TOTP.generate results and key decodings are         *)
(* re-computed by Totp.tla.  Times/counters are 15-bit limb sequences.        *)
EXTENDS Totp, TLC, Json, IOUtils
Trace == JsonDeserialize(IOEnv.TRACE_FILE)
VARIABLE i
Init == i = 1
Bad(clause, ex) == PrintT(<<"EMIT", ToJson([ev |-> i, clause |-> clause, expected |-> ex])>>)
Chk(ok, clause, ex) == IF ok THEN TRUE ELSE Bad(clause, ex)
Next ==
    /\ i <= Len(Trace)
    /\ i' = i + 1
    /\ LET e == Trace[i] IN
       IF e.op = "generate" THEN
            /\ Chk(LEq(CounterL(e.t, e.p), e.counter), "counter", CounterL(e.t, e.p))
            /\ Chk(TokenDigits(e.digest, e.digits) = e.token, "token", TokenDigits(e.digest, e.digits))
            /\ Chk(LEq(ExpireL(e.t, e.p), e.expire), "expire_time", ExpireL(e.t, e.p))
            /\ Chk(LEq(StartL(e.t, e.p), e.start), "start_time", StartL(e.t, e.p))
       ELSE IF e.op = "valid" THEN
            \* the validity interval of a token is half open: [start, start + period); off = now - start
            /\ Chk(e.valid = (e.off >= 0 /\ e.off < e.p), "valid", e.off >= 0 /\ e.off < e.p)
            /\ Chk(e.remaining = (IF e.off < e.p THEN e.p - e.off ELSE 0), "remaining", IF e.off < e.p THEN e.p - e.off ELSE 0)
       ELSE IF e.op = "key" THEN
            Chk(KeyFromText(e.fmt, e.text) = e.res, "key", KeyFromText(e.fmt, e.text))
       ELSE Bad("unknown op", <<>>)
=============================================================================
