---------------------------- MODULE Trace_Backend ----------------------------
(* I->S for C03: (family, key, provider, digest) events from every selectable *)
(* passlib backend and from independent providers (libxcrypt, bcrypt C        *)
(* library, hashlib) must define ONE function key -> digest: F is bound at    *)
(* first sight and every later event must agree.                              *)
EXTENDS Integers, Sequences, TLC, Json, IOUtils
Trace == JsonDeserialize(IOEnv.TRACE_FILE)
VARIABLES i, F          \* F : key id -> <<digest, provider that bound it>>
Init == i = 1 /\ F = <<>>
Next ==
    /\ i <= Len(Trace)
    /\ i' = i + 1
    /\ LET e == Trace[i] IN
       IF e.key \in DOMAIN F
       THEN /\ F' = F
            /\ IF F[e.key][1] = e.digest THEN TRUE
               ELSE PrintT(<<"EMIT", ToJson([ev |-> i, key |-> e.key, provider |-> e.provider, digest |-> e.digest,
                                             bound |-> F[e.key][1], boundby |-> F[e.key][2]])>>)
       ELSE F' = (e.key :> <<e.digest, e.provider>>) @@ F
=============================================================================
