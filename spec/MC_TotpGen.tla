----------------------------- MODULE MC_TotpGen -----------------------------
(* C13, truncation part: for every digest size, offset, digit count and      *)
(* boundary value placed at the offset, the token has exactly n decimal      *)
(* digits, depends only on the four selected bytes (and the offset nibble),  *)
(* and 10-digit tokens never exceed 2^31-1.                                  *)
EXTENDS Totp, TLC, Json
CONSTANTS Fillers, Sizes, DigitCounts, Patterns, DoEmit
VARIABLES d, n, tok0, touched

\* a digest of `size` bytes, filler f everywhere, 4-byte pattern at offset o, offset nibble in the last byte
Digest(size, f, o, pat, hi) ==
    [i \in 1..size |-> IF i \in (o + 1)..(o + 4) THEN pat[i - o]
                       ELSE IF i = size THEN hi * 16 + o ELSE f]

Init == \E size \in Sizes, f \in Fillers, o \in 0..15, pat \in Patterns, hi \in {0, 15}, k \in DigitCounts :
           /\ d = Digest(size, f, o, pat, hi)
           /\ n = k /\ tok0 = TokenDigits(d, n) /\ touched = FALSE

\* change any byte that RFC 4226 says is not used
Perturb == /\ ~touched
           /\ \E i \in 1..Len(d), v \in {0, 1, 128, 255} :
                 /\ i \notin (DTOffset(d) + 1)..(DTOffset(d) + 4)
                 /\ i # Len(d)
                 /\ d' = [d EXCEPT ![i] = v]
           /\ touched' = TRUE /\ UNCHANGED <<n, tok0>>
\* the high nibble of the last byte is unused as well
PerturbLast == /\ ~touched
               /\ \E h \in 0..15 : d' = [d EXCEPT ![Len(d)] = h * 16 + DTOffset(d)]
               /\ touched' = TRUE /\ UNCHANGED <<n, tok0>>
Next == Perturb \/ PerturbLast

InvDigits     == Len(TokenDigits(d, n)) = n /\ \A i \in 1..n : TokenDigits(d, n)[i] \in 0..9
InvStable     == TokenDigits(d, n) = tok0
InvTenDigits  == n = 10 => TokenDigits(d, n)[1] \in 0..2
InvValueRange == DT(d) >= 0 /\ DT(d) <= 2147483647
\* the token is the decimal rendering of DT mod 10^n
InvDecimal    == n <= 9 => FoldLeft(LAMBDA a, x : a * 10 + x, 0, TokenDigits(d, n)) = DT(d) % (10 ^ n)

Stop == FALSE /\ UNCHANGED <<d, n, tok0, touched>>
EmitInit == DoEmit => PrintT(<<"EMIT", ToJson([d |-> d, n |-> n, tok |-> tok0])>>)
InitEmit == Init /\ EmitInit
=============================================================================
