------------------------------ MODULE MC_Codec ------------------------------
(* Exhaustive instance of Codec for C12: every byte string over ByteVals up  *)
(* to MaxLen, every engine, every non-canonical last character, every        *)
(* integer of the small widths; emits each transition for replay.            *)
EXTENDS Codec, TLC, Json

CONSTANTS MaxLen,      \* byte strings of length 0..MaxLen
          ByteVals,    \* set of byte values used
          EngNames,    \* engines explored
          IntJobs,     \* set of <<bits, value-set-name>>; see IntInputs
          BadChars,    \* characters outside every alphabet
          DoEmit

VARIABLE st   \* [phase, eng, data, text, back]

Strings == UNION {[1..n -> ByteVals] : n \in 0..MaxLen}

\* integer inputs as LSB-first bit vectors
IntInputs(bits) ==
    IF bits <= 12 THEN {BitsLSB(v, bits) : v \in 0..(2^bits - 1)}
    ELSE \* unit vectors, all-ones, zero, and alternating patterns
         {[i \in 1..bits |-> IF i = k THEN 1 ELSE 0] : k \in 1..bits}
         \cup {[i \in 1..bits |-> 1], [i \in 1..bits |-> 0],
               [i \in 1..bits |-> i % 2], [i \in 1..bits |-> (i + 1) % 2],
               [i \in 1..bits |-> IF i % 3 = 0 THEN 1 ELSE 0]}
         \cup {[i \in 1..bits |-> IF i >= k THEN 1 ELSE 0] : k \in 1..bits}

Init ==
    \/ \E e \in EngNames, d \in Strings :
          st = [phase |-> "raw", eng |-> e, data |-> d, text |-> <<>>, back |-> <<>>]
    \/ \E e \in EngNames \cap {"h64", "h64big", "bcrypt64"}, b \in IntJobs : \E v \in IntInputs(b) :
          st = [phase |-> "int", eng |-> e, data |-> v, text |-> <<>>, back |-> <<>>]

EncodeA ==
    /\ st.phase = "raw"
    /\ st' = [st EXCEPT !.phase = "enc", !.text = Encode(st.eng, st.data)]

\* an adversary (or another library) sets unused padding bits of the last character
CorruptA ==
    /\ st.phase = "enc" /\ st.text # <<>> /\ PadBits(Len(st.text)) > 0
    /\ \E c \in Range(Engines[st.eng].abc) :
          LET n == Len(st.text)
              t2 == [st.text EXCEPT ![n] = c]
          IN /\ c # st.text[n]
             /\ Repair(st.eng, t2) = <<"ok", st.text>>
             /\ st' = [st EXCEPT !.phase = "dirty", !.text = t2]

RepairA ==
    /\ st.phase = "dirty"
    /\ st' = [st EXCEPT !.phase = "repaired", !.text = Repair(st.eng, st.text)[2]]

DecodeA ==
    /\ st.phase \in {"enc", "dirty"}
    /\ st' = [st EXCEPT !.phase = IF st.phase = "enc" THEN "dec" ELSE "ddec", !.back = Decode(st.eng, st.text)]

\* decoding a text that lost its last character (length may become 1 mod 4)
ChopDecodeA ==
    /\ st.phase = "enc" /\ st.text # <<>>
    /\ st' = [st EXCEPT !.phase = "chop", !.text = Front(st.text), !.back = Decode(st.eng, Front(st.text))]

\* characters outside this engine's alphabet: the common ones plus digits of the *other* alphabets
\* ('+', '-', '.', '_'); ab64 input documents '+' as an alias of '.'
BadCharsFor(e) == {c \in BadChars \cup {43, 45, 46, 95} : ~InAbc(Engines[e].abc, c) /\ ~(e = "ab64" /\ c = 43)}
\* one character replaced by a character outside the alphabet
BadCharA ==
    /\ st.phase = "enc" /\ st.text # <<>>
    /\ \E i \in 1..Len(st.text), c \in BadCharsFor(st.eng) :
          LET t2 == [st.text EXCEPT ![i] = c] IN
          st' = [st EXCEPT !.phase = "bad", !.text = t2, !.back = Decode(st.eng, t2)]

\* ab64 accepts '+' wherever '.' stands
PlusA ==
    /\ st.phase = "enc" /\ st.eng = "ab64" /\ \E i \in 1..Len(st.text) : st.text[i] = 46
    /\ LET t2 == [i \in 1..Len(st.text) |-> IF st.text[i] = 46 THEN 43 ELSE st.text[i]] IN
       st' = [st EXCEPT !.phase = "ddec", !.text = t2, !.back = Decode(st.eng, t2)]

EncIntA ==
    /\ st.phase = "int"
    /\ st' = [st EXCEPT !.phase = "intenc", !.text = EncIntBits(st.eng, st.data)]

DecIntA ==
    /\ st.phase = "intenc"
    /\ st' = [st EXCEPT !.phase = "intdec", !.back = DecIntBits(st.eng, st.text, Len(st.data))]

Next == BadCharA \/ PlusA \/ EncodeA \/ CorruptA \/ RepairA \/ DecodeA \/ ChopDecodeA \/ EncIntA \/ DecIntA

\* ---- properties -------------------------------------------------------------
Big == Engines[st.eng].big
Abc == Engines[st.eng].abc

InvArithEqualsDef ==
    st.phase = "enc" => FromText(Abc, st.text) = Enc6A(Big, st.data)
InvAlphabetAndLength ==
    st.phase \in {"enc", "dirty", "repaired"} =>
        /\ ValidText(Abc, st.text)
        /\ Len(st.text) = (Len(st.data) * 8 + 5) \div 6
InvRoundTrip ==
    st.phase \in {"dec", "ddec"} => st.back = <<"ok", st.data>>
InvRepairCanonical ==
    /\ st.phase = "repaired" => st.text = Encode(st.eng, st.data)
    /\ st.phase = "enc" => Repair(st.eng, st.text) = <<"ok", st.text>>
InvChop ==
    st.phase = "chop" =>
        IF Len(st.text) % 4 = 1 THEN st.back = <<"ValueError">>
        ELSE /\ st.back[1] = "ok"
             /\ st.back[2] = SubSeq(st.data, 1, Len(st.back[2]))   \* a prefix of the data
InvStdBase64 ==
    (st.phase = "enc" /\ st.eng = "b64s") =>
        /\ Len(StdB64(st.data)) % 4 = 0
        /\ SubSeq(StdB64(st.data), 1, Len(st.text)) = st.text
InvAb64Translates ==
    (st.phase = "enc" /\ st.eng = "ab64") =>
        st.text = [i \in 1..Len(st.text) |-> LET c == Encode("b64s", st.data)[i] IN IF c = 43 THEN 46 ELSE c]
InvBadRejected ==
    st.phase = "bad" => st.back = <<"ValueError">>
InvIntRoundTrip ==
    st.phase = "intdec" => st.back = <<"ok", st.data>>
InvIntShape ==
    st.phase = "intenc" =>
        /\ Len(st.text) = IntChars(Len(st.data))
        /\ ValidText(Abc, st.text)
        \* 64-bit big-endian integers equal the encoding of their 8 big-endian bytes;
        \* little-endian ones the encoding of their 8 little-endian bytes
        /\ Len(st.data) = 64 =>
              LET bytesLE == [k \in 1..8 |-> ValLSB(SubSeq(st.data, 8*k-7, 8*k))]
              IN st.text = Encode(st.eng, IF Big THEN Reverse(bytesLE) ELSE bytesLE)
        /\ Len(st.data) = 24 =>
              LET bytesLE == [k \in 1..3 |-> ValLSB(SubSeq(st.data, 8*k-7, 8*k))]
              IN st.text = Encode(st.eng, IF Big THEN Reverse(bytesLE) ELSE bytesLE)

Emit ==
    DoEmit => PrintT(<<"EMIT", ToJson([op |-> st'.phase, eng |-> st.eng, data |-> st.data,
                                      tin |-> st.text, text |-> st'.text, back |-> st'.back])>>)
=============================================================================
