-------------------------------- MODULE Totp --------------------------------
(***************************************************************************)
(* TOTP (RFC 4226 / 6238) as passlib.totp offers it.                       *)
(*  Part Generate (C13): time -> counter, dynamic truncation of the HMAC   *)
(*     digest, decimal rendering, validity interval.  The HMAC digest is   *)
(*     an input of the spec (computed by the binding with stdlib hmac).    *)
(*  Part Match (C14): window/skew/last-counter search and its result       *)
(*     classes, with the application feeding accepted counters back.       *)
(***************************************************************************)
EXTENDS Integers, Sequences, FiniteSets, SequencesExt, Prim, Codec

\* ---------------------------------------------------------------- Generate
\* RFC 4226 5.3: offset = low nibble of the last byte; 31-bit big-endian value
DTOffset(d) == d[Len(d)] % 16
DT(d) == LET o == DTOffset(d)
         IN (d[o + 1] % 128) * 16777216 + d[o + 2] * 65536 + d[o + 3] * 256 + d[o + 4]

\* decimal digits of v, most significant first, exactly n of them (v mod 10^n, zero padded)
\* n <= 10; 10^10 exceeds TLC integers, so digits are peeled off one at a time
DigitsOf(v, n) == [i \in 1..n |-> (v \div (10 ^ (n - i))) % 10]
TokenDigits(d, n) == LET v == DT(d) IN
                     IF n >= 10 THEN <<v \div 1000000000>> \o DigitsOf(v % 1000000000, 9)
                     ELSE DigitsOf(v % (10 ^ n), n)

\* time as limbs (seconds since the epoch, up to 2^45), period < 2^12
CounterL(tl, p)  == LCanon(LDivMod(tl, p)[1])
ExpireL(tl, p)   == LCanon(LMulSmall(LAddSmall(CounterL(tl, p), 1), p))
StartL(tl, p)    == LCanon(LMulSmall(CounterL(tl, p), p))

\* key text: blanks, '-' and '=' are ignored; base32 (typo tolerant, any case) or hex (any case)
HexVal(c) == IF c \in 48..57 THEN c - 48 ELSE IF c \in 65..70 THEN c - 55 ELSE IF c \in 97..102 THEN c - 87 ELSE 99
KeyFromText(fmt, txt) ==
    LET s == SelectSeq(txt, LAMBDA c : c \notin {32, 9, 10, 11, 12, 13, 45, 61}) IN
    IF fmt = "base32" THEN B32Decode(s)
    ELSE IF fmt = "hex" THEN
         IF Len(s) % 2 = 1 \/ \E i \in 1..Len(s) : HexVal(s[i]) = 99 THEN <<"ValueError">>
         ELSE <<"ok", [k \in 1..(Len(s) \div 2) |-> HexVal(s[2*k-1]) * 16 + HexVal(s[2*k])]>>
    ELSE <<"ok", txt>>      \* raw

\* ------------------------------------------------------------------- Match
\* Code: counter -> token symbol; "last" = -1 when the application has none.
\* base = the (model) counter that corresponds to the real counter 0: the search never goes below it.
\* token symbols are integers: a counter number stands for "the code of that counter";
\* NoneTok is a well-formed token that is the code of no counter in reach; the rest are malformed
NoneTok == 1000
TokShort == 1001  TokLong == 1002  TokNonDigit == 1003  TokEmpty == 1004
Malformed == {TokShort, TokLong, TokNonDigit, TokEmpty}

\* text -> token: blanks, '-' and '=' are ignored; then exactly `digits` decimal digits
IsBlank(c) == c \in {32, 9, 10, 11, 12, 13, 45, 61}
NormToken(txt, digits) ==
    LET s == SelectSeq(txt, LAMBDA c : ~IsBlank(c)) IN
    IF Len(s) # digits \/ \E i \in 1..Len(s) : s[i] \notin 48..57 THEN <<"Malformed">>
    ELSE <<"ok", FoldLeft(LAMBDA acc, c : acc * 10 + (c - 48), 0, s)>>

MatchResult(Code, p, base, last, malformed, tok, t, w, skew) ==
    IF malformed THEN <<"Malformed">>
    ELSE LET ct == t + skew
             lo == Max2(Max2(last, (ct - w) \div p), base)
             hi == (ct + w) \div p
             M  == {c \in lo..hi : Code[c] = tok}
         IN IF M = {} THEN <<"Invalid">>
            ELSE LET c == SetMin(M) IN
                 IF c = last THEN <<"Used", (last + 1) * p>>
                 ELSE <<"Accept", c, c - (t \div p), (c + 1) * p, (c + 1) * p + w, p + w>>
=============================================================================
