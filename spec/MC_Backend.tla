------------------------------ MODULE MC_Backend ------------------------------
EXTENDS Backend, TLC, Json
CONSTANTS MaxSteps, DoEmit
VARIABLES own, n, obs
vars == <<own, n, obs>>
Args == Names \cup {"any", "default", "bogus"}

Init == own = [c \in Classes |-> None] /\ n = 0 /\ obs = [op |-> "init", c |-> 0, arg |-> "", dry |-> FALSE, res |-> <<"ok">>]

\* scrypt's module loads its default backend at import time
InitLoaded == own = [c \in Classes |-> IF c = 1 THEN FirstAvail ELSE None] /\ n = 0
              /\ obs = [op |-> "init", c |-> 0, arg |-> "", dry |-> FALSE, res |-> <<"ok">>]

Do(op, c, arg, dry, r) ==
    /\ n < MaxSteps /\ n' = n + 1
    /\ own' = r[2]
    /\ obs' = [op |-> op, c |-> c, arg |-> arg, dry |-> dry, res |-> r[1]]

SetA(c, a, dry) == Do("set", c, a, dry, SetBackend(own, c, a, dry))
HasA(c, a)      == Do("has", c, a, TRUE, <<HasBackend(own, c, a), own>>)
GetA(c)         == Do("get", c, "", FALSE, GetBackend(own, c))
\* hashing loads the default backend through the stub when nothing is loaded; the digest does not depend on it
HashA(c)        == Do("hash", c, "", FALSE, LET g == GetBackend(own, c) IN
                                             << IF g[1][1] = "ok" THEN <<"ok", "digest">> ELSE g[1], g[2] >>)

Next == \E c \in Classes :
           \/ \E a \in Args, dry \in BOOLEAN : SetA(c, a, dry)
           \/ \E a \in Args : HasA(c, a)
           \/ GetA(c) \/ HashA(c)

SimNext == LET c == RandomElement(Classes) a == RandomElement(Args) k == RandomElement(1..7) IN
           CASE k \in {1, 2} -> SetA(c, a, FALSE) [] k = 3 -> SetA(c, a, TRUE) [] k = 4 -> HasA(c, a)
             [] k = 5 -> GetA(c) [] OTHER -> HashA(c)

\* ---- properties --------------------------------------------------------------
\* has_backend and dry runs never change any class's backend
DryRunsPure == [][(obs'.op = "has" \/ obs'.dry) => own' = own]_vars
\* a successful non-dry set makes get_backend answer that backend
SetThenGet == [][(obs'.op = "set" /\ ~obs'.dry /\ obs'.res[1] = "ok") => Eff(own', obs'.c) = obs'.res[2]]_vars
\* every backend the host supports can be selected, from any state, on any class
AvailSelectable == \A c \in Classes, b \in Avail : SetBackend(own, c, b, FALSE)[1] = <<"ok", b>>
AvailReported   == \A c \in Classes, b \in Names : HasBackend(own, c, b) = <<"ok", b \in Avail>>
\* a class never shows a backend that is not available
OnlyAvail == \A c \in Classes : Eff(own, c) \in Avail \cup {None}
\* frame: selecting on c changes only what the discipline says it may
Frame == [][\A c2 \in Classes : (Discipline = "inherit" /\ c2 < obs'.c) => Eff(own', c2) = Eff(own, c2)]_vars
\* hashing works whenever some backend is available
HashWorks == (Avail # {}) => \A c \in Classes : GetBackend(own, c)[1][1] = "ok"

Emit == DoEmit => PrintT(<<"EMIT", ToJson([n |-> n, op |-> obs'.op, c |-> obs'.c, arg |-> obs'.arg, dry |-> obs'.dry,
                                           res |-> obs'.res, eff |-> [c \in Classes |-> Eff(own', c)]])>>)
View == <<own, n>>
=============================================================================
