------------------------------ MODULE Trace_Rand ------------------------------
(* I->S for C06: events recorded with a scripted random source.  The value the *)
(* source returned is given in the helper's own radix (bytes resp. base-L      *)
(* digits, least significant first), the request bound as a limb number.       *)
EXTENDS Rand, Codec, TLC, Json, IOUtils
Trace == JsonDeserialize(IOEnv.TRACE_FILE)
VARIABLE i
Init == i = 1
Bad(clause, ex) == PrintT(<<"EMIT", ToJson([ev |-> i, clause |-> clause, expected |-> ex])>>)
Chk(ok, clause, ex) == IF ok THEN TRUE ELSE Bad(clause, ex)
\* the requests supply k_1, k_2, .. symbols, each k >= 1, n in all
RECURSIVE SumK(_)
SumK(rs) == IF rs = <<>> THEN 0 ELSE rs[1].k + SumK(Tail(rs))
Covers(rs, n) == (\A j \in 1..Len(rs) : rs[j].k >= 1) /\ SumK(rs) = n
Next ==
    /\ i <= Len(Trace) /\ i' = i + 1
    /\ LET e == Trace[i] IN
       CASE e.op = "bytes" ->
              \* the n bytes are drawn by one or several getrandbits requests of whole bytes (any partition); output = the values' bytes,
              \* least significant first, in request order
              /\ Chk(Covers(e.requests, e.n) /\ \A k \in 1..Len(e.requests) : e.requests[k].fn = "getrandbits", "request", <<8 * e.n>>)
              /\ Chk(e.out = e.digits /\ Len(e.out) = e.n, "output", e.digits)
         [] e.op = "str" ->
              \* the n symbols are drawn by one or several requests uniform on L^k values each (randrange / choice / randint)
              /\ Chk(IF e.L = 1 THEN e.requests = <<>>
                     ELSE Covers(e.requests, e.n) /\ \A k \in 1..Len(e.requests) : e.requests[k].fn \in {"randrange", "choice", "randint"}, "request", <<e.L, e.n>>)
              /\ Chk(Len(e.out) = e.n /\ Len(e.digits) = e.n /\ \A k \in 1..e.n : e.out[k] = e.abc[(IF e.L = 1 THEN 0 ELSE e.digits[k]) + 1], "output",
                     [k \in 1..e.n |-> e.abc[(IF e.L = 1 \/ k > Len(e.digits) THEN 0 ELSE e.digits[k]) + 1]])
         [] e.op = "bcrypt-salt" ->
              \* 22 symbols drawn as for "str", then the unused bits of the last one are cleared
              LET raw == [k \in 1..22 |-> e.abc[e.digits[k] + 1]] IN
              Chk(e.out = Repair("bcrypt64", raw)[2], "output", Repair("bcrypt64", raw)[2])
         [] e.op = "minlen" ->
              Chk(MinLenOk(e.L, e.n, e.entropy), "length", <<e.L, e.n, e.entropy>>)
         [] OTHER -> Bad("unknown op", <<>>)
=============================================================================
