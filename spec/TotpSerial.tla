----------------------------- MODULE TotpSerial -----------------------------
(***************************************************************************)
(* C15: serialising a TOTP configuration to a provisioning URI, JSON or a  *)
(* dict and loading it back.                                               *)
(* An object o = [key, alg, digits, period, label, issuer]; "none" marks   *)
(* an absent label/issuer.  D = the loading/creating class's defaults      *)
(* (settable with using()); F = the formats' own defaults (sha1, 6, 30):   *)
(* a field equal to F is left out when writing, and an absent field MEANS  *)
(* F when reading - whatever the class defaults are.                       *)
(* Strings are abstract symbols; percent-quoting of hostile characters is  *)
(* bound by the harness (independent urllib reader), Canon strips blanks   *)
(* round a label.                                                          *)
(***************************************************************************)
EXTENDS Naturals, Sequences, FiniteSets

\* (digits and periods are carried as decimal strings, so that every field value is a string)
F == [alg |-> "sha1", digits |-> "6", period |-> "30"]
Absent == "absent"

\* ---- dict / JSON ----
ToDict(o, D) == [type |-> "totp", v |-> 1, key |-> o.key,
                 alg |-> IF o.alg = F.alg THEN Absent ELSE o.alg,
                 digits |-> IF o.digits = F.digits THEN Absent ELSE o.digits,
                 period |-> IF o.period = F.period THEN Absent ELSE o.period,
                 label |-> IF o.label = "none" THEN Absent ELSE o.label,
                 issuer |-> IF o.issuer = "none" \/ o.issuer = D.issuer THEN Absent ELSE o.issuer]
\* <<"ok", object>> or <<"ValueError">>
FromDict(d, D) ==
    IF d.type # "totp" \/ d.v # 1 \/ d.key = Absent THEN <<"ValueError">>
    ELSE <<"ok", [key |-> d.key,
                  alg |-> IF d.alg = Absent THEN F.alg ELSE d.alg,
                  digits |-> IF d.digits = Absent THEN F.digits ELSE d.digits,
                  period |-> IF d.period = Absent THEN F.period ELSE d.period,
                  label |-> IF d.label = Absent THEN "none" ELSE d.label,
                  issuer |-> IF d.issuer = Absent THEN D.issuer ELSE d.issuer]>>

\* ---- provisioning URI:  otpauth://totp/[issuer:]label?secret=..[&algorithm=..][&digits=..][&period=..][&issuer=..] ----
\* a URI is [scheme, type, prefix (issuer before ':' in the path or Absent), label, params : Seq(<<name, value>>)]
ToUri(o) ==
    IF o.label = "none" THEN <<"ValueError">>
    ELSE <<"ok", [scheme |-> "otpauth", type |-> "totp",
                  prefix |-> IF o.issuer = "none" THEN Absent ELSE o.issuer, label |-> o.label,
                  params |-> <<<<"secret", o.key>>>>
                             \o (IF o.alg = F.alg THEN <<>> ELSE <<<<"algorithm", o.alg>>>>)
                             \o (IF o.digits = F.digits THEN <<>> ELSE <<<<"digits", o.digits>>>>)
                             \o (IF o.period = F.period THEN <<>> ELSE <<<<"period", o.period>>>>)
                             \o (IF o.issuer = "none" THEN <<>> ELSE <<<<"issuer", o.issuer>>>>)]>>
Param(u, name) == LET idx == {i \in 1..Len(u.params) : u.params[i][1] = name} IN
                  IF idx = {} THEN Absent ELSE u.params[CHOOSE i \in idx : TRUE][2]
Dup(u) == \E i, j \in 1..Len(u.params) : i # j /\ u.params[i][1] = u.params[j][1]
FromUri(u, D) ==
    IF u.scheme # "otpauth" \/ u.type # "totp" \/ u.label = Absent \/ Dup(u) \/ Param(u, "secret") = Absent
       \/ (u.prefix # Absent /\ Param(u, "issuer") # Absent /\ Param(u, "issuer") # u.prefix)
    THEN <<"ValueError">>
    ELSE LET iss == IF Param(u, "issuer") # Absent THEN Param(u, "issuer") ELSE u.prefix IN
         <<"ok", [key |-> Param(u, "secret"),
                  alg |-> IF Param(u, "algorithm") = Absent THEN F.alg ELSE Param(u, "algorithm"),
                  digits |-> IF Param(u, "digits") = Absent THEN F.digits ELSE Param(u, "digits"),
                  period |-> IF Param(u, "period") = Absent THEN F.period ELSE Param(u, "period"),
                  label |-> u.label,
                  issuer |-> IF iss = Absent THEN D.issuer ELSE iss]>>
=============================================================================
