----------------------------- MODULE PatchManager -----------------------------
(* Beyond the listed properties: the monkey-patch manager of passlib.ext.django  *)
(* (_PatchManager).  Resources are named slots holding a value; the manager      *)
(* remembers, per patched slot, the ORIGINAL value and the value it EXPECTS to   *)
(* find (its own patch).  Other code may overwrite a slot at any time.           *)
(*   patch(p, v)    original saved on first patch only; slot := v                *)
(*   unpatch(p, c)  slot restored to the original - unless somebody else changed *)
(*                  it and c (unpatch_conflicts) is FALSE: then the foreign      *)
(*                  value is left alone; the manager forgets p either way        *)
(*   unpatch_all(c) unpatch every remembered slot                                *)
(*   external(p, v) somebody else assigns the slot                               *)
(* "unset" is a value: a slot that did not exist is deleted again on restore.    *)
EXTENDS Naturals, FiniteSets, TLC, Json
CONSTANTS Paths, Values, MaxOps, DoEmit
Unset == "unset"
VARIABLES slot,      \* path -> current value
          saved,     \* path -> <<original, expected>> or <<>> when not patched
          n, obs
vars == <<slot, saved, n, obs>>
Init == /\ slot \in [Paths -> {"orig", Unset}] /\ saved = [p \in Paths |-> <<>>] /\ n = 0
        /\ obs = [op |-> "init", p |-> "", v |-> "", c |-> FALSE, conflict |-> FALSE]
Step == n < MaxOps /\ n' = n + 1
Patched(p) == saved[p] # <<>>
Patch(p, v) == /\ Step /\ v # Unset
               /\ saved' = [saved EXCEPT ![p] = <<IF Patched(p) THEN saved[p][1] ELSE slot[p], v>>]
               /\ slot' = [slot EXCEPT ![p] = v]
               /\ obs' = [op |-> "patch", p |-> p, v |-> v, c |-> FALSE, conflict |-> Patched(p) /\ slot[p] # saved[p][2]]
UnpatchOne(sl, sv, p, c) ==      \* <<slot', saved'>>
    IF sv[p] = <<>> THEN <<sl, sv>>
    ELSE IF sl[p] # sv[p][2] /\ ~c THEN <<sl, [sv EXCEPT ![p] = <<>>]>>
    ELSE <<[sl EXCEPT ![p] = sv[p][1]], [sv EXCEPT ![p] = <<>>]>>
Unpatch(p, c) == /\ Step
                 /\ LET r == UnpatchOne(slot, saved, p, c) IN slot' = r[1] /\ saved' = r[2]
                 /\ obs' = [op |-> "unpatch", p |-> p, v |-> "", c |-> c, conflict |-> Patched(p) /\ slot[p] # saved[p][2]]
UnpatchAll(c) == /\ Step
                 /\ slot' = [p \in Paths |-> UnpatchOne(slot, saved, p, c)[1][p]]
                 /\ saved' = [p \in Paths |-> <<>>]
                 /\ obs' = [op |-> "unpatch_all", p |-> "", v |-> "", c |-> c, conflict |-> \E p \in Paths : Patched(p) /\ slot[p] # saved[p][2]]
External(p, v) == /\ Step /\ slot' = [slot EXCEPT ![p] = v] /\ UNCHANGED saved
                  /\ obs' = [op |-> "external", p |-> p, v |-> v, c |-> FALSE, conflict |-> FALSE]
Next == \/ \E p \in Paths, v \in Values : Patch(p, v) \/ External(p, v)
        \/ \E p \in Paths, c \in BOOLEAN : Unpatch(p, c)
        \/ \E c \in BOOLEAN : UnpatchAll(c)
\* ---- properties ----
\* the manager is active exactly while it remembers something
Active == \E p \in Paths : Patched(p)
\* without outside interference patch ... unpatch_all restores every slot exactly
NoForeign == \A p \in Paths : Patched(p) => slot[p] = saved[p][2]
RestoreExact == [][(obs'.op = "unpatch_all" /\ NoForeign) => \A p \in Paths : (Patched(p) => slot'[p] = saved[p][1]) /\ (~Patched(p) => slot'[p] = slot[p])]_vars
\* a foreign value is never destroyed when the caller asked to keep conflicts
KeepForeign == [][(obs'.op \in {"unpatch", "unpatch_all"} /\ ~obs'.c) => \A p \in Paths : (Patched(p) /\ slot[p] # saved[p][2]) => slot'[p] = slot[p]]_vars
\* the original is captured once: re-patching never overwrites it
OriginalKept == [][\A p \in Paths : (Patched(p) /\ saved'[p] # <<>>) => saved'[p][1] = saved[p][1]]_vars
Emit == DoEmit => PrintT(<<"EMIT", ToJson([n |-> n, op |-> obs'.op, p |-> obs'.p, v |-> obs'.v, c |-> obs'.c, conflict |-> obs'.conflict,
                                           slot |-> slot', active |-> (\E p \in Paths : saved'[p] # <<>>), init |-> IF n = 0 THEN slot ELSE slot'])>>)
Rnd(S, d) == IF d >= 0 THEN RandomElement(S) ELSE CHOOSE e \in S : TRUE
SimNext == \E p \in {Rnd(Paths, n)}, v \in {Rnd(Values, n)}, c \in {Rnd(BOOLEAN, n)}, w \in {Rnd(1..10, n)} :
             CASE w \in 1..4 -> Patch(p, v) [] w \in {5, 6} -> External(p, v) [] w \in {7, 8} -> Unpatch(p, c) [] OTHER -> UnpatchAll(c)
=============================================================================
