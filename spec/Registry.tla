------------------------------- MODULE Registry -------------------------------
(* Lazy registry of hashers (C17 second half; its race is C19's subject):      *)
(* get_crypt_handler(name) and attribute access passlib.hash.<name> load the   *)
(* handler on first use; both paths must yield the same object, whose name is  *)
(* the (normalised) key; loading is idempotent.                                *)
EXTENDS Naturals, Sequences, FiniteSets, TLC, Json
CONSTANTS Names, MaxOps, DoEmit
VARIABLES loaded,    \* name -> object id (0 = not loaded); object ids are handed out in load order
          next, n, obs
vars == <<loaded, next, n, obs>>
Init == loaded = [k \in Names |-> 0] /\ next = 1 /\ n = 0 /\ obs = [op |-> "init", name |-> "", form |-> "", res |-> 0]
\* forms of the same name: as is, upper case, with '-' for '_'
Access(path, k, form) ==
    /\ n < MaxOps /\ n' = n + 1
    /\ IF loaded[k] = 0 THEN loaded' = [loaded EXCEPT ![k] = next] /\ next' = next + 1
       ELSE UNCHANGED <<loaded, next>>
    /\ obs' = [op |-> path, name |-> k, form |-> form, res |-> loaded'[k]]
Next == \E k \in Names, path \in {"get", "attr"}, form \in {"plain", "upper", "dash"} : (path = "attr" => form = "plain") /\ Access(path, k, form)
\* (random choices are drawn inside \E over a singleton: a LET-bound RandomElement over constants is evaluated once
\* for the whole run, and one that is re-evaluated is re-drawn at every reference)
Rnd(S, d) == IF d >= 0 THEN RandomElement(S) ELSE CHOOSE x \in S : TRUE
SimNext == \E k \in {Rnd(Names, n)}, path \in {Rnd({"get", "attr"}, n)}, f \in {Rnd({"plain", "upper", "dash"}, n)} :
               Access(path, k, IF path = "attr" THEN "plain" ELSE f)
\* both paths give the object loaded first; different names give different objects
InvSameObject == obs.op \in {"get", "attr"} => obs.res = loaded[obs.name]
InvDistinct == \A a, b \in Names : (a # b /\ loaded[a] # 0) => loaded[a] # loaded[b]
Idempotent == [][\A k \in Names : loaded[k] # 0 => loaded'[k] = loaded[k]]_vars
Emit == DoEmit => PrintT(<<"EMIT", ToJson([n |-> n, op |-> obs'.op, name |-> obs'.name, form |-> obs'.form, res |-> obs'.res])>>)
=============================================================================
