------------------------------ MODULE HashNames ------------------------------
(***************************************************************************)
(* passlib.crypto.digest: the names of hash functions and the cache of     *)
(* HashInfo records (an extension beyond the listed properties; bound      *)
(* inside the C11 check, whose HMAC / PBKDF2 primitives are reached        *)
(* through these names).                                                   *)
(*                                                                         *)
(* Part Names.  A spelling is given by its tokens                          *)
(*     [fam, rev, size, s1, s2, letters]                                   *)
(* and reads  fam s1 rev s2 size  ("sha" "-" "2" "_" "256"), possibly      *)
(* wrapped as a SCRAM mechanism name, in any letter case and padded with   *)
(* blanks (the binding renders those decorations; they never change the    *)
(* result).  `letters` says that fam consists of letters only, which is    *)
(* the documented "SHA2-256 style" the library takes apart; any other fam  *)
(* is opaque.  Domain (enforced by the binding): rev is "" or one digit;   *)
(* size is "" or 3 digits, 4 digits only after a rev; s1 # "" only with a  *)
(* rev, s2 # "" only with a size; opaque fams carry no "-" themselves.     *)
(*                                                                         *)
(* Part Cache.  lookup_hash returns ONE record per hash function between   *)
(* two clear_cache() calls, whatever spelling (or constructor) asked.      *)
(* Deviation modelled as the code behaves (Sticky): once a record for an   *)
(* unknown name exists (norm_hash_name makes one), lookup_hash(name) with  *)
(* the default required=True returns that record instead of raising.      *)
(***************************************************************************)
EXTENDS Integers, Sequences, FiniteSets, TLC, Json

CONSTANTS Spellings,    \* token records offered to the model
          Available,    \* hashlib names the host can compute (read from hashlib by the binding)
          MaxOps, DoEmit, Sticky

\* ------------------------------------------------------------------ Names
\* names that denote the same function: <<hashlib name, IANA name or stand-in, aliases ..>>
\* (IANA "Hash Function Textual Names"; stand-ins as documented for the functions IANA does not list)
Rows == { <<"md2", "md2">>, <<"md5", "md5">>, <<"sha1", "sha-1">>,
          <<"sha224", "sha-224", "sha2-224">>, <<"sha256", "sha-256", "sha2-256">>,
          <<"sha384", "sha-384", "sha2-384">>, <<"sha512", "sha-512", "sha2-512">>,
          <<"blake2b", "blake-2b">>, <<"blake2s", "blake-2s">>, <<"md4", "md4">>,
          <<"ripemd160", "ripemd-160", "ripemd">> }
InRow(r, n) == \E i \in 1..Len(r) : r[i] = n
HasRow(n) == \E r \in Rows : InRow(r, n)
RowOf(n)  == CHOOSE r \in Rows : InRow(r, n)

Sep(s, c)   == IF s = "" THEN "" ELSE c
\* the text after case folding and with every separator written "-"
Literal(sp) == sp.fam \o Sep(sp.s1, "-") \o sp.rev \o Sep(sp.s2, "-") \o sp.size
\* "SHA2-256 style": IANA-like and hashlib-like renderings of the tokens
Iana(sp)    == sp.fam \o sp.rev \o (IF sp.size = "" THEN "" ELSE "-" \o sp.size)
Hashlib(sp) == sp.fam \o sp.rev \o (IF sp.size = "" THEN "" ELSE (IF sp.rev = "" THEN "" ELSE "_") \o sp.size)
Under(sp)   == sp.fam \o Sep(sp.s1, "_") \o sp.rev \o Sep(sp.s2, "_") \o sp.size

\* <<hashlib name, IANA name>> of a spelling
Norm(sp) ==
    IF HasRow(Literal(sp)) THEN <<RowOf(Literal(sp))[1], RowOf(Literal(sp))[2]>>
    ELSE IF sp.letters
         THEN IF HasRow(Iana(sp)) THEN <<RowOf(Iana(sp))[1], RowOf(Iana(sp))[2]>>
              ELSE <<Hashlib(sp), Iana(sp)>>
         ELSE <<Under(sp), Literal(sp)>>

Canon(sp) == Norm(sp)[1]
Canons == {Canon(sp) : sp \in Spellings}

\* ------------------------------------------------------------------ Cache
VARIABLES obj,      \* canonical name -> record number (0: none yet)
          dummy,    \* record numbers that stand for a function nobody can compute
          next,     \* next fresh record number
          epoch,    \* number of clear_cache() calls so far
          n, last   \* step counter, last event (observation)

vars == <<obj, dummy, next, epoch, n, last>>

Init == /\ obj = [c \in Canons |-> 0] /\ dummy = {} /\ next = 1 /\ epoch = 0 /\ n = 0
        /\ last = [op |-> "init"]

Event(op, sp, req, res) == [op |-> op, sp |-> sp, required |-> req, res |-> res, n |-> n, epoch |-> epoch,
                            name |-> IF op = "clear" THEN "" ELSE Norm(sp)[1], iana |-> IF op = "clear" THEN "" ELSE Norm(sp)[2]]

Lookup(sp, req) ==
    LET c == Canon(sp) IN
    /\ n < MaxOps /\ n' = n + 1 /\ epoch' = epoch
    /\ IF obj[c] # 0 /\ (Sticky \/ obj[c] \notin dummy \/ ~req)
       THEN /\ UNCHANGED <<obj, dummy, next>>                      \* the record made earlier, whatever the spelling
            /\ last' = Event("lookup", sp, req, obj[c])
       ELSE IF c \notin Available /\ req
            THEN /\ UNCHANGED <<obj, dummy, next>>                 \* refused; nothing is remembered
                 /\ last' = Event("lookup", sp, req, -1)
            ELSE /\ obj' = [obj EXCEPT ![c] = next] /\ next' = next + 1
                 /\ dummy' = IF c \in Available THEN dummy ELSE dummy \cup {next}
                 /\ last' = Event("lookup", sp, req, next)

Clear == /\ n < MaxOps /\ n' = n + 1 /\ epoch' = epoch + 1
         /\ obj' = [c \in Canons |-> 0] /\ UNCHANGED <<dummy, next>>
         /\ last' = Event("clear", [fam |-> ""], FALSE, 0)

Next == \/ \E sp \in Spellings, req \in BOOLEAN : Lookup(sp, req)
        \/ Clear
Spec == Init /\ [][Next]_vars

\* random histories for the binding (state-dependent draws: see Rnd in Registry.tla)
Rnd(S, d) == IF d >= 0 THEN RandomElement(S) ELSE CHOOSE x \in S : TRUE
SimNext == \/ \E sp \in {Rnd(Spellings, n)}, req \in {Rnd({TRUE, TRUE, FALSE}, n)} : Lookup(sp, req)
           \/ (n > 0 /\ Rnd(1..6, n) = 1 /\ Clear)

\* one record per function and one function per record, within an epoch
InvOnePerFunction == \A a, b \in Canons : (obj[a] # 0 /\ obj[a] = obj[b]) => a = b
\* a record of a computable function is never a dummy
InvDummy == \A c \in Canons : (obj[c] # 0 /\ c \in Available) => obj[c] \notin dummy
\* a successful lookup returns the current record of its function; a refusal leaves no record behind
SameRecord == [][(last'.op = "lookup" /\ last'.res > 0) => obj'[last'.name] = last'.res]_vars
RefusalForgets == [][(last'.op = "lookup" /\ last'.res = -1) => UNCHANGED obj]_vars
\* spellings of one function agree on both names
InvNamesAgree == \A a, b \in Spellings : Canon(a) = Canon(b) => Norm(a) = Norm(b)

\* Part Names alone (evaluated once, in the initial state): names of every offered spelling, and whether asking for it with
\* required=True in a fresh cache is refused
EmitNames == \A sp \in Spellings : PrintT(<<"EMIT", ToJson([op |-> "name", sp |-> sp, name |-> Norm(sp)[1], iana |-> Norm(sp)[2],
                                                            refused |-> Norm(sp)[1] \notin Available])>>)

Emit == IF DoEmit THEN PrintT(<<"EMIT", ToJson(last')>>) ELSE TRUE
=============================================================================
