------------------------------ MODULE LazyInit ------------------------------
(***************************************************************************)
(* C19: objects that initialise themselves on first use, called from       *)
(* several threads at once.  One object, N threads, each making one public *)
(* call.  The object starts "pending" (constructor arguments stored, maybe *)
(* with an onload callback that rewrites them); the first public access    *)
(* runs the initialiser.                                                   *)
(*                                                                         *)
(* Steps of a thread (one label = one atomic step of the implementation):  *)
(*   check    read "is initialisation still pending?"                      *)
(*   acquire  (Locked protocol only) take the object's lock, then re-check *)
(*   take     read the stored arguments; extract the onload callback       *)
(*   onload   run the callback (arguments rewritten)                       *)
(*   clear    drop the stored arguments ("no longer pending")             *)
(*   build    construct the real object from the arguments                 *)
(*   switch   publish: the object now behaves as an initialised one        *)
(*   release  (Locked only)                                                *)
(*   call     perform the public call on whatever is visible               *)
(* Locked = TRUE is the protocol the library must follow; Locked = FALSE   *)
(* is the unprotected protocol (kept as a negative control: TLC finds the  *)
(* interleavings that break it, and they are replayed on the real code).   *)
(* The same module covers the lazily built base64 engine (no callback) and *)
(* the lazily loaded backend of a hasher (HasOnload = FALSE).              *)
(***************************************************************************)
EXTENDS Naturals, Sequences, FiniteSets, TLC

CONSTANTS Threads, Locked, HasOnload

VARIABLES pc,        \* thread -> label
          pending,   \* stored constructor arguments still present?
          rawArgs,   \* stored arguments still contain the onload callback?
          built,     \* "no" | "raw" (built from arguments the callback never saw) | "good"
          switched,  \* the object has been published as an ordinary initialised one (class switched)
          lock,      \* holder of the object's lock, or "free"
          mine,      \* thread -> what this thread's private copy of the arguments is: "none" | "raw" | "cooked"
          result     \* thread -> "none" | "ok" | "wrong" | "error"
vars == <<pc, pending, rawArgs, built, switched, lock, mine, result>>

Init == /\ pc = [t \in Threads |-> "check"] /\ pending = TRUE /\ rawArgs = HasOnload
        /\ built = "no" /\ switched = FALSE /\ lock = "free" /\ mine = [t \in Threads |-> "none"] /\ result = [t \in Threads |-> "none"]

Goto(t, l) == pc' = [pc EXCEPT ![t] = l]
Fail(t) == /\ result' = [result EXCEPT ![t] = "error"] /\ Goto(t, "done")
           /\ lock' = IF lock = t THEN "free" ELSE lock      \* leaving a `with` block releases the lock

\* Locked: while the object is not yet published every public access goes through the lock - an unlocked
\* look at "pending" is not enough, because the loader clears it before the object is complete
\* (TLC finds that interleaving when the check is made outside the lock)
Check(t) == /\ pc[t] = "check"
            /\ IF Locked THEN Goto(t, IF switched THEN "call" ELSE "acquire")
               ELSE IF pending THEN Goto(t, "take") ELSE Goto(t, "call")
            /\ UNCHANGED <<pending, rawArgs, built, switched, lock, mine, result>>

Acquire(t) == /\ pc[t] = "acquire" /\ lock = "free"
              /\ lock' = t
              /\ Goto(t, "recheck")
              /\ UNCHANGED <<pending, rawArgs, built, switched, mine, result>>
Recheck(t) == /\ pc[t] = "recheck"
              /\ IF pending THEN Goto(t, "take") ELSE Goto(t, "release")
              /\ UNCHANGED <<pending, rawArgs, built, switched, lock, mine, result>>

\* reading the stored arguments after another thread dropped them fails (AttributeError / TypeError / KeyError)
Take(t) == /\ pc[t] = "take"
           /\ IF ~pending THEN Fail(t) /\ UNCHANGED <<pending, rawArgs, built, switched, mine>>
              ELSE /\ mine' = [mine EXCEPT ![t] = IF rawArgs THEN "cooked-pending" ELSE IF HasOnload THEN "raw" ELSE "cooked"]
                   /\ rawArgs' = FALSE                       \* the callback is popped out of the shared arguments
                   /\ Goto(t, IF rawArgs THEN "onload" ELSE "clear")
                   /\ UNCHANGED <<pending, built, switched, lock, result>>
Onload(t) == /\ pc[t] = "onload"
             /\ mine' = [mine EXCEPT ![t] = "cooked"]
             /\ Goto(t, "clear")
             /\ UNCHANGED <<pending, rawArgs, built, switched, lock, result>>
Clear(t) == /\ pc[t] = "clear"
            /\ IF ~pending THEN Fail(t) /\ UNCHANGED <<pending, rawArgs, built, switched, mine>>     \* deleting twice
               ELSE pending' = FALSE /\ Goto(t, "build") /\ UNCHANGED <<rawArgs, built, switched, lock, mine, result>>
Build(t) == /\ pc[t] = "build"
            /\ built' = IF mine[t] = "cooked" THEN "good" ELSE "raw"
            /\ Goto(t, "switch")
            /\ UNCHANGED <<pending, rawArgs, switched, lock, mine, result>>
Switch(t) == /\ pc[t] = "switch" /\ switched' = TRUE
             /\ Goto(t, IF Locked THEN "release" ELSE "call")
             /\ UNCHANGED <<pending, rawArgs, built, lock, mine, result>>
Release(t) == /\ pc[t] = "release" /\ lock' = "free" /\ Goto(t, "call")
              /\ UNCHANGED <<pending, rawArgs, built, switched, mine, result>>
\* the public call itself: needs a completely built object
Call(t) == /\ pc[t] = "call"
           /\ result' = [result EXCEPT ![t] = CASE built = "good" -> "ok" [] built = "raw" -> "wrong" [] OTHER -> "error"]
           /\ Goto(t, "done")
           /\ UNCHANGED <<pending, rawArgs, built, switched, lock, mine>>

Step(t) == Check(t) \/ Acquire(t) \/ Recheck(t) \/ Take(t) \/ Onload(t) \/ Clear(t) \/ Build(t) \/ Switch(t) \/ Release(t) \/ Call(t)
Next == \E t \in Threads : Step(t)
Spec == Init /\ [][Next]_vars /\ \A t \in Threads : WF_vars(Step(t))

\* ---- properties (C19) ---------------------------------------------------------------
\* every thread gets what a single thread would get: a call on the fully and correctly built object
AllSequential == \A t \in Threads : pc[t] = "done" => result[t] = "ok"
\* the initialiser's effect happens at most once and nobody calls into a half-built object
NoHalfBuilt == \A t \in Threads : pc[t] = "call" => built = "good"
Terminates == <>(\A t \in Threads : pc[t] = "done")
=============================================================================
