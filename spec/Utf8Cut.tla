------------------------------- MODULE Utf8Cut -------------------------------
(***************************************************************************)
(* passlib.utils: cutting and repeating byte strings on UTF-8 character    *)
(* boundaries (utf8_truncate, utf8_repeat_string) and their plain          *)
(* counterparts (repeat_string, right_pad_string).  An extension beyond    *)
(* the listed properties, bound inside the C03 check: the bcrypt family    *)
(* prepares passwords for crypt(3) with these helpers.                     *)
(*                                                                         *)
(* A byte is one of three classes: "a" (a byte that is a character of its  *)
(* own, 0x00..0x7F - and, for this purpose, anything else that is not a    *)
(* continuation byte), "L" (lead byte of a multi-byte character, 11xxxxxx) *)
(* and "c" (continuation byte, 10xxxxxx).  A string is a sequence of       *)
(* classes; results are prefixes, so a result is given by its length.      *)
(***************************************************************************)
EXTENDS Integers, Sequences, TLC, Json

CONSTANTS MaxLen,     \* class strings up to this length
          Sizes,      \* index / size arguments tried
          DoEmit

Classes == {"a", "L", "c"}
Strs == UNION {[1..n -> Classes] : n \in 0..MaxLen}

Min2(a, b) == IF a < b THEN a ELSE b
Max2(a, b) == IF a > b THEN a ELSE b

\* index as Python reads it: negative counts from the end, never before the start
NormIndex(n, i) == IF i < 0 THEN Max2(0, i + n) ELSE i

\* documented: "truncate to the nearest character boundary ON OR AFTER index; at least index bytes; stops on the first byte that is
\* not a continuation byte; never looks further than index + 3"
CutLen(s, i) ==
    LET n == Len(s)  k == NormIndex(n, i) IN
    IF k >= n THEN n
    ELSE LET stop == Min2(k + 3, n)
             cand == {j \in k..stop : j = stop \/ s[j + 1] # "c"}      \* s[j+1] is the first byte NOT kept
         IN CHOOSE j \in cand : \A j2 \in cand : j <= j2

\* repeat s until at least `size` bytes, then cut (s non-empty, size >= 1)
Repeated(s, size) == LET m == 1 + ((size - 1) \div Len(s)) IN [j \in 1..(m * Len(s)) |-> s[((j - 1) % Len(s)) + 1]]
RepeatCutLen(s, size) == CutLen(Repeated(s, size), size)

\* well-formed UTF-8 as far as classes can say: every L is followed by 1..3 c, no c without a lead
RECURSIVE WF(_)
WF(s) == IF s = <<>> THEN TRUE
         ELSE IF s[1] = "a" THEN WF(Tail(s))
         ELSE IF s[1] = "c" THEN FALSE
         ELSE \E k \in 1..3 : /\ Len(s) >= k + 1
                              /\ \A j \in 2..(k + 1) : s[j] = "c"
                              /\ (Len(s) = k + 1 \/ s[k + 2] # "c")
                              /\ WF(SubSeq(s, k + 2, Len(s)))

\* a prefix length is a character boundary of a well-formed string: what follows does not start with a continuation byte
Boundary(s, n) == n = Len(s) \/ s[n + 1] # "c"

\* ---- properties of the definition (checked by TLC over all strings and indices) ----
VARIABLES s, i
Init == s \in Strs /\ i \in Sizes
Next == UNCHANGED <<s, i>>

InvPrefixLen   == CutLen(s, i) \in 0..Len(s)
InvAtLeast     == CutLen(s, i) >= Min2(NormIndex(Len(s), i), Len(s))
InvAtMost      == CutLen(s, i) <= Min2(NormIndex(Len(s), i) + 3, Len(s))
InvOnBoundary  == WF(s) => Boundary(s, CutLen(s, i))
InvShortest    == \A n \in Min2(NormIndex(Len(s), i), Len(s))..(CutLen(s, i) - 1) : ~Boundary(s, n)
InvIdempotent  == i >= 0 => CutLen(SubSeq(s, 1, CutLen(s, i)), i) = CutLen(s, i)
InvRepeat      == (s # <<>> /\ i >= 1) => /\ RepeatCutLen(s, i) >= i
                                          /\ RepeatCutLen(s, i) <= i + 3
                                          /\ (WF(s) => Boundary(Repeated(s, i), RepeatCutLen(s, i)))

EmitInv == DoEmit => PrintT(<<"EMIT", ToJson([s |-> s, i |-> i, cut |-> CutLen(s, i),
                                              rep |-> IF s # <<>> /\ i >= 1 THEN RepeatCutLen(s, i) ELSE -1])>>)
=============================================================================
