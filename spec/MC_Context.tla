------------------------------ MODULE MC_Context ------------------------------
(* C04: a context is configured, then hashes are made, identified, verified,  *)
(* checked for update and rehashed.  Exhaustive over small configuration      *)
(* spaces; random configurations and operation sequences in simulation mode.  *)
EXTENDS Context, Json, SequencesExt, FiniteSetsExt

CONSTANTS KwChoices,     \* name -> set of rounds-keyword records that may be configured for it
          RoundVals,     \* name -> set of cost values foreign hashes may carry
          Pws, MaxOps, MaxStore, DoEmit,
          ExSchemeSeqs, ExDefs, ExDeps,  \* pieces of the exhaustive configuration space
          FlagNames,                     \* schemes for which a self-flagged hash (scheme says: update me) is explored
          ExWithOpts                     \* explore rounds options (on single-scheme lists) instead of option-free configurations

VARIABLES cfg, ok, store, n, obs
vars == <<cfg, ok, store, n, obs>>

NoCfg == [schemes |-> <<>>, def |-> [c \in Cats |-> "unset"], depK |-> [c \in Cats |-> "unset"],
          depL |-> [c \in Cats |-> {}], opts |-> [k \in Cats \X OptNames |-> NoKw]]
Obs0 == [op |-> "init", cat |-> "none", pw |-> "", h |-> <<>>, x |-> Unset, res |-> <<"ok">>]
H(s, r, p, f) == [scheme |-> s, rounds |-> r, pw |-> p, flagged |-> f]
NoneH == H("None", Unset, "", FALSE)     \* "no new hash"

Init == cfg = NoCfg /\ ok = FALSE /\ store = {} /\ n = 0 /\ obs = Obs0

Step == n < MaxOps /\ n' = n + 1

ConfigureA(c) ==
    /\ n = 0 /\ Step /\ store' = store
    /\ cfg' = c /\ ok' = (Valid(c) /\ c.schemes # <<>>)     \* an empty context is accepted but can do nothing
    /\ obs' = [Obs0 EXCEPT !.op = "configure", !.res = IF Valid(c) THEN <<"ok">> ELSE <<"error", Errors(c)>>]

\* a fresh hash: default scheme of the category; x = the draw of the random source inside the cost intervals
Fresh(pw, cat, x) ==
    LET s == NewScheme(cfg, cat) IN
    IF Facts[s].hasRounds THEN H(s, Final(NewRecord(cfg, cat), x), pw, FALSE) ELSE H(s, Unset, pw, FALSE)
DrawsFor(cat) == LET s == NewScheme(cfg, cat) IN
                 IF Facts[s].hasRounds /\ GenOk(NewRecord(cfg, cat)) THEN Draws(NewRecord(cfg, cat)) ELSE {Unset}
CanHash(cat) == LET s == NewScheme(cfg, cat) IN ~Facts[s].hasRounds \/ GenOk(NewRecord(cfg, cat))

Keep(h) == IF Cardinality(store) < MaxStore THEN store \cup {h} ELSE store

HashA(pw, cat, x) ==
    /\ ok /\ Step /\ UNCHANGED <<cfg, ok>>
    /\ IF CanHash(cat)
       THEN /\ x \in DrawsFor(cat)
            /\ store' = Keep(Fresh(pw, cat, x))
            /\ obs' = [Obs0 EXCEPT !.op = "hash", !.cat = cat, !.pw = pw, !.x = x, !.res = <<"ok", Fresh(pw, cat, x)>>]
       ELSE /\ x = Unset /\ store' = store
            /\ obs' = [Obs0 EXCEPT !.op = "hash", !.cat = cat, !.pw = pw, !.res = <<"TypeError">>]

\* a hash from elsewhere (any scheme, any cost, possibly one its own scheme flags) enters the database
ForeignA(h) ==
    /\ ok /\ Step /\ UNCHANGED <<cfg, ok>>
    /\ store' = Keep(h)
    /\ obs' = [Obs0 EXCEPT !.op = "foreign", !.h = h]

IdentifyA(h) ==
    /\ ok /\ Step /\ UNCHANGED <<cfg, ok, store>> /\ h \in store
    /\ obs' = [Obs0 EXCEPT !.op = "identify", !.h = h, !.res = <<Identify(cfg, h)>>]

VerifyA(pw, h) ==
    /\ ok /\ Step /\ UNCHANGED <<cfg, ok, store>> /\ h \in store
    /\ obs' = [Obs0 EXCEPT !.op = "verify", !.pw = pw, !.h = h, !.res = <<Verify(cfg, pw, h)>>]

NeedsA(h, cat) ==
    /\ ok /\ Step /\ UNCHANGED <<cfg, ok, store>> /\ h \in store
    /\ obs' = [Obs0 EXCEPT !.op = "needs_update", !.cat = cat, !.h = h, !.res = <<NeedsUpdate(cfg, h, cat)>>]

\* verify_and_update: (False, None) | (True, None) | (True, new) with new from the category's default scheme
VauA(pw, h, cat, x) ==
    /\ ok /\ Step /\ UNCHANGED <<cfg, ok>> /\ h \in store
    /\ LET v == Verify(cfg, pw, h)  nu == NeedsUpdate(cfg, h, cat) IN
       IF v = "ValueError" THEN x = Unset /\ store' = store
            /\ obs' = [Obs0 EXCEPT !.op = "verify_and_update", !.cat = cat, !.pw = pw, !.h = h, !.res = <<"ValueError">>]
       ELSE IF v = "False" THEN x = Unset /\ store' = store
            /\ obs' = [Obs0 EXCEPT !.op = "verify_and_update", !.cat = cat, !.pw = pw, !.h = h, !.res = <<"False", NoneH>>]
       ELSE IF nu = "False" THEN x = Unset /\ store' = store
            /\ obs' = [Obs0 EXCEPT !.op = "verify_and_update", !.cat = cat, !.pw = pw, !.h = h, !.res = <<"True", NoneH>>]
       ELSE IF ~CanHash(cat) THEN x = Unset /\ store' = store
            /\ obs' = [Obs0 EXCEPT !.op = "verify_and_update", !.cat = cat, !.pw = pw, !.h = h, !.res = <<"TypeError">>]
       ELSE /\ x \in DrawsFor(cat)
            /\ store' = Keep(Fresh(pw, cat, x))
            /\ obs' = [Obs0 EXCEPT !.op = "verify_and_update", !.cat = cat, !.pw = pw, !.h = h, !.x = x,
                                   !.res = <<"True", Fresh(pw, cat, x)>>]

ForeignHashes == UNION {{H(s, r, p, f) : r \in RoundVals[s], p \in Pws, f \in (IF s \in FlagNames THEN BOOLEAN ELSE {FALSE})} : s \in AllNames}

\* ---- exhaustive configuration space ----
ExCfgs == { [NoCfg EXCEPT !.schemes = ss, !.def = d, !.depK = [c \in Cats |-> dp[c][1]], !.depL = [c \in Cats |-> dp[c][2]]] :
              ss \in ExSchemeSeqs, d \in [Cats -> ExDefs], dp \in [Cats -> ExDeps] }
ExOptCfgs(base) == UNION {{ [base EXCEPT !.opts = [k \in Cats \X OptNames |-> IF k[2] = s THEN (IF k[1] = "none" THEN k1 ELSE k2) ELSE NoKw]] :
                              k1 \in KwChoices[s], k2 \in KwChoices[s] } : s \in AllNames}

Next ==
    \/ ~ExWithOpts /\ \E c \in ExCfgs : ConfigureA(c)
    \/ ExWithOpts /\ \E c \in ExCfgs : Len(c.schemes) = 1 /\ \E c2 \in ExOptCfgs(c) : ConfigureA(c2)
    \/ ok /\ \E pw \in Pws, cat \in Cats : \E x \in DrawsFor(cat) \cup {Unset} : HashA(pw, cat, x)
    \/ \E h \in ForeignHashes : ForeignA(h)
    \/ \E h \in store : IdentifyA(h) \/ \E pw \in Pws : VerifyA(pw, h)
    \/ \E h \in store, cat \in Cats : NeedsA(h, cat)
    \/ ok /\ \E h \in store, cat \in Cats, pw \in Pws : \E x \in DrawsFor(cat) \cup {Unset} : VauA(pw, h, cat, x)

\* ---- random configurations (simulation) ----
Eager(S, Op(_)) == FoldSet(LAMBDA x, acc : (x :> Op(x)) @@ acc, <<>>, S)
AllSeqs == UNION {{s \in [1..k -> AllNames] : \A i, j \in 1..k : i # j => s[i] # s[j]} : k \in 0..4}
RandCfg(d) ==
    LET ss == RandomElement(AllSeqs)
        nm == {ss[i] : i \in 1..Len(ss)}
    IN [schemes |-> ss,
        \* (function constructors are evaluated lazily, application by application, and TLCEval caches per
        \*  expression: Eager builds the function by folding, so every random choice is made exactly once)
        def  |-> Eager(Cats, LAMBDA c : IF RandomElement(1..3) = 1 THEN RandomElement(nm \cup {RandomElement(AllNames)}) ELSE "unset"),
        depK |-> Eager(Cats, LAMBDA c : RandomElement({"unset", "unset", "auto", "list"})),
        depL |-> Eager(Cats, LAMBDA c : IF RandomElement(1..10) = 1 THEN RandomElement(SUBSET AllNames) ELSE RandomElement(SUBSET nm)),
        opts |-> Eager(Cats \X OptNames, LAMBDA k : IF k[2] = "all" THEN (IF RandomElement(1..4) = 1 THEN RandomElement(KwChoices["all"]) ELSE NoKw)
                                                  ELSE IF k[2] \in nm /\ RandomElement(1..2) = 1 THEN RandomElement(KwChoices[k[2]]) ELSE NoKw)]
Fix(c) == [c EXCEPT !.depL = Eager(Cats, LAMBDA k : IF c.depK[k] = "list" THEN c.depL[k] ELSE {})]

SimNext ==
    IF n = 0 THEN LET c == Fix(RandCfg(n)) IN ConfigureA(c)
    ELSE IF ~ok THEN FALSE
    ELSE LET w == RandomElement(1..12) IN
         \* (a LET-bound RandomElement is re-drawn at every reference: dependent choices are made with \E)
         CASE w \in {1, 2, 3} -> \E pw \in Pws, cat \in Cats : \E x \in DrawsFor(cat) : HashA(pw, cat, x)
           [] w \in {4, 5} \/ store = {} -> \E h \in {RandomElement(ForeignHashes)} : ForeignA(h)
           [] w = 6 -> \E h \in store : IdentifyA(h)
           [] w = 7 -> \E h \in store, pw \in Pws : VerifyA(pw, h)
           [] w \in {8, 9} -> \E h \in store, cat \in Cats : NeedsA(h, cat)
           [] OTHER -> \E h \in store, cat \in Cats, pw \in Pws : \E x \in DrawsFor(cat) \cup {Unset} : VauA(pw, h, cat, x)

\* ---- properties (C04) ---------------------------------------------------------------------
\* I1: a hash is attributed to the first configured scheme that claims it
InvIdentifyFirst ==
    (ok /\ obs.op = "identify") =>
        LET s == obs.res[1] IN
        IF s = "unset" THEN \A i \in 1..Len(cfg.schemes) : ~Claims(cfg.schemes[i], obs.h)
        ELSE \E i \in 1..Len(cfg.schemes) : cfg.schemes[i] = s /\ Claims(s, obs.h) /\ \A j \in 1..(i - 1) : ~Claims(cfg.schemes[j], obs.h)
\* I2: new hashes come from the category's default scheme with a cost inside its window
InvNewFromDefault ==
    (ok /\ obs.op \in {"hash", "verify_and_update"} /\ Len(obs.res) = 2 /\ obs.res[1] \in {"ok", "True"} /\ obs.res[2].scheme # "None") =>
        LET h == obs.res[2] IN
        /\ h.scheme = DefaultScheme(cfg, obs.cat)
        /\ (Facts[h.scheme].hasRounds /\ HasOddInWin(NewRecord(cfg, obs.cat))) => InWin(NewRecord(cfg, obs.cat), h.rounds)
\* I4/I5: what the context has just made needs no update under the same category; the rehash loop has a fixed point
InvFixedPoint == ok => \A c \in Cats : FixedPoint(cfg, c)
InvFreshNoUpdate ==
    (ok /\ obs.op \in {"hash", "verify_and_update"} /\ Len(obs.res) = 2 /\ obs.res[1] \in {"ok", "True"} /\ obs.res[2].scheme # "None") =>
        \* (a catch-all scheme listed before the default one shadows it: such a list cannot have the fixed point - C17's subject)
        (((HasOddInWin(NewRecord(cfg, obs.cat)) \/ ~Facts[obs.res[2].scheme].hasRounds) /\ Identify(cfg, obs.res[2]) = obs.res[2].scheme)
            => (NeedsUpdate(cfg, obs.res[2], obs.cat) = "False"))
\* I5: verify_and_update answers one of the three shapes, and (True, new) verifies the same password
InvVauShape ==
    (ok /\ obs.op = "verify_and_update" /\ Len(obs.res) = 2 /\ obs.res[1] = "True" /\ obs.res[2].scheme # "None") =>
        /\ obs.res[2].pw = obs.pw /\ (Identify(cfg, obs.res[2]) = obs.res[2].scheme => Verify(cfg, obs.pw, obs.res[2]) = "True")
\* I6: a valid configuration has a non-deprecated default in every category
InvDefaultLive == ok => \A c \in Cats : DefaultScheme(cfg, c) \in Names(cfg) /\ ~Deprecated(cfg, DefaultScheme(cfg, c), c)

Emit == DoEmit => PrintT(<<"EMIT", ToJson([n |-> n, op |-> obs'.op, cat |-> obs'.cat, pw |-> obs'.pw, h |-> obs'.h, x |-> obs'.x,
                                           res |-> obs'.res,
                                           cfg |-> IF obs'.op = "configure" THEN
                                                     [schemes |-> cfg'.schemes, def |-> cfg'.def, depK |-> cfg'.depK, depL |-> cfg'.depL,
                                                      opts |-> {[cat |-> k[1], name |-> k[2], kw |-> cfg'.opts[k]] : k \in {kk \in DOMAIN cfg'.opts : cfg'.opts[kk] # NoKw}}]
                                                   ELSE <<>>,
                                           defaults |-> IF obs'.op = "configure" /\ ok' THEN [c \in Cats |-> DefaultScheme(cfg', c)] ELSE <<>>,
                                           recs |-> IF obs'.op = "configure" /\ ok'
                                                    THEN {[cat |-> c, name |-> s, p |-> Record(cfg', s, c)[2], dep |-> Deprecated(cfg', s, c)] : c \in Cats, s \in Names(cfg')}
                                                    ELSE {},
                                           ivals |-> IF obs'.x # Unset THEN Intervals(NewRecord(cfg, obs'.cat)) ELSE {}])>>)
View == <<cfg, ok, store, n>>
=============================================================================
