------------------------------- MODULE Presets -------------------------------
(***************************************************************************)
(* C17: every shipped context recognises the hashes of each of its own     *)
(* schemes.  The model is EXTRACTED from the implementation: the scheme    *)
(* order of every exported context and the matrix "scheme s claims hash h" *)
(* (s.identify(h)) over generated hashes of all its schemes.  TLC decides  *)
(* first-claimant attribution for every (context, producing scheme, hash)  *)
(* and reports the shadowed ones; an invariant failure of this extracted   *)
(* model is a violation of the code.  The registry part is a small state   *)
(* machine: names are loaded lazily through two access paths.              *)
(***************************************************************************)
EXTENDS Naturals, Sequences, FiniteSets, TLC, Json

CONSTANTS Order,     \* context name -> Seq(scheme name)
          Made,      \* set of <<context, scheme, hash id>> : hash id was produced by scheme (member of context)
          Claims     \* set of <<scheme, hash id>> : scheme.identify(hash) is TRUE

FirstClaimant(c, h) ==
    LET o == Order[c] IN
    IF \E i \in 1..Len(o) : <<o[i], h>> \in Claims
    THEN o[CHOOSE i \in 1..Len(o) : <<o[i], h>> \in Claims /\ \A j \in 1..(i - 1) : <<o[j], h>> \notin Claims]
    ELSE "unidentified"

VARIABLES m, first
Init == m \in Made /\ first = "?"
IdentifyA == first = "?" /\ first' = FirstClaimant(m[1], m[3]) /\ m' = m
Next == IdentifyA

\* I1': the hash is attributed to the scheme that made it
Attributed == first # "?" => first = m[2]
\* no scheme that claims everything precedes a scheme of the same context
Shadowed == {x \in Made : FirstClaimant(x[1], x[3]) # x[2]}
Emit == PrintT(<<"EMIT", ToJson([ctx |-> m[1], scheme |-> m[2], hid |-> m[3], first |-> first'])>>)
=============================================================================
