----------------------------- MODULE MC_HashFormat -----------------------------
EXTENDS HashFormat, TLC, Json
CONSTANTS Fams,      \* set of family records [name, idents, hasRounds, elided, hasSalt, hexnorm, padrepair, altb64, rounds]
          DoEmit
VARIABLES fam, x, parsed, rerendered, done
Forms == {"canon", "uphex", "dirtypad", "explicit", "altb64"}
Xs(f) == {y \in [ident : f.idents, rounds : f.rounds \cup {Implicit, NoCost}, salt : {"none", "min", "mid", "max"}, chk : {"digest", "none"}, form : Forms] :
            WellFormed(f, y)}
Init == /\ fam \in Fams /\ x \in Xs(fam) /\ parsed = x /\ rerendered = x /\ done = FALSE
ParseA == /\ ~done /\ done' = TRUE
          /\ parsed' = ParseOfRender(fam, x) /\ rerendered' = ReRender(fam, x) /\ UNCHANGED <<fam, x>>
Next == ParseA
\* parsing then rendering is idempotent and canonical
InvCanonIdempotent == done => Canon(fam, rerendered) = rerendered
\* the settings reported are the ones used (effective cost, ident, salt class), whatever the spelling
InvSettings == done => /\ parsed.ident = x.ident /\ parsed.salt = x.salt /\ parsed.chk = x.chk
                                     /\ (fam.hasRounds => parsed.rounds = EffRounds(fam, x))
\* a canonical text is a fixed point; two spellings of the same value canonicalise identically
InvFixedPoint == (done /\ x.form \in {"canon", "explicit"}) => rerendered = x
\* both spellings of the elided default denote the same cost
InvElision == (done /\ fam.elided # NoCost /\ x.rounds \in {Implicit, fam.elided}) => parsed.rounds = fam.elided
Emit == DoEmit => PrintT(<<"EMIT", ToJson([fam |-> fam.name, x |-> x, parsed |-> parsed', rerendered |-> rerendered'])>>)
=============================================================================
