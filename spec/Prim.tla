-------------------------------- MODULE Prim --------------------------------
(* Small shared helpers: naturals beyond TLC's 32-bit integers are carried   *)
(* as little-endian sequences of 15-bit limbs.                               *)
EXTENDS Integers, Sequences, SequencesExt, FiniteSets

LB == 32768   \* 2^15

Max2(a, b) == IF a >= b THEN a ELSE b
Min2(a, b) == IF a <= b THEN a ELSE b
SetMax(S) == CHOOSE x \in S : \A y \in S : y <= x
SetMin(S) == CHOOSE x \in S : \A y \in S : x <= y

\* limbs are little-endian: value = SUM l[i] * LB^(i-1)
LNorm(l) == IF l = <<>> THEN <<0>> ELSE l
\* divide a limb number by a small divisor d (d < 2^15): <<quotient limbs, remainder>>
LDivMod(l, d) ==
    LET n == Len(l)
        \* fold from most significant limb; acc = <<quotient (little-endian, built by prepending), rem>>
        step(acc, i) == LET cur == acc[2] * LB + l[i]
                        IN << <<cur \div d>> \o acc[1], cur % d >>
    IN FoldLeft(step, << <<>>, 0 >>, [k \in 1..n |-> n + 1 - k])
\* multiply by a small factor m (m < 2^15) keeping Len(l)+1 limbs
LMulSmall(l, m) ==
    LET step(acc, i) == LET cur == l[i] * m + acc[2]
                        IN << acc[1] \o <<cur % LB>>, cur \div LB >>
        r == FoldLeft(step, << <<>>, 0 >>, [k \in 1..Len(l) |-> k])
    IN r[1] \o <<r[2]>>
\* add a small non-negative number
LAddSmall(l, k) ==
    LET step(acc, i) == LET cur == l[i] + acc[2]
                        IN << acc[1] \o <<cur % LB>>, cur \div LB >>
        r == FoldLeft(step, << <<>>, k >>, [j \in 1..Len(l) |-> j])
    IN r[1] \o <<r[2]>>
\* strip high zero limbs (canonical form, at least one limb)
LCanon(l) == LET nz == {i \in 1..Len(l) : l[i] # 0}
             IN IF nz = {} THEN <<0>> ELSE SubSeq(l, 1, SetMax(nz))
LEq(a, b) == LCanon(a) = LCanon(b)
\* a >= b on limb numbers
LGeq(a, b) == LET x == LCanon(a) y == LCanon(b) IN
              IF Len(x) # Len(y) THEN Len(x) > Len(y)
              ELSE LET d == {i \in 1..Len(x) : x[i] # y[i]} IN d = {} \/ x[SetMax(d)] > y[SetMax(d)]
\* m^n as a limb number (m < 2^15)
LPow(m, n) == FoldLeft(LAMBDA acc, i : LCanon(LMulSmall(acc, m)), <<1>>, [k \in 1..n |-> k])
=============================================================================
