------------------------------- MODULE HtFile -------------------------------
(***************************************************************************)
(* htpasswd / htdigest file objects as a user database (C16).              *)
(*                                                                         *)
(* A file is a sequence of lines: comment/blank ("skip"), record (key,     *)
(* hash) or malformed ("bad").  The in-memory object holds                 *)
(*   recs  : key -> hash          the live user database                   *)
(*   lines : Seq(token)           what export writes, in order             *)
(* and may be bound to a disk file with modification time stamps.          *)
(* Keys are users (htpasswd) or user/realm pairs (htdigest); hashes are    *)
(* abstract: [pw, gen] where gen = "old" marks a hash of a scheme the      *)
(* context deprecates, "new" a current one, "raw" an opaque text given to  *)
(* set_hash.                                                               *)
(*                                                                         *)
(* Intended design: export = comments verbatim + one line per live key;    *)
(* a later duplicate of a key in a loaded file is dead data and never      *)
(* comes back; a failed operation changes nothing.                         *)
(***************************************************************************)
EXTENDS Integers, Sequences, FiniteSets, SequencesExt, Functions

CONSTANTS Keys,        \* valid keys
          BadKeys,     \* names the API must refuse (separator, control char, > 255 bytes)
          Pws,         \* passwords
          Upgrades,    \* TRUE: the file's context deprecates the scheme of "old" hashes (htpasswd); FALSE: htdigest
          NoFile

Hashes == [pw : Pws, gen : {"new", "old"}] \cup [pw : {"-"}, gen : {"raw1", "raw2"}]
Skip(x)   == [t |-> "skip", x |-> x]
Rec(k, h) == [t |-> "rec", k |-> k, h |-> h]
BadLine   == [t |-> "bad"]

\* ---- parsing a file content: first occurrence of a key wins, duplicates are dropped
RECURSIVE ParseFrom(_, _, _, _)
ParseFrom(content, i, lines, recs) ==
    IF i > Len(content) THEN <<"ok", lines, recs>>
    ELSE LET l == content[i] IN
         IF l.t = "bad" THEN <<"ValueError", i>>
         ELSE IF l.t = "skip" THEN ParseFrom(content, i + 1, Append(lines, l), recs)
         ELSE IF l.k \in DOMAIN recs THEN ParseFrom(content, i + 1, lines, recs)     \* dead duplicate
         ELSE ParseFrom(content, i + 1, Append(lines, [t |-> "rec", k |-> l.k]), (l.k :> l.h) @@ recs)
Parse(content) == ParseFrom(content, 1, <<>>, <<>>)

\* ---- export
Export(lines, recs) ==
    LET live == SelectSeq(lines, LAMBDA tk : tk.t = "skip" \/ tk.k \in DOMAIN recs)
    IN [i \in 1..Len(live) |-> IF live[i].t = "skip" THEN live[i] ELSE Rec(live[i].k, recs[live[i].k])]

\* what a reader of the exported text sees (Apache: first match wins)
ReadBack(content) == LET p == Parse(content) IN IF p[1] = "ok" THEN p[3] ELSE <<>>
KeyCount(content, k) == Cardinality({i \in 1..Len(content) : content[i].t = "rec" /\ content[i].k = k})

\* ---- operations on <<lines, recs>>; each returns <<result, lines', recs', changed>>
SetHash(lines, recs, k, h) ==
    IF k \in BadKeys THEN <<"ValueError", lines, recs, FALSE>>
    ELSE IF k \in DOMAIN recs THEN <<"True", lines, [recs EXCEPT ![k] = h], TRUE>>
    ELSE <<"False", Append(lines, [t |-> "rec", k |-> k]), (k :> h) @@ recs, TRUE>>

Delete(lines, recs, k) ==
    IF k \in BadKeys THEN <<"ValueError", lines, recs, FALSE>>
    ELSE IF k \notin DOMAIN recs THEN <<"False", lines, recs, FALSE>>
    ELSE <<"True", SelectSeq(lines, LAMBDA tk : tk.t = "skip" \/ tk.k # k),
           [x \in DOMAIN recs \ {k} |-> recs[x]], TRUE>>

\* check_password: None for unknown users, TRUE exactly for the password last set;
\* a correct password against a deprecated-scheme hash stores an upgraded hash
CheckPassword(lines, recs, k, p) ==
    IF k \in BadKeys THEN <<"ValueError", lines, recs, FALSE>>
    ELSE IF k \notin DOMAIN recs THEN <<"None", lines, recs, FALSE>>
    ELSE IF recs[k].pw = "-" THEN <<"ValueError", lines, recs, FALSE>>      \* stored text is no hash at all (set_hash does not validate)
    ELSE IF recs[k].pw # p THEN <<"False", lines, recs, FALSE>>
    ELSE IF recs[k].gen = "old" /\ Upgrades THEN <<"True", lines, [recs EXCEPT ![k] = [pw |-> p, gen |-> "new"]], TRUE>>
    ELSE <<"True", lines, recs, FALSE>>

GetHash(recs, k) == IF k \in BadKeys THEN "ValueError" ELSE IF k \in DOMAIN recs THEN recs[k] ELSE "None"
=============================================================================
