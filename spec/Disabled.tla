------------------------------ MODULE Disabled ------------------------------
(***************************************************************************)
(* Disabled accounts (C18).  A stored credential is one of                 *)
(*   "None"  no hash at all          "Empty"  the empty string             *)
(*   "M1","M2"  a bare marker ("!" resp. "*")                              *)
(*   "M1H","M2H"  marker followed by the original hash                     *)
(*   "H"    a normal hash of the account's password                        *)
(*   "D"    a django-style disabled string ("!" + random text)             *)
(* A context lists one or two disabled-account handlers, L = a sequence of *)
(* "unix1" (marker "!"), "unix2" (marker "*"), "django", next to the real  *)
(* scheme of the account's hash; `known` says whether that real scheme is  *)
(* (still) configured - a reload of the context can drop it.               *)
(*   - a string is attributed to the FIRST handler that claims it;         *)
(*   - disable() is done by the first disabled handler of the list;        *)
(*   - enable() by the handler the string is attributed to.                *)
(***************************************************************************)
EXTENDS Naturals, Sequences
CONSTANT Greedy      \* the real scheme is a catch-all (plaintext): it claims every string no disabled-account handler listed before it claims

Stored == {"None", "Empty", "M1", "M2", "M1H", "M2H", "H", "D"}
Marker(h) == IF h = "unix2" THEN "M2" ELSE "M1"
WithHash(h) == IF h = "unix2" THEN "M2H" ELSE "M1H"

\* what one handler claims
HClaims(h, x) ==
    IF h = "django" THEN x \in {"M1", "M1H", "D"}               \* anything starting with "!"
    ELSE x \in {"Empty", "M1", "M2", "M1H", "M2H", "D"}         \* empty, or starting with "!" / "*"
\* the handler a string is attributed to: a member of L, "real", or "unknown" (-> value error)
Ident(L, known, x) ==
    IF \E i \in 1..Len(L) : HClaims(L[i], x)
    THEN L[CHOOSE i \in 1..Len(L) : HClaims(L[i], x) /\ \A j \in 1..(i - 1) : ~HClaims(L[j], x)]
    ELSE IF known /\ (x = "H" \/ (Greedy /\ x # "None")) THEN "real" ELSE "unknown"
IsDisabled(L, known, x) == Ident(L, known, x) \notin {"real", "unknown"}
Unknown(L, known, x) == x = "None" \/ Ident(L, known, x) = "unknown"

\* one handler's disable(): never fails, keeps an embedded/original hash where the scheme can
HDisable(h, x) ==
    IF h = "django" THEN <<"ok", "D">>
    ELSE IF x \in {"None", "Empty", "M1", "M2"} THEN <<"ok", Marker(h)>>
    ELSE <<"ok", WithHash(h)>>                                    \* "H", "M1H", "M2H" (and marker + the text after a "!")
Disable(L, x) == HDisable(L[1], x)

\* one handler's enable(): the original hash when one is embedded, ValueError otherwise
HEnable(h, x) ==
    IF h # "django" /\ x \in {"M1H", "M2H"} THEN <<"ok", "H">>
    ELSE IF h # "django" /\ x = "D" THEN <<"ok", "Dtail">>        \* whatever followed the marker (not a real hash)
    ELSE <<"ValueError">>
\* enable(): by the handler the string is attributed to; a normal hash is returned unchanged
Enable(L, known, x) ==
    IF Unknown(L, known, x) THEN <<"ValueError">>
    ELSE IF ~IsDisabled(L, known, x) THEN <<"ok", x>>
    ELSE HEnable(Ident(L, known, x), x)

IsEnabled(L, known, x) == IF Unknown(L, known, x) THEN "ValueError" ELSE IF IsDisabled(L, known, x) THEN "False" ELSE "True"

\* verify(): never TRUE for a disabled or missing credential; a missing one costs one dummy verification
\* with whatever the context's CURRENT configuration is
Verify(L, known, rightPw, x) ==
    IF x = "None" THEN "False"
    ELSE IF Unknown(L, known, x) THEN "ValueError"
    ELSE IF x = "H" THEN (IF rightPw THEN "True" ELSE "False")
    ELSE "False"
=============================================================================
