------------------------------ MODULE Disabled ------------------------------
(***************************************************************************)
(* Disabled accounts (C18).  A stored credential is one of                 *)
(*   "None"  no hash at all          "Empty"  the empty string             *)
(*   "M1","M2"  a bare marker ("!" resp. "*")                              *)
(*   "M1H","M2H"  marker followed by the original hash                     *)
(*   "H"    a normal hash of the account's password                        *)
(*   "D"    a django-style disabled string ("!" + random text)             *)
(* Kind of the context's disabled scheme: "unix1" (marker "!"), "unix2"    *)
(* (marker "*"), "django".                                                 *)
(***************************************************************************)
EXTENDS Naturals, Sequences

Stored == {"None", "Empty", "M1", "M2", "M1H", "M2H", "H", "D"}
Marker(kind) == IF kind = "unix2" THEN "M2" ELSE "M1"
WithHash(kind) == IF kind = "unix2" THEN "M2H" ELSE "M1H"

\* what the context recognises as a disabled account
IsDisabled(kind, x) ==
    IF kind = "django" THEN x \in {"M1", "M1H", "D"}            \* anything starting with "!"
    ELSE x \in {"Empty", "M1", "M2", "M1H", "M2H", "D"}         \* empty, or starting with "!" / "*"
\* strings the context cannot attribute to any scheme (-> value error)
Unknown(kind, x) == x = "None" \/ (kind = "django" /\ x \in {"Empty", "M2", "M2H"})

\* disable(): <<"ok", stored'>> - never fails, keeps an embedded/original hash where the scheme can
Disable(kind, x) ==
    IF kind = "django" THEN <<"ok", "D">>
    ELSE IF x \in {"None", "Empty", "M1", "M2"} THEN <<"ok", Marker(kind)>>
    ELSE IF x \in {"M1H", "M2H", "H"} THEN <<"ok", WithHash(kind)>>
    ELSE <<"ok", WithHash(kind)>>                                 \* "D": marker + the text that followed the "!"

\* enable(): the original hash when one is embedded, ValueError otherwise; a normal hash is returned unchanged
Enable(kind, x) ==
    IF Unknown(kind, x) THEN <<"ValueError">>
    ELSE IF ~IsDisabled(kind, x) THEN <<"ok", x>>
    ELSE IF kind # "django" /\ x \in {"M1H", "M2H"} THEN <<"ok", "H">>
    ELSE IF kind # "django" /\ x = "D" THEN <<"ok", "Dtail">>     \* whatever followed the marker (not a real hash)
    ELSE <<"ValueError">>

IsEnabled(kind, x) == IF Unknown(kind, x) THEN "ValueError" ELSE IF IsDisabled(kind, x) THEN "False" ELSE "True"

\* verify(): never TRUE for a disabled or missing credential
Verify(kind, rightPw, x) ==
    IF x = "None" THEN "False"                    \* plus one dummy verification
    ELSE IF Unknown(kind, x) THEN "ValueError"
    ELSE IF x = "H" THEN (IF rightPw THEN "True" ELSE "False")
    ELSE "False"
=============================================================================
