---------------------------- MODULE MC_TotpMatch ----------------------------
(* Exhaustive / simulated instance of Totp!MatchResult with histories (C14). *)
EXTENDS Totp, TLC, Json

CONSTANTS Periods, Windows, Skews, Times, Lasts,   \* parameter ranges
          CMin, CMax,                               \* counters with a code
          CollPairs,                                \* set of <<a, b>>, a < b: Code[b] = Code[a]; <<0,0>> = injective
          Bases,                                    \* subset of {"zero", "far"}
          MaxAttempts, DoEmit

VARIABLES p, coll, base, last, accepted, n, obs

vars == <<p, coll, base, last, accepted, n, obs>>

\* token symbol of a counter = the least counter with the same code; "none" matches nothing
Code == [c \in CMin..CMax |-> IF coll # <<0, 0>> /\ c = coll[2] THEN coll[1] ELSE c]
Tokens == {Code[c] : c \in CMin..CMax} \cup {NoneTok} \cup Malformed
BaseCounter == IF base = "zero" THEN 0 ELSE CMin - 1
\* the application has no last counter yet (the library's default): behaves as "one before the first counter"
NoLast == -1000
EffLast == IF last = NoLast THEN BaseCounter - 1 ELSE last

Init == /\ p \in Periods /\ coll \in CollPairs /\ base \in Bases
        /\ last \in Lasts \cup {NoLast} /\ (base = "zero" => (last >= 0 \/ last = NoLast)) /\ accepted = <<>> /\ n = 0 /\ obs = [tok |-> NoneTok, t |-> 0, w |-> 0, skew |-> 0, res |-> <<"Init">>, fb |-> FALSE]

Attempt(tok, t, w, skew, feedback) ==
    /\ n < MaxAttempts
    /\ n' = n + 1
    /\ LET r == MatchResult(Code, p, BaseCounter, EffLast, tok \in Malformed, tok, t, w, skew) IN
       /\ obs' = [tok |-> tok, t |-> t, w |-> w, skew |-> skew, res |-> r, fb |-> feedback]
       /\ IF r[1] = "Accept" /\ feedback
          THEN last' = r[2] /\ accepted' = Append(accepted, r[2])
          ELSE UNCHANGED <<last, accepted>>
    /\ UNCHANGED <<p, coll, base>>

Next == \E tok \in Tokens, t \in Times, w \in Windows, skew \in Skews :
            Attempt(tok, t, w, skew, TRUE)

\* random behaviours (simulation mode): one successor per step
SimNext == Attempt(RandomElement(Tokens), RandomElement(Times), RandomElement(Windows), RandomElement(Skews), TRUE)

\* ---- properties (C14) --------------------------------------------------------
\* accepted counters strictly increase, hence no counter (and no code use) is accepted twice
InvStrictlyIncreasing ==
    \A i \in 1..(Len(accepted) - 1) : accepted[i] < accepted[i + 1]
InvLastIsNewest ==
    accepted # <<>> => last = accepted[Len(accepted)]
\* classification exactly as stated; evaluated on every transition (pre-state `last`, new observation)
ClassOK(o, lst) ==
      LET r == o.res
          ct == o.t + o.skew
      IN /\ (o.tok \in Malformed) <=> (r[1] = "Malformed")
         /\ r[1] = "Accept" =>
               /\ Code[r[2]] = o.tok
               /\ r[2] >= (ct - o.w) \div p /\ r[2] <= (ct + o.w) \div p   \* inside the window, edges inclusive
               /\ r[2] >= BaseCounter /\ r[2] > lst
               /\ \A c \in CMin..(r[2] - 1) :                                 \* earliest match not hidden by last
                     (c >= (ct - o.w) \div p /\ c >= BaseCounter /\ Code[c] = o.tok) => c < lst
         /\ r[1] = "Used" => r[2] = (lst + 1) * p /\ Code[lst] = o.tok
         /\ r[1] = "Invalid" =>
               \A c \in CMin..CMax :
                  (c >= (ct - o.w) \div p /\ c <= (ct + o.w) \div p /\ c >= lst /\ c >= BaseCounter)
                     => Code[c] # o.tok
CheckClass == Assert(ClassOK(obs', EffLast), <<"classification violated", obs', last>>)
\* action property: an accepted counter is strictly later than the previous last
AcceptAdvances == [][last' # last => (last' > last /\ last' > EffLast)]_vars

Emit == CheckClass /\ (DoEmit => PrintT(<<"EMIT", ToJson([p |-> p, coll |-> coll, base |-> base, last |-> last,
                                           tok |-> obs'.tok, t |-> obs'.t, w |-> obs'.w, skew |-> obs'.skew,
                                           res |-> obs'.res])>>))
\* the observation is not part of the state for exhaustive runs
View == <<p, coll, base, last, accepted, n>>
=============================================================================
