-------------------------------- MODULE Salsa --------------------------------
(* scrypt's core as RFC 7914 describes it (C11): Salsa20/8 on sixteen 32-bit    *)
(* words, scryptBlockMix on 2r 64-byte blocks, scryptROMix with N blocks of     *)
(* memory.  A block is a sequence of 32-bit words (Word32 limb pairs); the      *)
(* outer PBKDF2-HMAC-SHA256 steps are not part of this module.                  *)
EXTENDS Word32, SequencesExt
\* RFC 7914 section 3: the 32 operations x[t] ^= R(x[a] + x[b], s) of one double round (0-based indices)
QR == << <<4, 0, 12, 7>>,  <<8, 4, 0, 9>>,    <<12, 8, 4, 13>>,  <<0, 12, 8, 18>>,
         <<9, 5, 1, 7>>,   <<13, 9, 5, 9>>,   <<1, 13, 9, 13>>,  <<5, 1, 13, 18>>,
         <<14, 10, 6, 7>>, <<2, 14, 10, 9>>,  <<6, 2, 14, 13>>,  <<10, 6, 2, 18>>,
         <<3, 15, 11, 7>>, <<7, 3, 15, 9>>,   <<11, 7, 3, 13>>,  <<15, 11, 7, 18>>,
         <<1, 0, 3, 7>>,   <<2, 1, 0, 9>>,    <<3, 2, 1, 13>>,   <<0, 3, 2, 18>>,
         <<6, 5, 4, 7>>,   <<7, 6, 5, 9>>,    <<4, 7, 6, 13>>,   <<5, 4, 7, 18>>,
         <<11, 10, 9, 7>>, <<8, 11, 10, 9>>,  <<9, 8, 11, 13>>,  <<10, 9, 8, 18>>,
         <<12, 15, 14, 7>>, <<13, 12, 15, 9>>, <<14, 13, 12, 13>>, <<15, 14, 13, 18>> >>
QStep(x, q) == [x EXCEPT ![q[1] + 1] = WXor(@, WRotl(WAdd(x[q[2] + 1], x[q[3] + 1]), q[4]))]
DoubleRound(x) == FoldLeft(QStep, x, QR)
Salsa208(b) == LET x == DoubleRound(DoubleRound(DoubleRound(DoubleRound(b)))) IN [i \in 1..16 |-> WAdd(x[i], b[i])]

XorBlock(a, b) == [i \in 1..Len(a) |-> WXor(a[i], b[i])]
Sub16(B, i) == SubSeq(B, 16 * i + 1, 16 * i + 16)             \* 64-byte block number i (0-based) of B
\* section 4: X = B[2r-1]; for i: X = Salsa(X xor B[i]), Y[i] = X;  B' = Y[0], Y[2], .., Y[2r-2], Y[1], Y[3], .., Y[2r-1]
BlockMix(B, r) ==
    LET acc == FoldLeft(LAMBDA st, i : LET X == Salsa208(XorBlock(st[1], Sub16(B, i))) IN <<X, Append(st[2], X)>>,
                        <<Sub16(B, 2 * r - 1), <<>>>>, [i \in 1..(2 * r) |-> i - 1])
        Y == acc[2]
    IN FoldLeft(LAMBDA out, k : out \o Y[k], <<>>, [k \in 1..(2 * r) |-> IF k <= r THEN 2 * k - 1 ELSE 2 * (k - r)])
\* section 5: Integerify = the last 64-byte block read as a little-endian integer; only its low 32 bits matter for N <= 2^32
Integerify(B, r, N) == LET w == B[16 * (2 * r - 1) + 1] IN ((w[1] % N) * (65536 % N) + w[2]) % N
ROMix(B, r, N) ==
    LET fill == FoldLeft(LAMBDA st, i : <<BlockMix(st[1], r), Append(st[2], st[1])>>, <<B, <<>>>>, [i \in 1..N |-> i])
        V == fill[2]
    IN FoldLeft(LAMBDA X, i : BlockMix(XorBlock(X, V[Integerify(X, r, N) + 1]), r), fill[1], [i \in 1..N |-> i])
\* bytes <-> words (little-endian)
WordsOf(bytes) == [k \in 1..(Len(bytes) \div 4) |-> WFromLE(bytes, 4 * (k - 1) + 1)]
BytesOf(words) == Flatten4(words)
\* parameter validity (RFC 7914 section 2 / 6): N a power of two greater than 1, r * p < 2^30
IsPow2(n) == \E k \in 1..30 : n = 2^k
ValidParams(N, r, p) == IsPow2(N) /\ r >= 1 /\ p >= 1 /\ r <= 1073741823 \div p /\ (r * p < 1073741824)
=============================================================================
