------------------------------ MODULE MC_Blowfish ------------------------------
EXTENDS Blowfish, TLC, Json, IOUtils
Input == JsonDeserialize(IOEnv.TRACE_FILE)        \* [P |-> 18 words, S |-> 1024 words, cases |-> <<[kind, ...]>>]
W(x) == <<x[1], x[2]>>
Pinit == [i \in 1..18 |-> W(Input.P[i])]
Sinit == [i \in 1..1024 |-> W(Input.S[i])]
VARIABLES i, done
Init == i \in 1..Len(Input.cases) /\ done = FALSE
Result(c) == CASE c.kind = "bcrypt" -> BcryptRaw(Pinit, Sinit, c.cost, c.salt, KeyOf(c.pw))
               [] c.kind = "encipher" ->       \* plain Blowfish: standard key schedule, one block
                    LET st == ExpandKey(Pinit, Sinit, ZeroSalt, c.key)
                        lr == Encipher(st[1], st[2], WFromBE(c.block, 1), WFromBE(c.block, 5))
                    IN WToBE(lr[1]) \o WToBE(lr[2])
               [] OTHER -> <<>>
Next == ~done /\ done' = TRUE /\ i' = i /\ PrintT(<<"EMIT", ToJson([case |-> i, out |-> Result(Input.cases[i])])>>)
=============================================================================
