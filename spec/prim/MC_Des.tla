-------------------------------- MODULE MC_Des --------------------------------
EXTENDS Des, TLC, Json, IOUtils
Cases == JsonDeserialize(IOEnv.TRACE_FILE)
VARIABLES i, done
Init == i \in 1..Len(Cases) /\ done = FALSE
Result(c) == CASE c.kind = "block" -> BytesOfBits(DesCrypt(BitsOfBytes(c.key), BitsOfBytes(c.input), c.salt, c.rounds))
               [] c.kind = "expand" -> BytesOfBits(Expand56(BitsOfBytes(c.key)))
               [] c.kind = "shrink" -> BytesOfBits(Shrink64(BitsOfBytes(c.key)))
               [] OTHER -> <<>>
Next == ~done /\ done' = TRUE /\ i' = i /\ PrintT(<<"EMIT", ToJson([case |-> i, out |-> Result(Cases[i])])>>)
\* laws of the key expansion: shrinking an expanded key gives the key back; parity positions do not matter to the cipher
InvExpand == Cases[i].kind = "expand" => Shrink64(Expand56(BitsOfBytes(Cases[i].key))) = BitsOfBytes(Cases[i].key)
=============================================================================
