-------------------------------- MODULE Terms --------------------------------
(* Byte-string terms: the language in which the algorithm specifications      *)
(* (prim/Hmac, prim/Pbkdf, algo/* ) say WHICH bytes are fed to WHICH primitive *)
(* in WHICH order.  TLC builds the term/program for a given shape (lengths,    *)
(* rounds, variant); the harness evaluates it over concrete bytes with trusted *)
(* primitives only (hashlib constructors) and compares with the library.       *)
(* A program is [defs |-> <<name, term>>, ...  , out |-> term]: definitions    *)
(* are evaluated in order and may be referenced by later terms.                *)
EXTENDS Naturals, Sequences, TLC
In(name)        == <<"in", name>>                  \* an input of the computation (password, salt, key, message ...)
Lit(bytes)      == <<"lit", bytes>>                \* literal bytes
Ref(name)       == <<"ref", name>>                 \* a previous definition
Cat2(a, b)      == <<"cat", a, b>>
Cat3(a, b, c)   == <<"cat", a, b, c>>
Cat4(a, b, c, d) == <<"cat", a, b, c, d>>
CatSeq(ts)      == <<"catseq", ts>>                \* concatenation of a sequence of terms
Hash(alg, t)    == <<"H", alg, t>>                 \* the plain hash function alg
XorByte(t, b)   == <<"xorb", t, b>>                \* every byte xor b
XorT(a, b)      == <<"xor", a, b>>                 \* bytewise xor of equally long strings
PadZero(t, n)   == <<"padz", t, n>>                \* zero bytes appended up to length n
Take(t, n)      == <<"take", t, n>>                \* first n bytes
Drop(t, n)      == <<"drop", t, n>>                \* without the first n bytes
Rep(t, n)       == <<"rep", t, n>>                 \* t repeated and cut to exactly n bytes
Int32BE(i)      == <<"lit", <<(i \div 16777216) % 256, (i \div 65536) % 256, (i \div 256) % 256, i % 256>>>>
ByteAt(t, i)    == <<"byteat", t, i>>              \* data dependent: the i-th byte (0-based) as a number
Name(prefix, i) == prefix \o ToString(i)
\* ---- additions for the algorithm layer (spec/algo) ----
Str(text)       == <<"str", text>>                 \* the ASCII bytes of a literal text
Dec(n)          == <<"str", ToString(n)>>          \* decimal rendering of a number
RepDyn(t, base, d) == <<"repdyn", t, base, d>>     \* t repeated (base + first byte of d) times - data dependent
TakeLen(t, u)   == <<"takelen", t, u>>             \* the first len(u) bytes of t
Hex(t)          == <<"hex", t>>                    \* lower-case hexadecimal
UpperHex(t)     == <<"upperhex", t>>
Upper(t)        == <<"upper", t>>                  \* ASCII upper-casing
Lower(t)        == <<"lower", t>>
Utf16le(t)      == <<"utf16le", t>>                \* UTF-8 text re-encoded as UTF-16-LE
B64(t)          == <<"b64", t>>                    \* RFC 4648 base64 with padding
B64NoPad(t)     == <<"b64nopad", t>>               \* RFC 4648 base64 without the padding
AB64(t)         == <<"ab64", t>>                   \* "adapted base64": '.' for '+', no padding
\* crypt(3)'s radix-64: for each <<i2, i1, i0, n>> the value byte[i2]<<16 | byte[i1]<<8 | byte[i0] (index -1 = zero, 0-based)
\* is written as n characters of "./0-9A-Za-z", least significant 6 bits first
H64Groups(t, groups) == <<"h64groups", t, groups>>
Hmac3(alg, key, msg) == <<"hmac", alg, key, msg>>                   \* primitive symbol: HMAC (RFC 2104; its structure is C11's subject)
Pbkdf2(alg, pw, salt, rounds, n) == <<"pbkdf2", alg, pw, salt, rounds, n>>   \* primitive symbol: PBKDF2-HMAC (C11)
Scrypt(pw, salt, N, r, p, n) == <<"scrypt", pw, salt, N, r, p, n>>  \* primitive symbol: scrypt (C11)
BcryptCore(ident, pw, salt22, cost) == <<"bcrypt", ident, pw, salt22, cost>>  \* primitive symbol: the bcrypt core (31 digest characters)
=============================================================================
