-------------------------------- MODULE Terms --------------------------------
(* Byte-string terms: the language in which the algorithm specifications      *)
(* (prim/Hmac, prim/Pbkdf, algo/* ) say WHICH bytes are fed to WHICH primitive *)
(* in WHICH order.  TLC builds the term/program for a given shape (lengths,    *)
(* rounds, variant); the harness evaluates it over concrete bytes with trusted *)
(* primitives only (hashlib constructors) and compares with the library.       *)
(* A program is [defs |-> <<name, term>>, ...  , out |-> term]: definitions    *)
(* are evaluated in order and may be referenced by later terms.                *)
EXTENDS Naturals, Sequences, TLC
In(name)        == <<"in", name>>                  \* an input of the computation (password, salt, key, message ...)
Lit(bytes)      == <<"lit", bytes>>                \* literal bytes
Ref(name)       == <<"ref", name>>                 \* a previous definition
Cat2(a, b)      == <<"cat", a, b>>
Cat3(a, b, c)   == <<"cat", a, b, c>>
Cat4(a, b, c, d) == <<"cat", a, b, c, d>>
CatSeq(ts)      == <<"catseq", ts>>                \* concatenation of a sequence of terms
Hash(alg, t)    == <<"H", alg, t>>                 \* the plain hash function alg
XorByte(t, b)   == <<"xorb", t, b>>                \* every byte xor b
XorT(a, b)      == <<"xor", a, b>>                 \* bytewise xor of equally long strings
PadZero(t, n)   == <<"padz", t, n>>                \* zero bytes appended up to length n
Take(t, n)      == <<"take", t, n>>                \* first n bytes
Drop(t, n)      == <<"drop", t, n>>                \* without the first n bytes
Rep(t, n)       == <<"rep", t, n>>                 \* t repeated and cut to exactly n bytes
Int32BE(i)      == <<"lit", <<(i \div 16777216) % 256, (i \div 65536) % 256, (i \div 256) % 256, i % 256>>>>
ByteAt(t, i)    == <<"byteat", t, i>>              \* data dependent: the i-th byte (0-based) as a number
Name(prefix, i) == prefix \o ToString(i)
=============================================================================
