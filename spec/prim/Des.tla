--------------------------------- MODULE Des ---------------------------------
(* The Data Encryption Standard as FIPS 46-3 describes it (C11), on bit        *)
(* sequences (bit 1 = most significant / leftmost, as in the standard), with    *)
(* the two modifications crypt(3) makes: a 24-bit SALT that swaps bits i and    *)
(* i+24 of the E-box output when salt bit i is set, and ITERATION (the block is *)
(* encrypted `rounds` times with the same key).  salt = 0, rounds = 1 is DES.   *)
EXTENDS Naturals, Sequences, SequencesExt
IP == <<58, 50, 42, 34, 26, 18, 10, 2, 60, 52, 44, 36, 28, 20, 12, 4, 62, 54, 46, 38, 30, 22, 14, 6, 64, 56, 48, 40, 32, 24, 16, 8,
        57, 49, 41, 33, 25, 17, 9, 1, 59, 51, 43, 35, 27, 19, 11, 3, 61, 53, 45, 37, 29, 21, 13, 5, 63, 55, 47, 39, 31, 23, 15, 7>>
FP == <<40, 8, 48, 16, 56, 24, 64, 32, 39, 7, 47, 15, 55, 23, 63, 31, 38, 6, 46, 14, 54, 22, 62, 30, 37, 5, 45, 13, 53, 21, 61, 29,
        36, 4, 44, 12, 52, 20, 60, 28, 35, 3, 43, 11, 51, 19, 59, 27, 34, 2, 42, 10, 50, 18, 58, 26, 33, 1, 41, 9, 49, 17, 57, 25>>
E == <<32, 1, 2, 3, 4, 5, 4, 5, 6, 7, 8, 9, 8, 9, 10, 11, 12, 13, 12, 13, 14, 15, 16, 17,
       16, 17, 18, 19, 20, 21, 20, 21, 22, 23, 24, 25, 24, 25, 26, 27, 28, 29, 28, 29, 30, 31, 32, 1>>
P == <<16, 7, 20, 21, 29, 12, 28, 17, 1, 15, 23, 26, 5, 18, 31, 10, 2, 8, 24, 14, 32, 27, 3, 9, 19, 13, 30, 6, 22, 11, 4, 25>>
PC1 == <<57, 49, 41, 33, 25, 17, 9, 1, 58, 50, 42, 34, 26, 18, 10, 2, 59, 51, 43, 35, 27, 19, 11, 3, 60, 52, 44, 36,
         63, 55, 47, 39, 31, 23, 15, 7, 62, 54, 46, 38, 30, 22, 14, 6, 61, 53, 45, 37, 29, 21, 13, 5, 28, 20, 12, 4>>
PC2 == <<14, 17, 11, 24, 1, 5, 3, 28, 15, 6, 21, 10, 23, 19, 12, 4, 26, 8, 16, 7, 27, 20, 13, 2,
         41, 52, 31, 37, 47, 55, 30, 40, 51, 45, 33, 48, 44, 49, 39, 56, 34, 53, 46, 42, 50, 36, 29, 32>>
Shifts == <<1, 1, 2, 2, 2, 2, 2, 2, 1, 2, 2, 2, 2, 2, 2, 1>>
SBox == <<
 <<14, 4, 13, 1, 2, 15, 11, 8, 3, 10, 6, 12, 5, 9, 0, 7,   0, 15, 7, 4, 14, 2, 13, 1, 10, 6, 12, 11, 9, 5, 3, 8,
   4, 1, 14, 8, 13, 6, 2, 11, 15, 12, 9, 7, 3, 10, 5, 0,   15, 12, 8, 2, 4, 9, 1, 7, 5, 11, 3, 14, 10, 0, 6, 13>>,
 <<15, 1, 8, 14, 6, 11, 3, 4, 9, 7, 2, 13, 12, 0, 5, 10,   3, 13, 4, 7, 15, 2, 8, 14, 12, 0, 1, 10, 6, 9, 11, 5,
   0, 14, 7, 11, 10, 4, 13, 1, 5, 8, 12, 6, 9, 3, 2, 15,   13, 8, 10, 1, 3, 15, 4, 2, 11, 6, 7, 12, 0, 5, 14, 9>>,
 <<10, 0, 9, 14, 6, 3, 15, 5, 1, 13, 12, 7, 11, 4, 2, 8,   13, 7, 0, 9, 3, 4, 6, 10, 2, 8, 5, 14, 12, 11, 15, 1,
   13, 6, 4, 9, 8, 15, 3, 0, 11, 1, 2, 12, 5, 10, 14, 7,   1, 10, 13, 0, 6, 9, 8, 7, 4, 15, 14, 3, 11, 5, 2, 12>>,
 <<7, 13, 14, 3, 0, 6, 9, 10, 1, 2, 8, 5, 11, 12, 4, 15,   13, 8, 11, 5, 6, 15, 0, 3, 4, 7, 2, 12, 1, 10, 14, 9,
   10, 6, 9, 0, 12, 11, 7, 13, 15, 1, 3, 14, 5, 2, 8, 4,   3, 15, 0, 6, 10, 1, 13, 8, 9, 4, 5, 11, 12, 7, 2, 14>>,
 <<2, 12, 4, 1, 7, 10, 11, 6, 8, 5, 3, 15, 13, 0, 14, 9,   14, 11, 2, 12, 4, 7, 13, 1, 5, 0, 15, 10, 3, 9, 8, 6,
   4, 2, 1, 11, 10, 13, 7, 8, 15, 9, 12, 5, 6, 3, 0, 14,   11, 8, 12, 7, 1, 14, 2, 13, 6, 15, 0, 9, 10, 4, 5, 3>>,
 <<12, 1, 10, 15, 9, 2, 6, 8, 0, 13, 3, 4, 14, 7, 5, 11,   10, 15, 4, 2, 7, 12, 9, 5, 6, 1, 13, 14, 0, 11, 3, 8,
   9, 14, 15, 5, 2, 8, 12, 3, 7, 0, 4, 10, 1, 13, 11, 6,   4, 3, 2, 12, 9, 5, 15, 10, 11, 14, 1, 7, 6, 0, 8, 13>>,
 <<4, 11, 2, 14, 15, 0, 8, 13, 3, 12, 9, 7, 5, 10, 6, 1,   13, 0, 11, 7, 4, 9, 1, 10, 14, 3, 5, 12, 2, 15, 8, 6,
   1, 4, 11, 13, 12, 3, 7, 14, 10, 15, 6, 8, 0, 5, 9, 2,   6, 11, 13, 8, 1, 4, 10, 7, 9, 5, 0, 15, 14, 2, 3, 12>>,
 <<13, 2, 8, 4, 6, 15, 11, 1, 10, 9, 3, 14, 5, 0, 12, 7,   1, 15, 13, 8, 10, 3, 7, 4, 12, 5, 6, 11, 0, 14, 9, 2,
   7, 11, 4, 1, 9, 12, 14, 2, 0, 6, 10, 13, 15, 3, 5, 8,   2, 1, 14, 7, 4, 10, 8, 13, 15, 12, 9, 0, 3, 5, 6, 11>> >>

Permute(bits, table) == [i \in 1..Len(table) |-> bits[table[i]]]
XorBits(a, b) == [i \in 1..Len(a) |-> (a[i] + b[i]) % 2]
RotLeft(s, n) == [i \in 1..Len(s) |-> s[((i - 1 + n) % Len(s)) + 1]]
Nibble(v) == <<(v \div 8) % 2, (v \div 4) % 2, (v \div 2) % 2, v % 2>>
\* bytes <-> bits (most significant bit first)
BitsOfBytes(bs) == [k \in 1..(8 * Len(bs)) |-> (bs[((k - 1) \div 8) + 1] \div 2^(7 - ((k - 1) % 8))) % 2]
BytesOfBits(b) == [j \in 1..(Len(b) \div 8) |-> 128 * b[8*j - 7] + 64 * b[8*j - 6] + 32 * b[8*j - 5] + 16 * b[8*j - 4] + 8 * b[8*j - 3] + 4 * b[8*j - 2] + 2 * b[8*j - 1] + b[8*j]]
\* salt integer -> 24 bits, least significant first: SaltBits(s)[i] is "bit i-1 of the salt"
SaltBits(s) == [i \in 1..24 |-> (s \div 2^(i - 1)) % 2]

\* the sixteen 48-bit round keys (FIPS 46-3, "KS")
KeySchedule(key) ==
    LET cd0 == Permute(key, PC1)
        step(st, r) == LET c == RotLeft(SubSeq(st[1], 1, 28), Shifts[r])  d == RotLeft(SubSeq(st[1], 29, 56), Shifts[r])
                       IN <<c \o d, Append(st[2], Permute(c \o d, PC2))>>
    IN FoldLeft(step, <<cd0, <<>>>>, [r \in 1..16 |-> r])[2]
\* the cipher function f(R, K), with crypt(3)'s salted E-box
Feistel(R, K, salt) ==
    LET e == Permute(R, E)
        es == [i \in 1..48 |-> IF i <= 24 THEN (IF salt[i] = 1 THEN e[i + 24] ELSE e[i]) ELSE (IF salt[i - 24] = 1 THEN e[i - 24] ELSE e[i])]
        x == XorBits(es, K)
        sb(j) == LET b == SubSeq(x, 6 * j - 5, 6 * j)
                     row == 2 * b[1] + b[6]  col == 8 * b[2] + 4 * b[3] + 2 * b[4] + b[5]
                 IN Nibble(SBox[j][16 * row + col + 1])
    IN Permute(sb(1) \o sb(2) \o sb(3) \o sb(4) \o sb(5) \o sb(6) \o sb(7) \o sb(8), P)
\* one encryption of a 64-bit block with round keys ks
DesOnce(block, ks, salt) ==
    LET ip == Permute(block, IP)
        fin == FoldLeft(LAMBDA st, r : <<st[2], XorBits(st[1], Feistel(st[2], ks[r], salt))>>, <<SubSeq(ip, 1, 32), SubSeq(ip, 33, 64)>>, [r \in 1..16 |-> r])
    IN Permute(fin[2] \o fin[1], FP)
\* crypt(3)'s use: `rounds` encryptions in a row
DesCrypt(key, block, saltInt, rounds) ==
    LET ks == KeySchedule(key)  sb == SaltBits(saltInt)
    IN FoldLeft(LAMBDA b, k : DesOnce(b, ks, sb), block, [k \in 1..rounds |-> k])
\* 7-byte key -> 8-byte key: seven key bits per byte followed by a parity position (left zero)
Expand56(bits56) == [k \in 1..64 |-> IF k % 8 = 0 THEN 0 ELSE bits56[7 * ((k - 1) \div 8) + ((k - 1) % 8) + 1]]
Shrink64(bits64) == [k \in 1..56 |-> bits64[8 * ((k - 1) \div 7) + ((k - 1) % 7) + 1]]
=============================================================================
