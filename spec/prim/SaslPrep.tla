------------------------------ MODULE SaslPrep ------------------------------
(* SASLprep (RFC 4013), the stringprep profile (RFC 3454) for stored strings, *)
(* as LOGIC over character classes (C11).  A character is abstracted to one   *)
(* class:                                                                     *)
(*   "B1"   commonly mapped to nothing (table B.1)                            *)
(*   "C12"  non-ASCII space (C.1.2), mapped to U+0020                         *)
(*   "SP"   U+0020 itself                                                     *)
(*   "L"    a permitted character with bidi property L (table D.2)            *)
(*   "RAL"  a permitted character with bidi property R or AL (table D.1)      *)
(*   "N"    a permitted character in neither D.1 nor D.2 (digits, signs)      *)
(*   "A1" unassigned, "C21" ASCII control, "C22" non-ASCII control, "C3"      *)
(*   private use, "C4" non-character, "C5" surrogate, "C6" inappropriate for  *)
(*   plain text, "C7" inappropriate for canonical representation, "C8" change *)
(*   display / deprecated, "C9" tagging: all prohibited.                      *)
(* Normalisation (NFKC, step 2) is abstract: the class string handed to       *)
(* Prohibit/Bidi is the one of the NORMALISED text (the harness classifies    *)
(* what unicodedata.normalize returns).                                       *)
EXTENDS Naturals, Sequences
Prohibited == {"A1", "C21", "C22", "C3", "C4", "C5", "C6", "C7", "C8", "C9"}
Classes == {"B1", "C12", "SP", "L", "RAL", "N"} \cup Prohibited
\* step 1 (section 2.1): map
MapChar(c) == IF c = "C12" THEN "SP" ELSE c
Map(s) == LET kept == SelectSeq(s, LAMBDA c : c # "B1") IN [i \in 1..Len(kept) |-> MapChar(kept[i])]
\* steps 3-5 on the normalised class string t (sections 2.3 - 2.5 and RFC 3454 section 6)
HasProhibited(t) == \E i \in 1..Len(t) : t[i] \in Prohibited \/ t[i] \in {"B1", "C12"}
BidiBad(t) == /\ \E i \in 1..Len(t) : t[i] = "RAL"
              /\ \/ \E i \in 1..Len(t) : t[i] = "L"
                 \/ t[1] # "RAL" \/ t[Len(t)] # "RAL"
Check(t) == IF t = <<>> THEN "ok" ELSE IF HasProhibited(t) \/ BidiBad(t) THEN "ValueError" ELSE "ok"
\* the whole profile for NFKC-stable input: result class and the mapped string
SaslPrep(s) == <<Check(Map(s)), Map(s)>>
=============================================================================
