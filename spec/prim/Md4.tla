--------------------------------- MODULE Md4 ---------------------------------
(* MD4 as RFC 1320 describes it (C11).  A message is a sequence of bytes.     *)
EXTENDS Word32, SequencesExt
\* 3.1/3.2: append 0x80, zero bytes up to 56 mod 64, then the bit length as 64-bit little-endian
Md4Pad(m) == LET n == Len(m)
                 z == (55 + 64 * 1024 - n) % 64
                 bits == 8 * n
             IN m \o <<128>> \o [i \in 1..z |-> 0]
                  \o <<bits % 256, (bits \div 256) % 256, (bits \div 65536) % 256, bits \div 16777216, 0, 0, 0, 0>>
\* 3.4: auxiliary functions
F(x, y, z) == WOr(WAnd(x, y), WAnd(WNot(x), z))
G(x, y, z) == WOr(WOr(WAnd(x, y), WAnd(x, z)), WAnd(y, z))
H(x, y, z) == WXor(WXor(x, y), z)
\* the 48 operations [abcd k s]: word index k and rotation s (round = i div 16)
KIdx == <<0, 1, 2, 3, 4, 5, 6, 7, 8, 9, 10, 11, 12, 13, 14, 15,
          0, 4, 8, 12, 1, 5, 9, 13, 2, 6, 10, 14, 3, 7, 11, 15,
          0, 8, 4, 12, 2, 10, 6, 14, 1, 9, 5, 13, 3, 11, 7, 15>>
Shift == <<3, 7, 11, 19, 3, 7, 11, 19, 3, 7, 11, 19, 3, 7, 11, 19,
           3, 5, 9, 13, 3, 5, 9, 13, 3, 5, 9, 13, 3, 5, 9, 13,
           3, 9, 11, 15, 3, 9, 11, 15, 3, 9, 11, 15, 3, 9, 11, 15>>
RoundConst == << <<0, 0>>, <<23170, 31129>>, <<28377, 60321>> >>       \* 0, 0x5A827999, 0x6ED9EBA1
Md4Init == << <<26437, 8961>>, <<61389, 43913>>, <<39098, 56574>>, <<4146, 21622>> >>  \* 67452301 efcdab89 98badcfe 10325476
\* one operation on the rotating register file <<a, b, c, d>>: a = (a + f(b,c,d) + X[k] + const) <<< s, then the roles rotate
Op(X, st, i) ==
    LET r == (i - 1) \div 16
        f == CASE r = 0 -> F(st[2], st[3], st[4]) [] r = 1 -> G(st[2], st[3], st[4]) [] OTHER -> H(st[2], st[3], st[4])
        a == WRotl(WAdd(WAdd(WAdd(st[1], f), X[KIdx[i] + 1]), RoundConst[r + 1]), Shift[i])
    IN <<st[4], a, st[2], st[3]>>
Md4Block(st, block) ==
    LET X == [k \in 1..16 |-> WFromLE(block, 4 * (k - 1) + 1)]
        out == FoldLeft(LAMBDA s, i : Op(X, s, i), st, [i \in 1..48 |-> i])
    IN <<WAdd(st[1], out[1]), WAdd(st[2], out[2]), WAdd(st[3], out[3]), WAdd(st[4], out[4])>>
Md4(m) == LET p == Md4Pad(m)
              nb == Len(p) \div 64
              st == FoldLeft(LAMBDA s, j : Md4Block(s, SubSeq(p, 64 * (j - 1) + 1, 64 * j)), Md4Init, [j \in 1..nb |-> j])
          IN Flatten4(st)
\* RFC 1320 A.5 test suite (self-test of this transcription)
ASSUME Md4(<<>>) = <<49, 214, 207, 224, 209, 106, 233, 49, 183, 60, 89, 215, 224, 192, 137, 192>>          \* 31d6cfe0d16ae931b73c59d7e0c089c0
ASSUME Md4(<<97, 98, 99>>) = <<164, 72, 1, 122, 175, 33, 216, 82, 95, 193, 10, 232, 122, 166, 114, 157>>     \* a448017aaf21d8525fc10ae87aa6729d
ASSUME Md4([i \in 1..80 |-> 48 + (i % 10)]) = <<227, 59, 77, 220, 156, 56, 242, 25, 156, 62, 123, 22, 79, 204, 5, 54>>   \* "1234567890" x 8
=============================================================================
