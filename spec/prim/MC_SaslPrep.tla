----------------------------- MODULE MC_SaslPrep -----------------------------
EXTENDS SaslPrep, TLC, Json, IOUtils
CONSTANTS Mode,      \* "enum": all class strings up to MaxLen;  "groups": class strings listed in the trace file
          MaxLen
Groups == IF Mode = "groups" THEN JsonDeserialize(IOEnv.TRACE_FILE) ELSE <<>>
VARIABLES s, done
Strings == UNION {[1..k -> Classes] : k \in 0..MaxLen}
Init == done = FALSE /\ IF Mode = "enum" THEN s \in Strings ELSE s \in {Groups[i] : i \in 1..Len(Groups)}
\* in "groups" mode the string is already mapped and normalised: only the checks apply
Verdict == IF Mode = "enum" THEN SaslPrep(s) ELSE <<Check(s), s>>
Next == ~done /\ done' = TRUE /\ s' = s /\ PrintT(<<"EMIT", ToJson([s |-> s, res |-> Verdict[1], out |-> Verdict[2]])>>)
\* design-level facts: the output never contains a mapped-away or prohibited class; an accepted string with R/AL has no L and R/AL at both ends
InvClean == (Mode = "enum" /\ SaslPrep(s)[1] = "ok") =>
               LET t == SaslPrep(s)[2] IN
               /\ \A i \in 1..Len(t) : t[i] \in {"SP", "L", "RAL", "N"}
               /\ (\E i \in 1..Len(t) : t[i] = "RAL") => (t[1] = "RAL" /\ t[Len(t)] = "RAL" /\ \A i \in 1..Len(t) : t[i] # "L")
\* idempotence: preparing a prepared string changes nothing
InvIdem == (Mode = "enum" /\ SaslPrep(s)[1] = "ok") => SaslPrep(SaslPrep(s)[2]) = <<"ok", SaslPrep(s)[2]>>
=============================================================================
