------------------------------- MODULE MC_Md4 -------------------------------
(* C11, MD4: (1) one-shot digests of messages of every length/content class;   *)
(* (2) hash OBJECTS: update / copy / digest in any split - the digest of an    *)
(* object is Md4 of everything written to it (and to the object it was copied  *)
(* from, up to the copy), digest() does not disturb the object, a copy is      *)
(* independent of its original.                                                *)
EXTENDS Md4, TLC, Json
CONSTANTS Mode,       \* "oneshot" | "objects"
          Lens, Pats, \* oneshot: message lengths and content classes
          Chunks,     \* objects: chunk lengths
          MaxOps, DoEmit
VARIABLES len, pat,   \* oneshot
          msg,        \* objects: object id -> bytes written so far (<<-1>> = object does not exist)
          n, obs
vars == <<len, pat, msg, n, obs>>
Content(p, k) == CASE p = "a" -> 97 [] p = "ff" -> 255 [] p = "zero" -> 0 [] OTHER -> (k * 7 + 3) % 256
Message(l, p) == [k \in 1..l |-> Content(p, k)]
None == <<-1>>
Obs0 == [op |-> "init", o |-> 0, arg |-> <<>>, res |-> <<>>]
Init == /\ n = 0 /\ obs = Obs0
        /\ IF Mode = "oneshot" THEN len \in Lens /\ pat \in Pats /\ msg = <<None, None>>
           ELSE len = 0 /\ pat = "-" /\ msg = <<None, None>>
OneShot == /\ Mode = "oneshot" /\ n = 0 /\ n' = 1 /\ UNCHANGED <<len, pat, msg>>
           /\ obs' = [op |-> "oneshot", o |-> 0, arg |-> <<len>>, res |-> Md4(Message(len, pat))]
\* the bytes of the chunk written by step n to object o
ChunkBytes(o, c) == [j \in 1..c |-> (o * 50 + n * 31 + j * 7) % 256]
Step == Mode = "objects" /\ n < MaxOps /\ n' = n + 1 /\ UNCHANGED <<len, pat>>
New(o, c) == /\ Step /\ msg[o] = None
             /\ msg' = [msg EXCEPT ![o] = ChunkBytes(o, c)]
             /\ obs' = [op |-> "new", o |-> o, arg |-> ChunkBytes(o, c), res |-> <<>>]
Update(o, c) == /\ Step /\ msg[o] # None
                /\ msg' = [msg EXCEPT ![o] = @ \o ChunkBytes(o, c)]
                /\ obs' = [op |-> "update", o |-> o, arg |-> ChunkBytes(o, c), res |-> <<>>]
Copy(o, q) == /\ Step /\ msg[o] # None /\ o # q
              /\ msg' = [msg EXCEPT ![q] = msg[o]]
              /\ obs' = [op |-> "copy", o |-> o, arg |-> <<q>>, res |-> <<>>]
Digest(o, how) == /\ Step /\ msg[o] # None /\ UNCHANGED msg
                  /\ obs' = [op |-> how, o |-> o, arg |-> <<>>, res |-> Md4(msg[o])]
Next == OneShot \/ \E o \in {1, 2} : (\E c \in Chunks : New(o, c) \/ Update(o, c)) \/ (\E q \in {1, 2} : Copy(o, q)) \/ (\E h \in {"digest", "hexdigest"} : Digest(o, h))
Rnd(S, d) == IF d >= 0 THEN RandomElement(S) ELSE CHOOSE e \in S : TRUE
SimNext == \E o \in {Rnd({1, 2}, n)}, c \in {Rnd(Chunks, n)}, w \in {Rnd(1..10, n)} :
             IF msg[o] = None THEN (IF msg[3 - o] # None /\ w <= 5 THEN Copy(3 - o, o) ELSE New(o, c))
             ELSE CASE w \in 1..5 -> Update(o, c) [] w = 6 -> Copy(o, 3 - o) [] w \in {7, 8} -> Digest(o, "digest") [] OTHER -> Digest(o, "hexdigest")
\* digest() is a pure observation
DigestPure == [][obs'.op \in {"digest", "hexdigest"} => msg' = msg]_vars
\* writing to one object never changes the other
Independent == [][obs'.op \in {"update", "new"} => msg'[3 - obs'.o] = msg[3 - obs'.o]]_vars
Emit == DoEmit => PrintT(<<"EMIT", ToJson([n |-> n, op |-> obs'.op, o |-> obs'.o, arg |-> obs'.arg, res |-> obs'.res, pat |-> pat])>>)
=============================================================================
