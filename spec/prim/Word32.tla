------------------------------- MODULE Word32 -------------------------------
(* 32-bit words for TLC (whose integers are 32-bit signed): a word is the    *)
(* pair <<high 16 bits, low 16 bits>>.  Bytes are 0..255.                     *)
EXTENDS Naturals, Sequences, Bitwise
M16 == 65536
WAdd(a, b) == LET lo == a[2] + b[2]  hi == a[1] + b[1] + (lo \div M16) IN <<hi % M16, lo % M16>>
WXor(a, b) == <<a[1] ^^ b[1], a[2] ^^ b[2]>>
WAnd(a, b) == <<a[1] & b[1], a[2] & b[2]>>
WOr(a, b)  == <<a[1] | b[1], a[2] | b[2]>>
WNot(a)    == <<65535 - a[1], 65535 - a[2]>>
\* rotate left by n \in 0..31
WRotl(a, n) == LET s == n % 16
                   x == IF n >= 16 THEN <<a[2], a[1]>> ELSE a
               IN IF s = 0 THEN x
                  ELSE <<((x[1] * 2^s) % M16) + (x[2] \div 2^(16 - s)), ((x[2] * 2^s) % M16) + (x[1] \div 2^(16 - s))>>
\* little-endian: word from bytes b[i], b[i+1], b[i+2], b[i+3] (1-based i), and back
WFromLE(b, i) == <<b[i + 2] + 256 * b[i + 3], b[i] + 256 * b[i + 1]>>
WToLE(w) == <<w[2] % 256, w[2] \div 256, w[1] % 256, w[1] \div 256>>
WFromBE(b, i) == <<b[i + 1] + 256 * b[i], b[i + 3] + 256 * b[i + 2]>>
WToBE(w) == <<w[1] \div 256, w[1] % 256, w[2] \div 256, w[2] % 256>>
WHex(h, l) == <<h, l>>      \* WHex(26437, 8961) reads 0x6745 0x2301
Flatten4(ws) == [k \in 1..(4 * Len(ws)) |-> WToLE(ws[(k - 1) \div 4 + 1])[((k - 1) % 4) + 1]]
=============================================================================
