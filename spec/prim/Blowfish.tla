------------------------------- MODULE Blowfish -------------------------------
(* Blowfish (Schneier 1993) and the bcrypt core of Provos & Mazieres, "A         *)
(* Future-Adaptable Password Scheme" (EksBlowfishSetup + 64 ECB encryptions of   *)
(* "OrpheanBeholderScryDoubt") on 32-bit words (Word32 limb pairs) (C11).        *)
(* The initial P-array and S-boxes are the hexadecimal digits of pi; they are    *)
(* constants supplied by the harness, which derives them from pi itself.         *)
EXTENDS Word32, SequencesExt
\* a state is <<P, S>>: P = 18 words, S = 1024 words (four boxes of 256)
Byte3(w) == w[1] \div 256          \* most significant byte
Byte2(w) == w[1] % 256
Byte1(w) == w[2] \div 256
Byte0(w) == w[2] % 256
F(S, x) == WAdd(WXor(WAdd(S[Byte3(x) + 1], S[256 + Byte2(x) + 1]), S[512 + Byte1(x) + 1]), S[768 + Byte0(x) + 1])
\* 16 Feistel rounds, then the final exchange and whitening
Encipher(P, S, L, R) ==
    LET st == FoldLeft(LAMBDA lr, i : LET l == WXor(lr[1], P[i]) IN <<WXor(lr[2], F(S, l)), l>>, <<L, R>>, [i \in 1..16 |-> i])
    IN <<WXor(st[2], P[18]), WXor(st[1], P[17])>>
\* key bytes -> the n-th 32-bit word of the cyclically repeated key (big-endian), n from 0
KeyWord(key, n) == LET k == Len(key)  b(j) == key[((4 * n + j) % k) + 1] IN <<b(0) * 256 + b(1), b(2) * 256 + b(3)>>
Zero == <<0, 0>>
\* ExpandKey(state, salt, key): xor the key into P, then replace P and S pairwise by successive encryptions of a running
\* block into which the 128-bit salt (four words; all zero for the plain Blowfish schedule) is xored alternately
ExpandKey(P0, S0, salt, key) ==
    LET P1 == [i \in 1..18 |-> WXor(P0[i], KeyWord(key, i - 1))]
        SaltPair(n) == IF n % 2 = 0 THEN <<salt[1], salt[2]>> ELSE <<salt[3], salt[4]>>
        stepP == FoldLeft(LAMBDA st, n :        \* st = <<P, L, R>>
                            LET sp == SaltPair(n)
                                lr == Encipher(st[1], S0, WXor(st[2], sp[1]), WXor(st[3], sp[2]))
                            IN <<[st[1] EXCEPT ![2 * n + 1] = lr[1], ![2 * n + 2] = lr[2]], lr[1], lr[2]>>,
                          <<P1, Zero, Zero>>, [n \in 1..9 |-> n - 1])
        P2 == stepP[1]
        stepS == FoldLeft(LAMBDA st, m :        \* st = <<S, L, R>>; m = 0..511 continues the salt alternation after the 9 P steps
                            LET sp == SaltPair(9 + m)
                                lr == Encipher(P2, st[1], WXor(st[2], sp[1]), WXor(st[3], sp[2]))
                            IN <<[st[1] EXCEPT ![2 * m + 1] = lr[1], ![2 * m + 2] = lr[2]], lr[1], lr[2]>>,
                          <<S0, stepP[2], stepP[3]>>, [m \in 1..512 |-> m - 1])
    IN <<P2, stepS[1]>>
ZeroSalt == <<Zero, Zero, Zero, Zero>>
\* EksBlowfishSetup(cost, salt, key)
EksSetup(Pinit, Sinit, cost, saltBytes, key) ==
    LET salt == [i \in 1..4 |-> KeyWord(saltBytes, i - 1)]
        s0 == ExpandKey(Pinit, Sinit, salt, key)
    IN FoldLeft(LAMBDA st, k : LET a == ExpandKey(st[1], st[2], ZeroSalt, key) IN ExpandKey(a[1], a[2], ZeroSalt, saltBytes),
                s0, [k \in 1..(2^cost) |-> k])
\* "OrpheanBeholderScryDoubt" as six big-endian words, each pair encrypted 64 times; 23 of the 24 bytes are the digest
Magic == << <<20338, 28776>>, <<25953, 28226>>, <<25960, 28524>>, <<25701, 29267>>, <<25458, 31044>>, <<28533, 25204>> >>
BcryptRaw(Pinit, Sinit, cost, saltBytes, key) ==
    LET st == EksSetup(Pinit, Sinit, cost, saltBytes, key)
        enc(l, r) == FoldLeft(LAMBDA lr, k : Encipher(st[1], st[2], lr[1], lr[2]), <<l, r>>, [k \in 1..64 |-> k])
        a == enc(Magic[1], Magic[2])  b == enc(Magic[3], Magic[4])  c == enc(Magic[5], Magic[6])
    IN SubSeq(WToBE(a[1]) \o WToBE(a[2]) \o WToBE(b[1]) \o WToBE(b[2]) \o WToBE(c[1]) \o WToBE(c[2]), 1, 23)
\* the key of a password: its bytes followed by a NUL ($2a$/$2b$/$2y$), at most 72 bytes count
KeyOf(pw) == LET k == pw \o <<0>> IN IF Len(k) > 72 THEN SubSeq(k, 1, 72) ELSE k
=============================================================================
