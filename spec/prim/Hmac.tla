--------------------------------- MODULE Hmac ---------------------------------
(* HMAC (RFC 2104) and PBKDF1 / PBKDF2 (RFC 2898 / 8018) as terms over the     *)
(* plain hash function (C11).                                                  *)
EXTENDS Terms, SequencesExt
\* RFC 2104 section 2: keys longer than the block size B are hashed first, then zero padded to B;
\* H((K0 xor opad) || H((K0 xor ipad) || text))
HmacKey0(alg, B, key, klen) == PadZero(IF klen > B THEN Hash(alg, key) ELSE key, B)
HmacWith(alg, k0, text) == Hash(alg, Cat2(XorByte(k0, 92), Hash(alg, Cat2(XorByte(k0, 54), text))))
Hmac(alg, B, key, klen, text) == HmacWith(alg, HmacKey0(alg, B, key, klen), text)

CeilDiv(a, b) == (a + b - 1) \div b
\* RFC 8018 section 5.2: DK = T_1 || .. || T_l (first dkLen bytes), T_i = U_1 xor .. xor U_c,
\* U_1 = PRF(P, S || INT(i)), U_j = PRF(P, U_{j-1}); PRF = HMAC keyed with the password.
\* As a program: k0 once, then u_i_j and t_i_j (the running xor) as definitions.
Pbkdf2Prog(alg, B, hlen, plen, c, dklen) ==
    LET l == CeilDiv(dklen, hlen)
        k0 == <<"k0", HmacKey0(alg, B, In("password"), plen)>>
        blockDefs(i) ==
            FoldLeft(LAMBDA defs, j :
                        LET u == IF j = 1 THEN HmacWith(alg, Ref("k0"), Cat2(In("salt"), Int32BE(i)))
                                 ELSE HmacWith(alg, Ref("k0"), Ref(Name(Name("u", i) \o "_", j - 1)))
                            t == IF j = 1 THEN Ref(Name(Name("u", i) \o "_", 1))
                                 ELSE XorT(Ref(Name(Name("t", i) \o "_", j - 1)), Ref(Name(Name("u", i) \o "_", j)))
                        IN defs \o << <<Name(Name("u", i) \o "_", j), u>>, <<Name(Name("t", i) \o "_", j), t>> >>,
                     <<>>, [j \in 1..c |-> j])
        defs == FoldLeft(LAMBDA d, i : d \o blockDefs(i), <<k0>>, [i \in 1..l |-> i])
    IN [defs |-> defs, out |-> Take(CatSeq([i \in 1..l |-> Ref(Name(Name("t", i) \o "_", c))]), dklen)]
\* RFC 8018 section 5.1: T_1 = Hash(P || S), T_i = Hash(T_{i-1}), DK = first dkLen bytes of T_c; dkLen <= hLen or "derived key too long"
Pbkdf1Prog(alg, hlen, c, dklen) ==
    IF dklen > hlen THEN [defs |-> <<>>, out |-> <<"error", "ValueError">>]
    ELSE LET defs == FoldLeft(LAMBDA d, j : Append(d, <<Name("t", j), Hash(alg, IF j = 1 THEN Cat2(In("password"), In("salt")) ELSE Ref(Name("t", j - 1)))>>),
                              <<>>, [j \in 1..c |-> j])
         IN [defs |-> defs, out |-> Take(Ref(Name("t", c)), dklen)]
HmacProg(alg, B, klen) == [defs |-> <<>>, out |-> Hmac(alg, B, In("key"), klen, In("message"))]
=============================================================================
