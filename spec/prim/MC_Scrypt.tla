------------------------------ MODULE MC_Scrypt ------------------------------
(* I->S/S->I for the scrypt core: the harness supplies input blocks (the output *)
(* of the first PBKDF2 step, computed with hashlib), TLC computes Salsa20/8,     *)
(* BlockMix and ROMix per RFC 7914 and prints the result; the harness compares  *)
(* passlib's built-in engine at every level and closes the outer PBKDF2 steps   *)
(* with hashlib (and compares the whole with OpenSSL's scrypt).                 *)
EXTENDS Salsa, TLC, Json, IOUtils
Cases == JsonDeserialize(IOEnv.TRACE_FILE)
VARIABLES i, done
Init == i \in 1..Len(Cases) /\ done = FALSE
Result(c) == CASE c.kind = "salsa" -> BytesOf(Salsa208(WordsOf(c.input)))
               [] c.kind = "bmix"  -> BytesOf(BlockMix(WordsOf(c.input), c.r))
               [] c.kind = "smix"  -> BytesOf(ROMix(WordsOf(c.input), c.r, c.n))
               [] c.kind = "valid" -> <<IF ValidParams(c.n, c.r, c.p) THEN 1 ELSE 0>>
               [] OTHER -> <<>>
Next == ~done /\ done' = TRUE /\ i' = i
        /\ PrintT(<<"EMIT", ToJson([case |-> i, out |-> Result(Cases[i])])>>)
=============================================================================
