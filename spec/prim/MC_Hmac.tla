------------------------------- MODULE MC_Hmac -------------------------------
(* enumerates shapes and prints the HMAC / PBKDF1 / PBKDF2 programs            *)
EXTENDS Hmac, Json
CONSTANTS Digests,     \* set of <<name, block size, digest size>>
          Rounds, DkLens, PwLens
VARIABLES c, done
Shapes == [kind : {"hmac"}, d : Digests, klen : PwLens, rounds : {0}, dklen : {0}]
          \cup [kind : {"pbkdf2"}, d : Digests, klen : PwLens, rounds : Rounds, dklen : DkLens]
          \cup [kind : {"pbkdf1"}, d : Digests, klen : {8}, rounds : Rounds, dklen : DkLens]
Init == c \in Shapes /\ done = FALSE
\* key/password lengths are given relative to the block size: klen = <<multiplier, offset>> -> m * B + o
Abs(k, B) == k[1] * B + k[2] - 1     \* offsets are stored +1 so that -1 can be expressed
Prog(s) == CASE s.kind = "hmac" -> HmacProg(s.d[1], s.d[2], Abs(s.klen, s.d[2]))
             [] s.kind = "pbkdf2" -> Pbkdf2Prog(s.d[1], s.d[2], s.d[3], Abs(s.klen, s.d[2]), s.rounds, Abs(s.dklen, s.d[3]))
             [] OTHER -> Pbkdf1Prog(s.d[1], s.d[3], s.rounds, Abs(s.dklen, s.d[3]))
Next == ~done /\ done' = TRUE /\ c' = c
        /\ PrintT(<<"EMIT", ToJson([kind |-> c.kind, alg |-> c.d[1], B |-> c.d[2], hlen |-> c.d[3],
                                    klen |-> IF c.kind = "pbkdf1" THEN 8 ELSE Abs(c.klen, c.d[2]), rounds |-> c.rounds,
                                    dklen |-> IF c.kind = "hmac" THEN 0 ELSE Abs(c.dklen, c.d[3]), prog |-> Prog(c)])>>)
\* the number of PRF applications of PBKDF2 is rounds * ceil(dklen / hlen) (+ the key preparation)
InvCount == (c.kind = "pbkdf2" /\ Abs(c.dklen, c.d[3]) > 0) =>
               Len(Prog(c).defs) = 1 + 2 * c.rounds * CeilDiv(Abs(c.dklen, c.d[3]), c.d[3])
=============================================================================
