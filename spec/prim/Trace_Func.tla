------------------------------ MODULE Trace_Func ------------------------------
(* Single-valuedness across independent providers (C11 bcrypt core, C02 formats *)
(* whose primitive no trusted library offers): every event says that provider   *)
(* `src` computed value `v` for argument `k` of function `f`.  The specification *)
(* does not define f; it demands that f IS a function: the first event binds     *)
(* f(k), every later event for the same argument must agree.                     *)
EXTENDS Naturals, Sequences, TLC, Json, IOUtils
Trace == JsonDeserialize(IOEnv.TRACE_FILE)
VARIABLES i, bound        \* bound: set of <<f, k, v, src>> seen so far, one per (f, k)
Init == i = 1 /\ bound = {}
Bad(e, b) == PrintT(<<"EMIT", ToJson([ev |-> i, f |-> e.f, k |-> e.k, v |-> e.v, src |-> e.src, first |-> b[3], firstsrc |-> b[4]])>>)
Next == /\ i <= Len(Trace) /\ i' = i + 1
        /\ LET e == Trace[i]
               prev == {b \in bound : b[1] = e.f /\ b[2] = e.k} IN
           IF prev = {} THEN bound' = bound \cup {<<e.f, e.k, e.v, e.src>>}
           ELSE /\ bound' = bound
                /\ \A b \in prev : IF b[3] = e.v THEN TRUE ELSE Bad(e, b)
SingleValued == \A a, b \in bound : (a[1] = b[1] /\ a[2] = b[2]) => a[3] = b[3]
=============================================================================
