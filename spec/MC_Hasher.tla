------------------------------ MODULE MC_Hasher ------------------------------
(* C09: chains of using() on a hasher; the original is untouched.             *)
EXTENDS Hasher, TLC, Json

CONSTANTS Base,        \* rounds record of the global hasher (node 1)
          SBase,       \* salt record of the global hasher
          Vals,        \* cost values tried (around the hard limits and the default)
          SVals,       \* salt sizes tried
          Pcts,        \* vary_rounds percentages tried
          VKs,         \* <<kind, value>> pairs of vary_rounds explored exhaustively
          HasTrunc,    \* the hasher has a truncation limit and takes truncate_error
          MaxNodes, MaxSteps, DoEmit

VARIABLES tree,    \* Seq of [p : rounds record, s : salt record, parent : node]
          n, obs
vars == <<tree, n, obs>>

Init == tree = << [p |-> Base, s |-> SBase, te |-> FALSE, parent |-> 0] >> /\ n = 0
        /\ obs = [op |-> "init", node |-> 0, kw |-> NoKw, size |-> Unset, te |-> "unset", relaxed |-> FALSE, res |-> <<"ok">>, r |-> Unset, x |-> Unset, ivals |-> {}]

OptVals == Vals \cup {Unset}

\* te: the truncate_error keyword: "unset" | "true" | "false" (only hashers with a truncation limit take it)
UsingT(k, kw, size, te, relaxed) ==
    /\ n < MaxSteps /\ n' = n + 1
    /\ LET ur == UsingRounds(tree[k].p, kw, relaxed)
           us == UsingSaltSize(tree[k].s, size, relaxed)
           \* the rounds keywords are handled first, then the salt keywords further up the class chain
           res == IF ur[1] # "ok" THEN ur ELSE IF us[1] # "ok" THEN us ELSE <<"ok">>
       IN /\ obs' = [op |-> "using", node |-> k, kw |-> kw, size |-> size, te |-> te, relaxed |-> relaxed, res |-> res, r |-> Unset, x |-> Unset, ivals |-> {}]
          /\ IF res[1] = "ok" /\ Len(tree) < MaxNodes
             THEN tree' = Append(tree, [p |-> ur[2], s |-> us[2], te |-> IF te = "unset" THEN tree[k].te ELSE te = "true", parent |-> k])
             ELSE tree' = tree

UsingA(k, kw, size, relaxed) == UsingT(k, kw, size, "unset", relaxed)

\* hash with node k: the cost is one of GenRounds; the salt has the default size
HashA(k, x) ==
    /\ n < MaxSteps /\ n' = n + 1 /\ tree' = tree
    /\ LET ok == GenOk(tree[k].p) IN
       /\ (ok => x \in Draws(tree[k].p)) /\ (~ok => x = Unset)
       \* x is what the random source yields (inside one of the intervals), r the cost the hash carries
       /\ obs' = [op |-> "hash", node |-> k, kw |-> NoKw, size |-> tree[k].s.sdef, te |-> "unset", relaxed |-> FALSE,
                  res |-> <<IF ok THEN "ok" ELSE "TypeError">>, r |-> IF ok THEN Final(tree[k].p, x) ELSE Unset, x |-> x,
                  ivals |-> IF ok THEN Intervals(tree[k].p) ELSE {}]

NeedsA(k, r) ==
    /\ n < MaxSteps /\ n' = n + 1 /\ tree' = tree
    /\ obs' = [op |-> "needs", node |-> k, kw |-> NoKw, size |-> Unset, te |-> "unset", relaxed |-> FALSE,
               res |-> <<IF Needs(tree[k].p, r) THEN "True" ELSE "False">>, r |-> r, x |-> Unset, ivals |-> {}]

Kws == { [minA |-> a, minB |-> Unset, maxA |-> c, maxB |-> Unset, def |-> e, rounds |-> Unset, varyK |-> x[1], varyV |-> x[2]] :
           a \in OptVals, c \in OptVals, e \in OptVals, x \in VKs }

Next == \E k \in 1..Len(tree) :
           \/ \E kw \in Kws, relaxed \in BOOLEAN : UsingA(k, kw, Unset, relaxed)
           \/ \E r \in Vals \cup {Unset} : HashA(k, r)
           \/ \E r \in Vals : NeedsA(k, r)

Pick(S) == RandomElement(S)
Opt(S, w) == IF RandomElement(1..w) = 1 THEN RandomElement(S) ELSE Unset
SimKw(dummy) == LET useRounds == RandomElement(1..5) = 1
             alias == RandomElement(1..8)
             vk == RandomElement(IF Pcts = {} THEN {"unset", "int"} ELSE {"unset", "int", "pct"})
         IN [minA |-> IF alias = 1 THEN Unset ELSE Opt(Vals, 2), minB |-> IF alias \in {1, 2} THEN Opt(Vals, 1) ELSE Unset,
             maxA |-> IF alias = 3 THEN Unset ELSE Opt(Vals, 2), maxB |-> IF alias \in {3, 4} THEN Opt(Vals, 1) ELSE Unset,
             def |-> Opt(Vals, 2), rounds |-> IF useRounds THEN Pick(Vals) ELSE Unset,
             varyK |-> vk, varyV |-> IF vk = "int" THEN RandomElement({0, 1, 2, 3}) ELSE IF vk = "pct" THEN RandomElement(Pcts) ELSE 0]
SimNext == LET k == IF RandomElement(1..2) = 1 THEN Len(tree) ELSE RandomElement(1..Len(tree))
               w == RandomElement(1..10) IN
           CASE w \in 1..4 -> UsingT(k, SimKw(n), Opt(SVals, 3), IF HasTrunc THEN RandomElement({"unset", "unset", "true", "false"}) ELSE "unset", RandomElement(BOOLEAN))
             [] w \in 5..8 -> HashA(k, IF GenOk(tree[k].p) THEN RandomElement(Draws(tree[k].p)) ELSE Unset)
             [] OTHER -> NeedsA(k, RandomElement(Vals))

\* ---- properties (C09) ------------------------------------------------------------
InvWellFormed   == \A k \in 1..Len(tree) : WellFormed(tree[k].p)
InvGenInWindow  == \A k \in 1..Len(tree) : GenInsideWindow(tree[k].p)
InvFreshNoUpdate == \A k \in 1..Len(tree) : FreshNeedsNoUpdate(tree[k].p)
InvSaltInLimits == \A k \in 1..Len(tree) : LET s == tree[k].s IN s.sdef >= s.smin /\ (s.smax = 0 \/ s.sdef <= s.smax)
\* the hasher a new one was derived from, and the global one, stay exactly as they were
Frame == [][\A k \in 1..Len(tree) : tree'[k] = tree[k]]_vars
\* strict mode never clamps: what was asked for (and accepted) is what is stored
StrictExact == [][(obs'.op = "using" /\ ~obs'.relaxed /\ obs'.res[1] = "ok" /\ Len(tree') > Len(tree)) =>
                    LET q == tree'[Len(tree')].p kw == obs'.kw IN
                    /\ (kw.minA # Unset => q.minD = kw.minA) /\ (kw.minB # Unset => q.minD = kw.minB)
                    /\ (kw.maxA # Unset => q.maxD >= kw.maxA) /\ (kw.maxB # Unset => q.maxD >= kw.maxB)]_vars

Emit == DoEmit => PrintT(<<"EMIT", ToJson([n |-> n, op |-> obs'.op, node |-> obs'.node, kw |-> obs'.kw, size |-> obs'.size,
                                           relaxed |-> obs'.relaxed, te |-> obs'.te, res |-> obs'.res, r |-> obs'.r, x |-> obs'.x, ivals |-> obs'.ivals, fresh_needs |-> (obs'.op = "hash" /\ obs'.r # Unset /\ Needs(tree[obs'.node].p, obs'.r)),
                                           newnode |-> IF Len(tree') > Len(tree) THEN Len(tree') ELSE 0,
                                           tree |-> tree'])>>)
View == <<tree, n>>
=============================================================================
