---------------------------- MODULE MC_RandPolicy ----------------------------
(* C06, the parts that are policy rather than arithmetic:                      *)
(*  pin: no spelling of a `salt` option - for a scheme or the wildcard "all",  *)
(*       for the default or a named category, through any way of configuring   *)
(*       a context - is accepted (KeyError): a configuration cannot pin salts. *)
(*  dup: an alphabet / word list with a repeated element is refused            *)
(*       (ValueError) - at every attempt: validation depends on the argument,  *)
(*       not on what was asked before (the validator keeps a cache).           *)
EXTENDS Naturals, TLC, Json
CONSTANTS Cats, Holders, Vias, Apis, Containers, MaxAttempt
VARIABLE c
PinCases == [k : {"pin"}, x : Cats, y : Holders, z : Vias, attempt : {1}]
\* character alphabets are strings, word lists are sequences of strings
WordApis == {"genphrase-words", "PhraseGenerator"}
DupCases == {d \in [k : {"dup"}, x : Apis, y : Containers, z : {"-"}, attempt : 1..MaxAttempt] : (d.x \in WordApis) = (d.y # "str")}
Init == c \in PinCases \cup DupCases
Next == FALSE /\ UNCHANGED c
Expected(cs) == IF cs.k = "pin" THEN "KeyError" ELSE "ValueError"
\* (there are no transitions: the cases are printed from an invariant, which TLC evaluates once per initial state)
EmitInv == PrintT(<<"EMIT", ToJson([k |-> c.k, x |-> c.x, y |-> c.y, z |-> c.z, attempt |-> c.attempt, expected |-> Expected(c)])>>)
=============================================================================
