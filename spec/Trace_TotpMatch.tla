-------------------------- MODULE Trace_TotpMatch --------------------------
(* I->S for C14: recorded sequences of TOTP.match calls (times and counters  *)
(* given relative to the trace's offset T0, codes from stdlib hmac) must be  *)
(* steps of Totp!MatchResult.  Verdicts are total: a mismatch is printed     *)
(* with its clause and the run goes on.                                      *)
EXTENDS Totp, TLC, Json, IOUtils

Traces == JsonDeserialize(IOEnv.TRACE_FILE)

VARIABLES tid, k, fedback   \* trace number, event number, last accepted counter seen in this trace

Init == tid = 1 /\ k = 1 /\ fedback = -100000

Expected(T, e) ==
    LET nt == NormToken(e.tok, T.digits)
        Code == [c \in T.cmin..(T.cmin + Len(T.codes) - 1) |-> T.codes[c - T.cmin + 1]]
    IN MatchResult(Code, T.p, T.base, e.last, nt[1] # "ok", IF nt[1] = "ok" THEN nt[2] ELSE 0, e.t, e.w, e.skew)

Bad(clause, ex) == PrintT(<<"EMIT", ToJson([tid |-> tid, ev |-> k, clause |-> clause, expected |-> ex])>>)

Next ==
    /\ tid <= Len(Traces)
    /\ LET T == Traces[tid] IN
       IF k > Len(T.events) THEN tid' = tid + 1 /\ k' = 1 /\ fedback' = -100000
       ELSE LET e == T.events[k]
                ex == Expected(T, e)
            IN /\ k' = k + 1 /\ tid' = tid
               /\ IF ex = e.res THEN TRUE ELSE Bad("MatchResult", ex)
               \* history: with feedback, an accepted counter is later than every counter accepted before
               /\ IF e.res[1] = "Accept"
                  THEN /\ IF e.last >= fedback => e.res[2] > e.last THEN TRUE ELSE Bad("AcceptedNotIncreasing", ex)
                       /\ fedback' = IF e.res[2] > fedback THEN e.res[2] ELSE fedback
                  ELSE fedback' = fedback

\* one state per event plus one per trace plus the initial state
ExpectedStates == 1 + Len(Traces) + FoldLeft(LAMBDA a, T : a + Len(T.events), 0, Traces)
Done == TLCGet("stats").distinct = ExpectedStates \/ TLCGet("stats").diameter = ExpectedStates
=============================================================================
