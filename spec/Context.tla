------------------------------- MODULE Context -------------------------------
(***************************************************************************)
(* CryptContext policy (C04), configuration life-cycle (C10), disabled     *)
(* accounts (C18).                                                         *)
(*                                                                         *)
(* A configuration cfg is a record                                         *)
(*   schemes : Seq(name)            in priority order                      *)
(*   def     : cat -> name | "unset"        `default` option               *)
(*   depK    : cat -> "unset"|"auto"|"list" `deprecated` option, kind      *)
(*   depL    : cat -> SUBSET name           ... and list                   *)
(*   opts    : <<cat, name>> -> rounds keywords (Hasher!NoKw when none)    *)
(* Categories: "none" (the default category) and named ones; a category    *)
(* without an own value inherits the default category's.                   *)
(* Scheme facts are constants: Facts[name] = [rounds : rounds record or    *)
(* NoRounds, greedy : BOOLEAN (identify() claims every string)].           *)
(* A stored hash is [scheme, rounds, pw, flagged].                         *)
(***************************************************************************)
EXTENDS Hasher, TLC

CONSTANTS Facts,     \* name -> [hasRounds, P, greedy]
          Cats       \* category names, "none" included

AllNames == DOMAIN Facts
\* option holders: every scheme plus the wildcard "all" (bare `vary_rounds = ..` is stored there; the export spells it
\* all__vary_rounds).  Only the vary_rounds fields of "all" are modelled; schemes without a cost parameter ignore it.
OptNames == AllNames \cup {"all"}
Names(cfg) == {cfg.schemes[i] : i \in 1..Len(cfg.schemes)}

\* ---- option inheritance ----------------------------------------------------------
DefOpt(cfg, cat) == IF cfg.def[cat] # "unset" THEN cfg.def[cat] ELSE cfg.def["none"]
DepKind(cfg, cat) == IF cfg.depK[cat] # "unset" THEN cfg.depK[cat] ELSE cfg.depK["none"]
DepList(cfg, cat) == IF cfg.depK[cat] # "unset" THEN cfg.depL[cat] ELSE cfg.depL["none"]

FirstWhere(seq, P(_)) == IF \E i \in 1..Len(seq) : P(seq[i])
                         THEN seq[CHOOSE i \in 1..Len(seq) : P(seq[i]) /\ \A j \in 1..(i - 1) : ~P(seq[j])]
                         ELSE "unset"

\* explicitly listed deprecated schemes ("auto" lists none explicitly)
ExplicitDep(cfg, cat) == IF DepKind(cfg, cat) = "list" THEN DepList(cfg, cat) ELSE {}
DefaultScheme(cfg, cat) ==
    IF DefOpt(cfg, cat) # "unset" THEN DefOpt(cfg, cat)
    ELSE FirstWhere(cfg.schemes, LAMBDA s : s \notin ExplicitDep(cfg, cat))
Deprecated(cfg, s, cat) ==
    CASE DepKind(cfg, cat) = "unset" -> FALSE
      [] DepKind(cfg, cat) = "auto"  -> s # DefaultScheme(cfg, cat)
      [] OTHER -> s \in DepList(cfg, cat)

\* options of a scheme under a category: the default category's, overridden key by key
Merge(a, b) == [minA |-> IF b.minA # Unset THEN b.minA ELSE a.minA, minB |-> Unset,
                maxA |-> IF b.maxA # Unset THEN b.maxA ELSE a.maxA, maxB |-> Unset,
                def  |-> IF b.def # Unset THEN b.def ELSE a.def,
                rounds |-> IF b.rounds # Unset THEN b.rounds ELSE a.rounds,      \* the `rounds` alias (fallback for the three above)
                varyK |-> IF b.varyK # "unset" THEN b.varyK ELSE a.varyK,
                varyV |-> IF b.varyK # "unset" THEN b.varyV ELSE a.varyV]
VaryOnly(k) == [NoKw EXCEPT !.varyK = k.varyK, !.varyV = k.varyV]
AllOpt(cfg, cat) == IF cat = "none" THEN VaryOnly(cfg.opts[<<"none", "all">>])
                    ELSE Merge(VaryOnly(cfg.opts[<<"none", "all">>]), VaryOnly(cfg.opts[<<cat, "all">>]))
\* inheritance order: all/default category, all/category, scheme/default category, scheme/category
Opts(cfg, s, cat) == LET g == IF Facts[s].hasRounds THEN AllOpt(cfg, cat) ELSE NoKw IN
                     IF cat = "none" THEN Merge(g, cfg.opts[<<"none", s>>]) ELSE Merge(Merge(g, cfg.opts[<<"none", s>>]), cfg.opts[<<cat, s>>])

\* the customised hasher of scheme s for category cat: <<"ok", rounds record>> or an error
Record(cfg, s, cat) ==
    IF ~Facts[s].hasRounds THEN (IF Opts(cfg, s, cat) = NoKw THEN <<"ok", Facts[s].P>> ELSE <<"KeyError">>)   \* keyword not supported
    ELSE UsingRounds(Facts[s].P, Opts(cfg, s, cat), TRUE)                                                        \* contexts always relax

\* ---- validity: the set of error classes a configuration may be refused with ----------
Errors(cfg) ==
    LET cats == Cats
        dup == \E i, j \in 1..Len(cfg.schemes) : i # j /\ cfg.schemes[i] = cfg.schemes[j]
        unknownDefault == \E c \in cats : cfg.def[c] # "unset" /\ cfg.schemes # <<>> /\ cfg.def[c] \notin Names(cfg)
        unknownDep == \E c \in cats : cfg.depK[c] = "list" /\ cfg.schemes # <<>> /\ ~(cfg.depL[c] \subseteq Names(cfg))
        noLive == \E c \in cats : cfg.schemes # <<>> /\ DefaultScheme(cfg, c) = "unset"
        \* (a context without schemes is only a container of options: nothing is cross-checked yet)
        defDep == cfg.schemes # <<>> /\ \E c \in cats : DefaultScheme(cfg, c) # "unset" /\ DefaultScheme(cfg, c) \in ExplicitDep(cfg, c)
        optsOnUnknown == \E c \in cats, s \in AllNames : s \notin Names(cfg) /\ cfg.opts[<<c, s>>] # NoKw
        recErr == {Record(cfg, s, c)[1] : s \in Names(cfg), c \in cats} \ {"ok"}
    IN (IF dup \/ unknownDefault \/ unknownDep THEN {"KeyError"} ELSE {})
       \cup (IF noLive \/ defDep THEN {"ValueError"} ELSE {})
       \cup recErr
Valid(cfg) == Errors(cfg) = {}

\* ---- decisions ---------------------------------------------------------------------------
Claims(s, h) == Facts[s].greedy \/ h.scheme = s
Identify(cfg, h) == FirstWhere(cfg.schemes, LAMBDA s : Claims(s, h))          \* "unset" = unknown hash (a value error)

\* which rounds record a hash is judged by: the identified scheme's record for the category
NeedsUpdate(cfg, h, cat) ==
    LET s == Identify(cfg, h) IN
    IF s = "unset" THEN "ValueError"
    ELSE IF Deprecated(cfg, s, cat) \/ h.flagged
            \/ (Facts[s].hasRounds /\ s = h.scheme /\ Needs(Record(cfg, s, cat)[2], h.rounds)) THEN "True" ELSE "False"

\* a greedy scheme that shadows the real one "verifies" a hash only against the hash text itself
Verify(cfg, pw, h) ==
    LET s == Identify(cfg, h) IN
    IF s = "unset" THEN "ValueError" ELSE IF s = h.scheme /\ pw = h.pw THEN "True" ELSE "False"

\* the new hash a context makes for (pw, cat): scheme and the draws its cost may come from
NewScheme(cfg, cat) == DefaultScheme(cfg, cat)
NewRecord(cfg, cat) == Record(cfg, NewScheme(cfg, cat), cat)[2]

\* a context never asks to update what it has just produced (fixed point), provided an answer exists
FixedPoint(cfg, cat) ==
    LET s == NewScheme(cfg, cat)  Q == NewRecord(cfg, cat) IN
    /\ ~Deprecated(cfg, s, cat)
    /\ (Facts[s].hasRounds /\ GenOk(Q) /\ HasOddInWin(Q)) => \A r \in GenCandidates(Q) : ~Needs(Q, r)
=============================================================================
