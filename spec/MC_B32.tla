------------------------------- MODULE MC_B32 -------------------------------
(* base32 helpers: encode/decode inverse, alphabet, typo repair (C12).       *)
EXTENDS Codec, TLC, Json
CONSTANTS MaxLen, ByteVals, DoEmit
VARIABLE st
Strings == UNION {[1..n -> ByteVals] : n \in 0..MaxLen}
Init == \E d \in Strings : st = [phase |-> "raw", data |-> d, text |-> <<>>, back |-> <<>>]
EncodeA == /\ st.phase = "raw"
           /\ st' = [st EXCEPT !.phase = "enc", !.text = B32Encode(st.data)]
\* the user types the key: lower case, or 8 for B, or 0 for O
Typo(c) == {c} \cup (IF c \in 65..90 THEN {c + 32} ELSE {}) \cup (IF c = 66 THEN {56} ELSE {}) \cup (IF c = 79 THEN {48} ELSE {})
TypoA   == /\ st.phase = "enc"
           /\ \E i \in 1..Len(st.text) : \E c \in Typo(st.text[i]) \ {st.text[i]} :
                 st' = [st EXCEPT !.phase = "typo", !.text = [st.text EXCEPT ![i] = c]]
DecodeA == /\ st.phase \in {"enc", "typo"}
           /\ st' = [st EXCEPT !.phase = "dec", !.back = B32Decode(st.text)]
\* '1' and '9' are not base32 digits and are not repaired
BadA    == /\ st.phase = "enc" /\ st.text # <<>>
           /\ \E i \in 1..Len(st.text), c \in {49, 57, 33} :
                 st' = [st EXCEPT !.phase = "bad", !.text = [st.text EXCEPT ![i] = c],
                                  !.back = B32Decode([st.text EXCEPT ![i] = c])]
Next == EncodeA \/ TypoA \/ DecodeA \/ BadA
InvRoundTrip == st.phase = "dec" => st.back = <<"ok", st.data>>
InvAlphabet  == st.phase = "enc" => /\ ValidText(BASE32, st.text)
                                    /\ Len(st.text) = (Len(st.data) * 8 + 4) \div 5
InvBad       == st.phase = "bad" => st.back = <<"ValueError">>
Emit == DoEmit => PrintT(<<"EMIT", ToJson([op |-> st'.phase, data |-> st.data, tin |-> st.text,
                                          text |-> st'.text, back |-> st'.back])>>)
=============================================================================
