---------------------------- MODULE Trace_HashFormat ----------------------------
(* I->S for C08: aggregated mutation events recorded from the real hashers.       *)
(* Each event: family facts, mutation kind, call, outcome, and - for a verify     *)
(* that answered TRUE - the mutant and the original as character codes, so that   *)
(* the spec can apply the family's documented normalisation itself.               *)
EXTENDS HashFormat, Codec, TLC, Json, IOUtils, FiniteSets
Trace == JsonDeserialize(IOEnv.TRACE_FILE)
VARIABLE i
Init == i = 1
Bad(clause) == PrintT(<<"EMIT", ToJson([ev |-> i, clause |-> clause])>>)
Chk(ok, clause) == IF ok THEN TRUE ELSE Bad(clause)
\* hex digits of either case denote the same bits
LowerHex(s) == [k \in 1..Len(s) |-> IF s[k] \in 65..70 THEN s[k] + 32 ELSE s[k]]
\* bcrypt: the 22nd salt character (position 29 of a $2x$NN$ string) carries 4 unused bits
PadRepaired(s, pos) == IF Len(s) >= pos /\ InAbc(BCRYPT64, s[pos])
                       THEN [s EXCEPT ![pos] = BCRYPT64[ClearPad(TRUE, IndexOf(BCRYPT64, s[pos]) - 1, 4) + 1]] ELSE s
Norm(e, s) == LET a == IF e.fam.hexnorm THEN LowerHex(s) ELSE s IN
              IF e.fam.padrepair THEN PadRepaired(a, e.padpos) ELSE a
\* Named deviation (recorded as a known finding, not as conformance): several parsers are lenient - characters outside
\* the armour alphabet inside a base64 field, extra '=' padding, blanks and leading zeros of decimal fields are ignored.
\* The digest bits are the same; the spelling is not one the format documents.
Junk == {0, 9, 10, 13, 32, 33, 42, 44, 61, 123, 233}
IsDigit(c) == c \in 48..57
\* ('-' and '_' of the url-safe alphabet are aliases of '+' and '/')
Alias(c) == IF c = 95 THEN 47 ELSE IF c = 45 THEN 43 ELSE c
Lenient(s0) == LET s == [k \in 1..Len(s0) |-> Alias(s0[k])]
                   a == SelectSeq(s, LAMBDA c : c \notin Junk)
                  idx == SelectSeq([k \in 1..Len(a) |-> k],
                                   LAMBDA k : ~(a[k] = 48 /\ k > 1 /\ ~IsDigit(a[k-1]) /\ k < Len(a) /\ IsDigit(a[k+1])))
              IN [k \in 1..Len(idx) |-> a[idx[k]]]
Next ==
    /\ i <= Len(Trace) /\ i' = i + 1
    /\ LET e == Trace[i] IN
       CASE e.call = "identify" -> Chk(e.outcome \in AllowedIdentify, "identify must answer True or False")
         [] e.call \in {"verify", "ctx_verify"} ->
              /\ Chk(e.outcome \in {"True", "False", "ValueError", "TypeError"}, "verify raised an internal error")
              /\ IF e.outcome = "True" /\ Norm(e, e.mutant) # Norm(e, e.original)
                 THEN (IF Lenient(Norm(e, e.mutant)) = Lenient(Norm(e, e.original))
                       THEN Bad("lenient decoding: an undocumented re-spelling of the same digest bits verified")
                       ELSE Bad("an altered hash verified the original password"))
                 ELSE TRUE
         [] e.call \in {"needs_update", "ctx_needs_update"} ->
              Chk(e.outcome \in {"True", "False", "ValueError", "TypeError"}, "needs_update raised an internal error")
         [] OTHER -> Bad("unknown call")
=============================================================================
