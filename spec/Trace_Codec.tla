---------------------------- MODULE Trace_Codec ----------------------------
(* I->S: events recorded from the real encoders are re-computed by the      *)
(* specification.  One state per event; a mismatch is printed with the      *)
(* failing clause and the run continues (verdicts are total).               *)
EXTENDS Codec, TLC, Json, IOUtils

Trace == JsonDeserialize(IOEnv.TRACE_FILE)

VARIABLE i

\* res is <<"ok", value>> or <<"ValueError">> etc. as recorded
Expected(ev) ==
    CASE ev.op = "encode"  -> <<"ok", Encode(ev.eng, ev.data)>>
      [] ev.op = "decode"  -> Decode(ev.eng, ev.data)
      [] ev.op = "repair"  -> Repair(ev.eng, ev.data)
      [] ev.op = "encint"  -> <<"ok", EncIntBits(ev.eng, ev.data)>>
      [] ev.op = "decint"  -> DecIntBits(ev.eng, ev.data, ev.bits)
      [] ev.op = "enctr"   -> <<"ok", EncodeTransposed(ev.eng, ev.data, ev.offs)>>
      [] ev.op = "dectr"   -> DecodeTransposed(ev.eng, ev.data, ev.offs)
      [] ev.op = "b32enc"  -> <<"ok", B32Encode(ev.data)>>
      [] ev.op = "b32dec"  -> B32Decode(ev.data)
      [] ev.op = "stdb64"  -> <<"ok", StdB64(ev.data)>>

Init == i = 1
Next ==
    /\ i <= Len(Trace)
    /\ i' = i + 1
    /\ LET ev == Trace[i]
           ex == Expected(ev)
       IN IF ex = ev.res THEN TRUE
          ELSE PrintT(<<"EMIT", ToJson([bad |-> i, id |-> ev.id, op |-> ev.op, expected |-> ex, got |-> ev.res])>>)

Done == TLCGet("stats").diameter - 1 = Len(Trace)
=============================================================================
